#!/bin/bash
# Builds the Coq development (full .vo build), extracts the model and links the OCaml driver.
# Serialised with a lock so that concurrently started checks do not trample each other.
set -e
cd "$(dirname "$0")"
exec 9>/verif/.build.lock
flock 9
cd coq
[ -f Makefile.coq ] && [ Makefile.coq -nt _CoqProject ] || coq_makefile -f _CoqProject -o Makefile.coq >/dev/null
mkdir -p ../ocaml/gen
timeout 3000 make -f Makefile.coq -j16 2>&1 | grep -v "^COQDEP\|^COQC \|^CLEAN" || true
# make's status (PIPESTATUS is lost through '|| true'), so test the artefacts instead:
for v in $(grep '\.v$' _CoqProject); do [ -f "${v}o" ] || { echo "BUILD-FAILED $v"; exit 2; }; done
cd ../ocaml
if [ ! -x driver ] || [ gen/model.ml -nt driver ] || [ driver.ml -nt driver ] || [ conv.ml -nt driver ]; then
  ocamlfind ocamlopt -w -a -O3 -I gen gen/model.mli gen/model.ml conv.ml driver.ml -o driver 2>&1 | grep -v "^ocamlfind: \|options -O3" || true
  [ -x driver ] || { echo "BUILD-FAILED driver"; exit 2; }
fi
echo BUILD-OK
