#!/bin/bash
# Builds the Coq development (full .vo build through coq_makefile), extracts the executable
# models and links the OCaml drivers.
#   ./build.sh all            everything (setup_cmd)
#   ./build.sh C16 train      Props/C16.vo + the extraction/driver groups named after it
# Conventions: coq/Extract/Ex_<g>.v extracts to ocaml/gen/<g>.ml ; ocaml/drv_<g>.ml is the
# driver of group <g> and is linked to ocaml/bin/<g>.
# Serialised with a lock so that concurrently started checks do not trample each other.
cd "$(dirname "$0")"
exec 9>/verif/.build.lock
flock 9
what=${1:-all}; shift || true
groups="$*"
cd coq
# _CoqProject is generated: flags + every .v below Model/ Proofs/ Props/ Extract/
{ echo "-Q . FJ"
  echo "-arg -w -arg -notation-overridden,-deprecated-hint-without-locality,-deprecated-instance-without-locality,-ambiguous-paths,-redundant-canonical-projection,-deprecated-hint-rewrite-without-locality,-extraction-opaque-accessed,-extraction-reserved-identifier,-extraction-logical-axiom"
  find Model Proofs Props Extract -name '*.v' | sort; } > _CoqProject.new
if ! cmp -s _CoqProject.new _CoqProject; then mv _CoqProject.new _CoqProject; coq_makefile -f _CoqProject -o Makefile.coq >/dev/null; else rm _CoqProject.new; fi
[ -f Makefile.coq ] || coq_makefile -f _CoqProject -o Makefile.coq >/dev/null
mkdir -p ../ocaml/gen ../ocaml/bin
if [ "$what" = all ]; then
  targets=""
  groups=$(ls Extract | sed -n 's/^Ex_\(.*\)\.v$/\1/p')
  kflag=-k
else
  targets=""
  for w in ${what//,/ }; do targets="$targets Props/$w.vo"; done   # "C01,X01_bij": several property files
  for g in $groups; do targets="$targets Extract/Ex_$g.vo"; done
  kflag=
fi
timeout 3300 make -f Makefile.coq -j16 $kflag $targets 2>&1 | grep -v "^COQDEP\|^COQC \|^CLEAN\|^make" | tail -40
fail=0
if [ "$what" = all ]; then
  for v in $(grep '\.v$' _CoqProject); do [ -f "${v}o" ] || { echo "BUILD-FAILED $v"; fail=2; }; done
else
  for t in $targets; do [ -f "$t" ] && [ ! "${t%o}" -nt "$t" ] || { echo "BUILD-FAILED $t"; fail=2; }; done
fi
cd ../ocaml
for g in $groups; do
  [ -f drv_$g.ml ] || continue
  if [ ! -x bin/$g ] || [ gen/$g.ml -nt bin/$g ] || [ drv_$g.ml -nt bin/$g ] || [ conv.ml -nt bin/$g ] || [ fops.ml -nt bin/$g ]; then
    rm -rf bin/.b_$g; mkdir -p bin/.b_$g
    G="$(echo ${g:0:1} | tr a-z A-Z)${g:1}"
    cp gen/$g.ml gen/$g.mli drv_$g.ml bin/.b_$g/
    sed "s/MODEL/$G/g" conv.ml > bin/.b_$g/conv.ml
    extra=""
    if grep -q "Fops" drv_$g.ml; then sed "s/MODEL/$G/g" fops.ml > bin/.b_$g/fops.ml; extra=fops.ml; fi
    ( cd bin/.b_$g && ocamlfind ocamlopt -w -a -O3 -package str $g.mli $g.ml conv.ml $extra drv_$g.ml -linkpkg -o ../$g 2>&1 | grep -v "^ocamlfind: \|options -O3" )
    rm -rf bin/.b_$g
    [ -x bin/$g ] || { echo "BUILD-FAILED driver $g"; fail=2; }
  fi
done
[ $fail = 0 ] && echo BUILD-OK
# "all" is the setup command: a file that fails to build is reported here but only fails the checks that need it
# (every check rebuilds exactly its own targets and reports a broken proof obligation if they do not build).
[ "$what" = all ] && exit 0
exit $fail
