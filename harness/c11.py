"""C11 -- constrained parameters stay valid for every unconstrained value.

Tie (model = coq/Model/Constr.v extracted, run at OCaml floats):
  U1 ctor-roundtrip : constructed objects reproduce their constructor arguments (magnitudes 1e-6..1e6); the stored raw
                      value equals the model's `_init`, the unwrapped field equals the model's round trip.
  U2 raw-box        : every raw trainable leaf overwritten (eqx.tree_at) with box values (grid incl. +-50, 0, random) and
                      after real optimiser steps (optax.adam on the partitioned params; fit_to_data); unwrap(obj) fields
                      == the model's reparameterisation of the same raw values; validity predicates hold.
  U3 ctor-rejects   : constructors accept/raise == the model's `*_rejects` at the edge of validity.
  hyp               : every hypothesis the proofs force (w <> 0, row <> 0, lo < hi, ...) replayed on the code.
Search oracle (independent of the model): the constraint predicates evaluated on unwrap(obj) alone.
"""

import math
import re

import numpy as np

from harness.common import fhex, fparse, hexlist

PROPERTY = "C11"
GROUPS = ["constr"]
MANIFEST = {
    "design_ref": "DESIGN.md 4.11",
    "technique": "Coq proofs over the reals about an executable Gallina model of every reparameterisation (Model/Constr.v, generic "
                 "over NumOps) + float64 correspondence of the extracted model with unwrap() of real flowjax objects + the "
                 "constraint predicates as search oracle",
    "text": "Theorems for EVERY real raw value and every vector length (no box): softplus-reparameterised scales/diagonals/df/rates "
            "are > 0 and the constructor round trip softplus(softplus_inv y) = y holds for y > 0; scale > min_scale for the flows' "
            "default transformer; spline knots are strictly increasing from interval[0] to interval[1] for every raw vector, every "
            "lo < hi and every softmax_adjust >= 0, derivatives > min_derivative; planar (as repaired by e65a946) w.u_hat > -1/max(1, slope) for every w <> 0, hence "
            "both inverse denominators 1 + w.u_hat and 1 + slope w.u_hat are > 0 for EVERY slope > 0; mixture weights > 0 and sum to 1 for any logits; weight-normalised non-zero "
            "rows have norm = scale; triangular diagonal > 0, covariance reproduced; each constructor check accepts exactly the "
            "valid arguments (boolean model `*_rejects`). The planar formula before the fix is refuted for slopes > 1 "
            "(C11_planar_slope_gt1_old_refuted) and its witness replayed on the code. PARTIAL (floats): softplus/exp underflow and absorption "
            "(softplus(raw)+min = min, knots collapsing for softmax_adjust = 0) are outside the R-model; the box |raw| <= 50 is "
            "run on the real code in float64 (tie + oracle) and float32 (oracle), strictness being asserted only where the exact "
            "margin exceeds the rounding noise. The model is tied to /repo on every run by comparing unwrap() of real objects whose "
            "raw leaves were overwritten / trained with the extracted model (1e-9 relative) and constructor raise/accept with the "
            "model's rejection table (exact).",
    "note": "Trusted: Coq kernel; extraction (ExtrOcamlBasic); OCaml driver + libm; harness. linalg.cholesky, jax.nn.softmax/"
            "log_softmax/softplus are modelled by their formulas (softmax with max-shift). Hypotheses forced by the proofs are explicit "
            "and replayed: w == 0 (Planar) and an all-zero row (WeightNormalization) give NaN on the real code (candidate known "
            "findings, skipped by the tie and reported in notes). "
            "Denormal constructor arguments are excluded (XLA flushes them to zero, OCaml does not).",
}

EPS = 2.220446049250313e-16
TINY = 2.2250738585072014e-308  # smallest normal double
_S = {}


def S():
    if _S:
        return _S
    import equinox as eqx
    import jax
    import jax.numpy as jnp
    import jax.random as jr
    import flowjax.bijections as B
    import flowjax.distributions as D
    from flowjax import wrappers as W
    from flowjax.bijections.planar import _UnconditionalPlanar
    from flowjax.flows import _affine_with_min_scale

    _S.update(eqx=eqx, jax=jax, jnp=jnp, jr=jr, B=B, D=D, W=W, UP=_UnconditionalPlanar, ams=_affine_with_min_scale)
    return _S


# ------------------------------------------------------------------ helpers
def A(x):
    return np.asarray(x, dtype=np.float64)


def flist(s):
    return np.array([fparse(t) for t in s.split(",")], dtype=np.float64) if s not in ("-", "") else np.zeros(0)


def fmat(s):
    return np.array([[fparse(t) for t in r.split(",")] for r in s.split(";")], dtype=np.float64) if s not in ("-", "") else np.zeros((0, 0))


def hexmat(m):
    m = A(m)
    return ";".join(hexlist(r) for r in m) if m.size else "-"


def same_class(a, b):
    """nan/inf compared by class"""
    a, b = A(a), A(b)
    return np.array_equal(np.isnan(a), np.isnan(b)) and np.array_equal(np.isposinf(a), np.isposinf(b)) and np.array_equal(np.isneginf(a), np.isneginf(b))


def close(obs, pred, floor):
    """|obs - pred| <= 1e-9 * max(|pred|, floor) elementwise; special values by class.  floor = 0 -> purely relative."""
    obs, pred = A(obs), A(pred)
    if obs.shape != pred.shape:
        return False
    if not same_class(obs, pred):
        return False
    fin = np.isfinite(pred)
    tol = 1e-9 * np.maximum(np.abs(pred), floor) + 1e-300
    return bool(np.all(np.abs(obs - pred)[fin] <= np.broadcast_to(tol, pred.shape)[fin]))


def jsonable(d):
    out = {}
    for k, v in d.items():
        if isinstance(v, np.ndarray):
            out[k] = [fhex(x) for x in v.ravel()] + [{"shape": list(v.shape)}]
        else:
            out[k] = v
    return out


def unjson(d):
    out = {}
    for k, v in d.items():
        if isinstance(v, list) and v and isinstance(v[-1], dict) and "shape" in v[-1]:
            out[k] = np.array([fparse(x) for x in v[:-1]], dtype=np.float64).reshape(v[-1]["shape"])
        else:
            out[k] = v
    return out


def rnd(v, eps):
    """a Python-float static argument as the implementation sees it in the working precision"""
    return float(np.float32(v)) if eps > 1e-10 else float(v)


def softplus_np(x):
    x = A(x)
    return np.maximum(x, 0) + np.log1p(np.exp(-np.abs(x)))


# ------------------------------------------------------------------ kinds of constrained objects
class Kind:
    """build(st) -> obj ; raws(obj) -> {name: ndarray} ; with_raws(obj, raws, dtype) -> obj ; observe(obj) -> {field: ndarray}
    reqs(st, raws) -> [(field, request, parser, floor)] ; oracle(st, raws, obs, eps) -> [error strings] ; skip(st, raws) -> reason|None"""

    name = "?"

    def wheres(self, obj):  # tuple of raw leaves, in the order of self.rawnames
        raise NotImplementedError

    def raws(self, obj):
        return {n: A(l) for n, l in zip(self.rawnames, self.wheres(obj))}

    def with_raws(self, obj, raws, dtype=np.float64):
        s = S()
        return s["eqx"].tree_at(self.wheres, obj, tuple(s["jnp"].asarray(np.asarray(raws[n], dtype=dtype)) for n in self.rawnames))

    def skip(self, st, raws):
        return None


class PosKind(Kind):
    """A softplus-positive leaf: BijectionReparam(arr, SoftPlus())."""

    rawnames = ("raw",)

    def __init__(self, name, build, where, obs):
        self.name, self._build, self._where, self._obs = name, build, where, obs

    def build(self, st):
        return self._build(st)

    def wheres(self, obj):
        return (self._where(obj),)

    def observe(self, obj):
        return {"value": A(self._obs(obj))}

    def reqs(self, st, raws):
        return [("value", f"pos.unwrap {hexlist(raws['raw'].ravel())}", flist, 0.0)]

    def oracle(self, st, raws, obs, eps):
        v = obs["value"]
        e = []
        if not np.all(np.isfinite(v)):
            e.append("non-finite constrained value")
        elif not np.all(v > 0):
            e.append("constrained value not > 0")
        return e


class RateKind(PosKind):
    def reqs(self, st, raws):
        return [("value", f"rate.of {hexlist(raws['raw'].ravel())}", flist, 0.0)]


class UniformKind(Kind):
    name = "Uniform"
    rawnames = ("raw", "loc")  # loc (= minval) is an ordinary trainable leaf

    def build(self, st):
        s = S()
        return s["D"].Uniform(s["jnp"].asarray(A(st["lo"])), s["jnp"].asarray(A(st["lo"]) + 1.0))

    def wheres(self, obj):
        return (obj.bijection.scale.arr, obj.bijection.loc)

    def observe(self, obj):
        return {"minval": A(obj.minval), "maxval": A(obj.maxval), "scale": A(S()["W"].unwrap(obj.bijection.scale))}

    def reqs(self, st, raws):
        lo = raws["loc"].ravel()
        return [("maxval", f"uniform.maxval {hexlist(lo)} {hexlist(raws['raw'].ravel())}", flist, np.maximum(1.0, np.abs(lo))),
                ("scale", f"pos.unwrap {hexlist(raws['raw'].ravel())}", flist, 0.0)]

    def oracle(self, st, raws, obs, eps):
        e = []
        if not (np.all(np.isfinite(obs["scale"])) and np.all(obs["scale"] > 0)):
            e.append("maxval - minval (scale) not > 0")
        if not np.all(obs["maxval"] >= obs["minval"]):
            e.append("maxval < minval")
        if not np.array_equal(obs["minval"], raws["loc"]):
            e.append("minval is not the loc leaf")
        return e


class TriKind(Kind):
    rawnames = ("diag", "arr")

    def __init__(self, mvn):
        self.mvn = mvn
        self.name = "MultivariateNormal" if mvn else "TriangularAffine"

    def build(self, st):
        s = S()
        n = st["n"]
        if self.mvn:
            return s["D"].MultivariateNormal(s["jnp"].zeros(n), s["jnp"].eye(n))
        return s["B"].TriangularAffine(s["jnp"].zeros(n), s["jnp"].eye(n), lower=st["lower"])

    def _t(self, obj):
        return obj.bijection if self.mvn else obj

    def wheres(self, obj):
        t = self._t(obj).triangular
        return (t.kwargs["diag"].arr, t.kwargs["arr"])

    def observe(self, obj):
        tri = A(S()["W"].unwrap(self._t(obj)).triangular)
        o = {"tri": tri}
        if self.mvn:
            o["cov"] = A(obj.covariance)
        return o

    def reqs(self, st, raws):
        lower = 1 if (self.mvn or st["lower"]) else 0
        d, a = hexlist(raws["diag"].ravel()), hexmat(raws["arr"])
        mag = max(1.0, float(np.max(np.abs(raws["arr"]))), float(np.max(softplus_np(raws["diag"]))))
        r = [("tri", f"tri.unwrap {lower} {d} {a}", fmat, 0.0)]
        if self.mvn:
            r.append(("cov", f"tri.cov {lower} {d} {a}", fmat, mag * mag))
        return r

    def oracle(self, st, raws, obs, eps):
        t = obs["tri"]
        e = []
        lower = self.mvn or st["lower"]
        if not np.all(np.isfinite(t)):
            e.append("non-finite triangular matrix")
            return e
        if not np.all(np.diag(t) > 0):
            e.append("triangular diagonal not > 0")
        off = np.triu(t, 1) if lower else np.tril(t, -1)
        if np.any(off != 0):
            e.append("entries outside the triangle are not 0")
        if self.mvn and not (np.all(np.isfinite(obs["cov"])) and np.allclose(obs["cov"], obs["cov"].T, rtol=1e-12, atol=0) and np.all(np.diag(obs["cov"]) > 0)):
            e.append("covariance not finite/symmetric/positive diagonal")
        return e


class MinScaleKind(Kind):
    name = "_affine_with_min_scale"
    rawnames = ("raw",)

    def build(self, st):
        return S()["ams"](st["ms"])

    def wheres(self, obj):
        return (obj.scale.arr,)

    def observe(self, obj):
        return {"scale": A(S()["W"].unwrap(obj).scale)}

    def reqs(self, st, raws):
        return [("scale", f"minscale.unwrap {fhex(st['ms'])} {hexlist(raws['raw'].ravel())}", lambda s: flist(s).reshape(()), 0.0)]

    def oracle(self, st, raws, obs, eps):
        v, ms = obs["scale"], float(st["ms"])  # Loc(min_scale).loc is a float64 array whatever the dtype of the raw leaf
        e = []
        if not np.all(np.isfinite(v)) or not np.all(v > 0):
            e.append("scale not finite and > 0")
        # strict where the exact margin softplus(raw) exceeds the rounding noise of adding min_scale (floats: partial)
        strict = softplus_np(raws["raw"]) > 8 * eps * max(abs(ms), 1e-300)
        if not np.all(np.where(strict, v > ms, v >= ms)):
            e.append("scale not > min_scale")
        return e


class SplineKind(Kind):
    name = "RationalQuadraticSpline"
    rawnames = ("x", "y", "d")

    def build(self, st):
        iv = st["hi"] if st.get("scalar") else (st["lo"], st["hi"])
        return S()["B"].RationalQuadraticSpline(knots=st["K"], interval=iv, min_derivative=st["md"], softmax_adjust=st["adj"])

    def wheres(self, obj):
        return (obj.x_pos.args[0], obj.y_pos.args[0], obj.derivatives.args[0])

    def observe(self, obj):
        u = S()["W"].unwrap(obj)
        return {"x_pos": A(u.x_pos), "y_pos": A(u.y_pos), "derivatives": A(u.derivatives)}

    def reqs(self, st, raws):
        lo, hi, adj = fhex(st["lo"]), fhex(st["hi"]), fhex(st["adj"])
        fl = max(1.0, abs(st["lo"]), abs(st["hi"]))
        return [("x_pos", f"knots {lo} {hi} {adj} {hexlist(raws['x'])}", flist, fl),
                ("y_pos", f"knots {lo} {hi} {adj} {hexlist(raws['y'])}", flist, fl),
                ("derivatives", f"derivs {fhex(st['md'])} {hexlist(raws['d'])}", flist, 0.0)]

    @staticmethod
    def min_width(st, raw):
        """exact-arithmetic lower bound of the smallest bin width / interval length (independent of the model)"""
        raw = A(raw)
        sm = np.exp(raw - raw.max())
        sm = sm / sm.sum()
        w = (sm + st["adj"] / raw.size) / (1 + st["adj"])
        w[0] /= 2
        return float(w.min())

    def oracle(self, st, raws, obs, eps):
        e = []
        lo, hi = rnd(st["lo"], eps), rnd(st["hi"], eps)
        for f, r in (("x_pos", "x"), ("y_pos", "y")):
            p = obs[f]
            if p.shape != (st["K"] + 2,) or not np.all(np.isfinite(p)):
                e.append(f"{f} wrong shape or non-finite")
                continue
            if p[0] != lo or p[-1] != hi:
                e.append(f"{f} ends are not the interval ends")
            d = np.diff(p)
            # strict where the exact smallest width exceeds the rounding noise of lo + scale*cumsum (floats: partial)
            noise = 16 * st["K"] * eps * max(abs(lo), abs(hi), hi - lo)
            if self.min_width(st, raws[r]) * (hi - lo) > noise:
                if not np.all(d > 0):
                    e.append(f"{f} not strictly increasing")
            elif not np.all(d >= -noise):  # collapsed regime (only reachable with softmax_adjust ~ 0): ordered up to rounding
                e.append(f"{f} decreasing")
        dv, md = obs["derivatives"], rnd(st["md"], eps)
        if dv.shape != (st["K"] + 2,) or not np.all(np.isfinite(dv)):
            e.append("derivatives wrong shape or non-finite")
        else:
            strict = softplus_np(raws["d"]) > 8 * eps * max(abs(md), 1e-300)
            if not np.all(np.where(strict, dv > md, dv >= md)):
                e.append("derivatives not > min_derivative")
        return e


class PlanarKind(Kind):
    name = "Planar"
    rawnames = ("params",)

    def build(self, st):
        s = S()
        return s["B"].Planar(s["jr"].PRNGKey(0), dim=st["dim"], negative_slope=st.get("slope"))

    def wheres(self, obj):
        return (obj.params,)

    @staticmethod
    def split(st, params):
        d = st["dim"]
        return params[:d], params[d:2 * d], params[-1]

    def skip(self, st, raws):
        w, _, _ = self.split(st, raws["params"])
        return "Planar weight == 0 (measure-zero; theorem hypothesis w <> 0)" if not np.any(w != 0) else None

    def observe(self, obj):
        s = S()
        pl = obj.get_planar()
        o = {"uhat": A(pl.get_act_scale())}
        if obj.negative_slope is not None:
            w, b = A(pl.weight), float(pl.bias)
            y = -w * (abs(b) + 1.0) / float(w @ w)  # numerator w.y + b < 0  ->  relu slope = negative_slope
            ld = float(pl.inverse_and_log_det(s["jnp"].asarray(y))[1])
            o["absdenom"] = A(math.exp(-ld))
        return o

    def reqs(self, st, raws):
        w, u, _ = self.split(st, raws["params"])
        mag = max(1.0, float(np.max(np.abs(u))), float(np.max(np.abs(w))))
        sl = st.get("slope")
        r = [("uhat", f"planar {'none' if sl is None else fhex(sl)} {hexlist(w)} {hexlist(u)}", lambda s: flist(s.split(" ")[0]), mag)]
        if sl is not None:  # the branch with relu slope = negative_slope
            r.append(("absdenom", f"planar.denom {fhex(sl)} {fhex(sl)} {hexlist(w)} {hexlist(u)}", lambda s: np.abs(A(fparse(s))),
                      max(1.0, sl * float(np.sum(np.abs(w) * mag)))))
        return r

    def oracle(self, st, raws, obs, eps):
        w, u, _ = self.split(st, raws["params"])
        uh = obs["uhat"]
        e = []
        if not np.all(np.isfinite(uh)):
            return ["u_hat non-finite"]
        wu = float(w @ uh)
        noise = 64 * eps * max(1.0, float(np.sum(np.abs(w * uh))), float(np.sum(np.abs(w * u))))
        margin = float(np.log1p(softplus_np(float(w @ u))))  # exact value of m + 1, m = -1 + log(1 + softplus(w.u))
        sl = st.get("slope")
        k = 1.0 if sl is None else max(1.0, sl)
        # exact: w.u_hat = (margin - 1)/k, so 1 + s*w.u_hat = (1 - s/k) + (s/k)*margin for a branch slope s
        for s_ in ([1.0] if sl is None else [1.0, sl]):
            exact = (1 - s_ / k) + (s_ / k) * margin
            val = 1 + s_ * wu
            if exact > 4 * max(1.0, s_) * noise:
                if not val > 0:
                    e.append(f"planar: 1 + {'slope*' if s_ != 1.0 else ''}w.u_hat <= 0 (not invertible)")
            elif not val >= -max(1.0, s_) * noise:  # floats (partial): log(1 + softplus(w.u)) underflows for w.u < -37
                e.append(f"planar: 1 + {'slope*' if s_ != 1.0 else ''}w.u_hat < 0 (not invertible)")
        return e


class MixKind(Kind):
    name = "VmapMixture"
    rawnames = ("logits",)

    def build(self, st):
        s = S()
        k = st["k"]
        return s["D"].VmapMixture(s["eqx"].filter_vmap(s["D"].Normal)(s["jnp"].arange(float(k))), s["jnp"].ones(k))

    def wheres(self, obj):
        return (obj.log_normalized_weights.args[0],)

    def observe(self, obj):
        return {"logw": A(S()["W"].unwrap(obj).log_normalized_weights)}

    def reqs(self, st, raws):
        return [("logw", f"mix.logw {hexlist(raws['logits'])}", flist, 1.0)]

    def oracle(self, st, raws, obs, eps):
        lw = obs["logw"]
        e = []
        if not np.all(np.isfinite(lw)):
            return ["log weights non-finite"]
        if not np.all(lw <= 0):
            e.append("a mixture weight exceeds 1")
        m = lw.max()
        tot = math.exp(m) * float(np.sum(np.exp(lw - m)))
        if abs(tot - 1) > (1e-12 if eps < 1e-10 else 1e-5):
            e.append("mixture weights do not sum to 1")
        if eps < 1e-10 and not np.all(np.exp(lw) > 0):
            e.append("a mixture weight is not > 0")
        return e


class WNKind(Kind):
    name = "WeightNormalization"
    rawnames = ("weight", "scale")

    def build(self, st):
        s = S()
        import warnings

        with warnings.catch_warnings():
            warnings.simplefilter("ignore")
            return s["W"].WeightNormalization(s["jnp"].ones((st["r"], st["c"])))

    def wheres(self, obj):
        return (obj.weight, obj.scale.arr)

    def skip(self, st, raws):
        return "WeightNormalization all-zero row (measure-zero; theorem hypothesis row <> 0)" if np.any(~np.any(raws["weight"] != 0, axis=1)) else None

    def observe(self, obj):
        W = S()["W"]
        return {"w": A(W.unwrap(obj)), "scale": A(W.unwrap(obj.scale))}

    def reqs(self, st, raws):
        return [("w", f"wn.unwrap {hexlist(raws['scale'].ravel())} {hexmat(raws['weight'])}", fmat, 0.0)]

    def oracle(self, st, raws, obs, eps):
        w, sc = obs["w"], obs["scale"].ravel()
        if not np.all(np.isfinite(w)):
            return ["weight-normalised matrix non-finite"]
        e = []
        if not np.all(sc > 0):
            e.append("norm parameter not > 0")
        nr = np.sqrt(np.sum(w * w, axis=1))
        if not np.all(np.abs(nr - sc) <= 1e3 * eps * w.shape[1] * sc):
            e.append("row norm != norm parameter")
        return e


def kinds():
    s = S()
    jnp, B, D, W = s["jnp"], s["B"], s["D"], s["W"]

    def loc(st):
        return jnp.asarray(A(st["loc"]))

    def one(st):
        return jnp.ones(len(st["loc"]))

    ks = [
        PosKind("Affine.scale", lambda st: B.Affine(loc(st), one(st)), lambda a: a.scale.arr, lambda a: W.unwrap(a).scale),
        PosKind("Scale.scale", lambda st: B.Scale(one(st)), lambda a: a.scale.arr, lambda a: W.unwrap(a).scale),
    ]
    for nm in ("Normal", "Cauchy", "Gumbel", "Laplace", "Logistic"):
        cls = getattr(D, nm)
        ks.append(PosKind(nm + ".scale", (lambda c: lambda st: c(loc(st), one(st)))(cls), lambda d: d.bijection.scale.arr, lambda d: d.scale))
    ks += [
        PosKind("LogNormal.scale", lambda st: D.LogNormal(loc(st), one(st)), lambda d: d.bijection.bijections[0].scale.arr,
                lambda d: W.unwrap(d).bijection.bijections[0].scale),
        PosKind("StudentT.df", lambda st: D.StudentT(3.0 * one(st), loc(st), one(st)), lambda d: d.base_dist.df.arr, lambda d: d.df),
        PosKind("StudentT.scale", lambda st: D.StudentT(3.0 * one(st), loc(st), one(st)), lambda d: d.bijection.scale.arr, lambda d: d.scale),
        RateKind("Exponential.rate", lambda st: D.Exponential(one(st)), lambda d: d.bijection.scale.arr, lambda d: d.rate),
        UniformKind(), TriKind(False), TriKind(True), MinScaleKind(), SplineKind(), PlanarKind(), MixKind(), WNKind(),
    ]
    return {k.name: k for k in ks}


# ------------------------------------------------------------------ case generation
GRID = [-50.0, -30.0, -5.0, -1.0, 0.0, 1.0, 5.0, 30.0, 50.0]


def box_values(rng, shape, mode):
    n = int(np.prod(shape)) if shape else 1
    if mode == "const":
        v = np.full(n, rng.choice(GRID))
    elif mode == "grid":
        v = rng.choice(GRID, size=n)
    elif mode == "alt":
        v = np.where(np.arange(n) % 2 == 0, 50.0, -50.0) * rng.choice([-1.0, 1.0])
    elif mode == "uniform":
        v = rng.uniform(-50, 50, size=n)
    elif mode == "edge":
        v = rng.choice([50.0, -50.0, np.nextafter(50.0, 0), np.nextafter(-50.0, 0), 0.0, -0.0], size=n)
    else:
        v = rng.normal(0, 1.5, size=n)
    return v.reshape(shape)


MODES = ["const", "grid", "alt", "uniform", "edge", "normal"]


def statics(rng, name, quick):
    """a few static configurations per kind"""
    def locs(n):
        return [float(x) for x in rng.normal(0, 3, size=n)]

    if name in ("TriangularAffine",):
        return [dict(n=int(n), lower=bool(l)) for n, l in ((1, True), (3, True), (3, False), (4, bool(rng.integers(2))))]
    if name == "MultivariateNormal":
        return [dict(n=1), dict(n=3)]
    if name == "_affine_with_min_scale":
        return [dict(ms=0.01), dict(ms=float(10 ** rng.uniform(-4, -0.1))), dict(ms=0.0), dict(ms=0.5)]
    if name == "RationalQuadraticSpline":
        out = [dict(K=4, lo=-2.0, hi=2.0, md=1e-3, adj=1e-2, scalar=True), dict(K=1, lo=-1.0, hi=1.0, md=1e-3, adj=1e-2, scalar=True),
               dict(K=8, lo=1.0, hi=3.0, md=0.1, adj=1.0), dict(K=3, lo=-5.0, hi=0.5, md=1e-3, adj=0.0),
               dict(K=16, lo=-4.0, hi=4.0, md=1e-2, adj=1e-2, scalar=True), dict(K=2, lo=-1e3, hi=1e3 + 1, md=0.5, adj=5.0)]
        lo = float(rng.normal(0, 3))
        out.append(dict(K=int(rng.integers(1, 10)), lo=lo, hi=lo + float(10 ** rng.uniform(-2, 2)), md=float(10 ** rng.uniform(-4, -0.5)),
                        adj=float(10 ** rng.uniform(-3, 0.5))))
        return out
    if name == "Planar":
        return [dict(dim=1, slope=None), dict(dim=2, slope=0.5), dict(dim=3, slope=None), dict(dim=5, slope=1.0), dict(dim=2, slope=float(rng.uniform(0.01, 0.99))),
                dict(dim=1, slope=2.0), dict(dim=3, slope=float(rng.uniform(1.01, 20.0)))]
    if name == "VmapMixture":
        return [dict(k=1), dict(k=2), dict(k=5), dict(k=int(rng.integers(2, 12)))]
    if name == "WeightNormalization":
        return [dict(r=1, c=1), dict(r=2, c=3), dict(r=4, c=2), dict(r=3, c=int(rng.integers(1, 6)))]
    if name == "Uniform":
        return [dict(lo=[0.0]), dict(lo=locs(3)), dict(lo=[-1e6, 1e6, 1e-6])]
    return [dict(loc=locs(1)), dict(loc=locs(3))]


def stkey(st):
    return ",".join(f"{k}={v}" for k, v in sorted(st.items()) if k not in ("loc", "lo"))


# ------------------------------------------------------------------ comparison of one (kind, static, raws, observation)
class Pending:
    """collects model requests of a unit; resolves them in one driver call"""

    def __init__(self, ctx, unit):
        self.ctx, self.unit, self.items, self.reqs = ctx, unit, [], []

    def add(self, kind, st, raws, obs, how, eps=EPS):
        rs = kind.reqs(st, raws)
        self.items.append((kind, st, raws, obs, how, rs, len(self.reqs), eps))
        self.reqs += [r[1] for r in rs]

    def resolve(self):
        out = self.ctx.model(self.reqs)
        for kind, st, raws, obs, how, rs, i0, eps in self.items:
            preds = {}
            bad = []
            for j, (field, req, parse, floor) in enumerate(rs):
                o = out[i0 + j]
                try:
                    p = parse(o).reshape(obs[field].shape)
                except Exception:
                    p = None
                preds[field] = p
                if p is None or not close(obs[field], p, floor):
                    bad.append((field, req, o))
            errs = kind.oracle(st, raws, obs, eps)
            report(self.ctx, self.unit, kind, st, raws, obs, how, bad, errs, preds)


def case_json(kind, st, raws, how):
    return dict(unit="raw-box", kind=kind.name, static=st, raws=jsonable(raws), how=how)


def search_around(ctx, kind, st, raws):
    """the property's own predicates on the implementation at inputs around a disagreeing case (box edges, perturbations)"""
    rng = np.random.default_rng(12345)
    obj0 = kind.build(st)
    for t in range(24):
        if t < 4:
            cand = {n: np.clip(v * [1.0, -1.0, 50.0, -50.0][t], -50, 50) for n, v in raws.items()}
        elif t < 8:
            cand = {n: np.full(v.shape, [-50.0, 50.0, -30.0, 0.0][t - 4]) for n, v in raws.items()}
        else:
            cand = {n: np.clip(v + rng.normal(0, 10 ** rng.uniform(-3, 1.5), size=v.shape), -50, 50) for n, v in raws.items()}
        if kind.skip(st, cand):
            continue
        try:
            obs = kind.observe(kind.with_raws(obj0, cand))
        except Exception:  # noqa: BLE001
            continue
        errs = kind.oracle(st, cand, obs, EPS)
        if errs:
            return cand, obs, errs
    return None


def report(ctx, unit, kind, st, raws, obs, how, bad, errs, preds=None, dtype="float64"):
    if not bad and not errs:
        return
    if bad and not errs and dtype == "float64":
        hit = search_around(ctx, kind, st, raws)
        if hit:
            raws, obs, errs = hit
            how = how + " + search around the disagreeing case"
            preds = None
    cj = case_json(kind, st, raws, how)
    cj["dtype"] = dtype
    if bad:
        unit.disagreements += 1
    if errs:
        what = f"{kind.name} [{stkey(st)}] after {how}: " + "; ".join(errs)
        sig = f"{kind.name}:oracle:{re.sub(r'[^a-zA-Z_.]+', '-', errs[0])[:60]}"
    else:
        f, req, o = bad[0]
        what = (f"{kind.name} [{stkey(st)}] after {how}: unwrapped field '{f}' differs from the model's reparameterisation of the same raw "
                f"values (request `{req[:160]}`)")
        sig = f"{kind.name}:{f}:model-mismatch"
    ctx.violation(
        sig=sig, what=what, case=cj, found_input=bool(errs), unit=unit.name,
        expected={k: (None if v is None else [fhex(x) for x in A(v).ravel()[:40]]) for k, v in (preds or {}).items()},
        observed={k: [fhex(x) for x in A(v).ravel()[:40]] for k, v in obs.items()},
        broken=f"correspondence {unit.name} / theorems of Props/C11.v about {kind.name}",
        reproducer="cd /verif && ./check C11 --replay <this file>",
    )


def note_once(ctx, msg):
    if msg not in ctx.notes:
        ctx.notes.append(msg)


# ------------------------------------------------------------------ U2: raw box
def unit_raw_box(ctx, K):
    u = ctx.unit("raw-box", "every raw trainable leaf overwritten with box values (|raw| <= 50: constant/grid/alternating +-50/uniform/"
                            "nextafter edges/normal) via eqx.tree_at; unwrap(obj) fields vs the model's reparameterisation (1e-9 rel) + "
                            "validity predicates; non-trivial = raw differs from the initial raw values")
    rng = ctx.rng
    P = Pending(ctx, u)
    reps = 2 if ctx.quick else 60
    skipped = {}
    for name, kind in K.items():
        for st in statics(rng, name, ctx.quick):
            obj0 = kind.build(st)
            raw0 = kind.raws(obj0)
            for mode in MODES:
                for _ in range(reps if mode in ("grid", "uniform", "normal", "edge") else 1):
                    raws = {n: (box_values(rng, v.shape, mode) + (v if mode == "normal" else 0.0)) for n, v in raw0.items()}
                    why = kind.skip(st, raws)
                    if why:
                        skipped[why] = skipped.get(why, 0) + 1
                        continue
                    obj = kind.with_raws(obj0, raws)
                    obs = kind.observe(obj)
                    P.add(kind, st, raws, obs, f"tree_at({mode})")
                    key = (name, stkey(st), [fhex(x) for v in raws.values() for x in v.ravel()])
                    u.count(key, nontrivial=any(not np.array_equal(raws[n], raw0[n]) for n in raw0), tag=f"{name}/{mode}")
                    if mode == "alt" and len(ctx.samples) < 6 and name in ("RationalQuadraticSpline", "Planar", "VmapMixture"):
                        ctx.sample(dict(kind=name, static=st, raws={n: v.ravel().tolist() for n, v in raws.items()},
                                        observed={n: v.ravel().tolist() for n, v in obs.items()}))
    P.resolve()
    for why, n in skipped.items():
        note_once(ctx, f"raw-box: skipped {n} case(s): {why}")


# ------------------------------------------------------------------ U1: constructor round trips
def mags(rng, n):
    return 10 ** rng.uniform(-6, 6, size=n) * rng.uniform(1, 10, size=n) / 10


def unit_ctor_roundtrip(ctx):
    s = S()
    jnp, B, D, W, eqx = s["jnp"], s["B"], s["D"], s["W"], s["eqx"]
    u = ctx.unit("ctor-roundtrip", "constructed objects reproduce their constructor arguments (scale, df, rate, bounds, diagonal, covariance, "
                                   "weights, interval ends; magnitudes 1e-6..1e6): stored raw value vs model `_init`, unwrapped field vs the "
                                   "model's round trip and vs the argument; non-trivial = argument differs from the default 1")
    rng = ctx.rng
    reps = 6 if ctx.quick else 300
    items, reqs = [], []

    def add(cls, args, checks):
        """checks: list of (label, observed, request, parser, floor, expected-argument or None)"""
        for label, obs, req, parse, floor, arg in checks:
            items.append((cls, args, label, A(obs), parse, floor, None if arg is None else A(arg), len(reqs), "rel"))
            reqs.append(req)
        u.count((cls, args), nontrivial=True, tag=cls)

    def rejected(what, e):
        ctx.violation(sig=f"ctor:{what.split(':')[0].split('(')[0].strip()}:rejects-valid", found_input=True, unit=u.name,
                      what=f"constructor raised {type(e).__name__} on valid arguments (magnitudes 1e-6..1e6) -- {what}: {str(e)[:200]}",
                      case=dict(unit="ctor-roundtrip", which=what), expected="accepted", observed=type(e).__name__,
                      broken="C11: a constructed object reproduces its constructor arguments", reproducer="cd /verif && ./check C11 --replay <this file>")

    pos_classes = [("Affine", lambda l, v: B.Affine(l, v), lambda o: o.scale.arr, lambda o: W.unwrap(o).scale),
                   ("Scale", lambda l, v: B.Scale(v), lambda o: o.scale.arr, lambda o: W.unwrap(o).scale)]
    for nm in ("Normal", "Cauchy", "Gumbel", "Laplace", "Logistic"):
        pos_classes.append((nm, (lambda c: lambda l, v: c(l, v))(getattr(D, nm)), lambda o: o.bijection.scale.arr, lambda o: o.scale))
    pos_classes.append(("LogNormal", lambda l, v: D.LogNormal(l, v), lambda o: o.bijection.bijections[0].scale.arr,
                        lambda o: W.unwrap(o).bijection.bijections[0].scale))
    for _ in range(reps):
        for cls, mk, raw, val in pos_classes:
            n = int(rng.integers(1, 4))
            v = mags(rng, n)
            loc = rng.normal(0, 3, size=n)
            h = hexlist(v)
            try:
                o = mk(jnp.asarray(loc), jnp.asarray(v))
                add(cls, h, [("raw", raw(o), f"pos.init {h}", flist, 1.0, None), ("scale", val(o), f"pos.rt {h}", flist, 0.0, v)])
            except (RuntimeError, ValueError, ZeroDivisionError) as e:
                rejected(f"{cls}: scale = {v.tolist()}", e)
        try:
            # StudentT: df and scale
            n = int(rng.integers(1, 4))
            df, sc = mags(rng, n), mags(rng, n)
            o = D.StudentT(jnp.asarray(df), jnp.zeros(n), jnp.asarray(sc))
            add("StudentT", hexlist(df) + "/" + hexlist(sc),
                [("df.raw", o.base_dist.df.arr, f"pos.init {hexlist(df)}", flist, 1.0, None), ("df", o.df, f"pos.rt {hexlist(df)}", flist, 0.0, df),
                 ("scale", o.scale, f"pos.rt {hexlist(sc)}", flist, 0.0, sc)])
        except (RuntimeError, ValueError, ZeroDivisionError) as e:
            rejected('StudentT: df and scale', e)
        try:
            # Exponential(rate)
            r = mags(rng, 1)
            o = D.Exponential(jnp.asarray(r[0]))
            add("Exponential", hexlist(r), [("raw", o.bijection.scale.arr, f"rate.init {fhex(r[0])}", lambda t: A(fparse(t)), 1.0, None)])
            items.append(("Exponential", hexlist(r), "rate", A(o.rate), None, 0.0, A(r[0]), None, "rel"))
        except (RuntimeError, ValueError, ZeroDivisionError) as e:
            rejected('Exponential(rate)', e)
        try:
            # Uniform(minval, maxval)
            lo = rng.normal(0, 1, size=2) * 10 ** rng.uniform(-3, 3)
            hi = lo + mags(rng, 2)
            hi = np.where(hi > lo, hi, np.nextafter(lo, np.inf))
            o = D.Uniform(jnp.asarray(lo), jnp.asarray(hi))
            fl = np.maximum(1.0, np.maximum(np.abs(lo), np.abs(hi)))
            add("Uniform", hexlist(lo) + "/" + hexlist(hi), [("maxval", o.maxval, f"uniform.maxval {hexlist(lo)} {hexlist(pos_init_np(hi - lo))}", flist, fl, hi)])
            items.append(("Uniform", hexlist(lo), "minval", A(o.minval), None, 0.0, A(lo), None, "exact"))
        except (RuntimeError, ValueError, ZeroDivisionError) as e:
            rejected('Uniform(minval, maxval)', e)
        try:
            # TriangularAffine(loc, arr, lower)
            n = int(rng.integers(1, 5))
            arr = rng.normal(0, 2, size=(n, n)) * 10 ** rng.uniform(-2, 2)
            arr[np.arange(n), np.arange(n)] = mags(rng, n)
            lower = bool(rng.integers(2))
            o = B.TriangularAffine(jnp.zeros(n), jnp.asarray(arr), lower=lower)
            exp = np.tril(arr) if lower else np.triu(arr)
            add("TriangularAffine", (hexmat(arr), lower),
                [("diag.raw", o.triangular.kwargs["diag"].arr, f"tri.init {hexmat(arr)}", flist, 1.0, None),
                 ("triangular", W.unwrap(o).triangular, f"tri.unwrap {int(lower)} {hexlist(pos_init_np(np.diag(arr)))} {hexmat(arr)}", fmat, 0.0, exp)])
        except (RuntimeError, ValueError, ZeroDivisionError) as e:
            rejected('TriangularAffine(loc, arr, lower)', e)
        try:
            # MultivariateNormal(loc, covariance): the model takes L = cholesky(cov) as given
            n = int(rng.integers(1, 5))
            Lm = np.tril(rng.normal(0, 1, size=(n, n)))
            Lm[np.arange(n), np.arange(n)] = 10 ** rng.uniform(-2, 2, size=n)
            Lm = Lm * 10 ** rng.uniform(-1, 1)
            cov = Lm @ Lm.T
            o = D.MultivariateNormal(jnp.zeros(n), jnp.asarray(cov))
            Lc = np.linalg.cholesky(cov)
            cm = float(np.max(np.abs(cov)))
            add("MultivariateNormal", hexmat(cov),
                [("covariance", o.covariance, f"tri.cov 1 {hexlist(pos_init_np(np.diag(Lc)))} {hexmat(Lc)}", fmat, max(1.0, cm), None)])
            items.append(("MultivariateNormal", hexmat(cov), "covariance", A(o.covariance), None, 0.0, cov, None, ("abs", 1e3 * n * EPS * cm)))
        except (RuntimeError, ValueError, ZeroDivisionError) as e:
            rejected('MultivariateNormal(loc, covariance): the model takes L = cholesky(cov) as given', e)
        try:
            # VmapMixture(dist, weights)
            k = int(rng.integers(1, 7))
            w = mags(rng, k) if rng.random() < 0.5 else rng.uniform(0.1, 2, size=k)
            o = D.VmapMixture(eqx.filter_vmap(D.Normal)(jnp.arange(float(k))), jnp.asarray(w))
            lw = A(W.unwrap(o).log_normalized_weights)
            add("VmapMixture", hexlist(w), [("raw", o.log_normalized_weights.args[0], f"mix.init {hexlist(w)}", flist, 1.0, None),
                                            ("logw", lw, f"mix.logw {hexlist(np.log(w))}", flist, 1.0, np.log(w / w.sum()))])
        except (RuntimeError, ValueError, ZeroDivisionError) as e:
            rejected('VmapMixture(dist, weights)', e)
        try:
            # RationalQuadraticSpline: interval ends, identity initialisation
            K_ = int(rng.integers(1, 12))
            lo_ = float(rng.normal(0, 3))
            hi_ = lo_ + float(10 ** rng.uniform(-2, 3))
            md, adj = float(10 ** rng.uniform(-5, -0.3)), float(rng.choice([0.0, 1e-2, 1.0, 10 ** rng.uniform(-3, 1)]))
            scalar = rng.random() < 0.4
            if scalar:
                hi_ = abs(hi_) + 0.1
                lo_ = -hi_
            o = B.RationalQuadraticSpline(knots=K_, interval=hi_ if scalar else (lo_, hi_), min_derivative=md, softmax_adjust=adj)
            uo = W.unwrap(o)
            z = hexlist(np.zeros(K_))
            add("RationalQuadraticSpline", (K_, lo_, hi_, md, adj),
                [("x_pos", uo.x_pos, f"knots {fhex(lo_)} {fhex(hi_)} {fhex(adj)} {z}", flist, max(1.0, abs(lo_), abs(hi_)), None),
                 ("derivatives.raw", o.derivatives.args[0], f"deriv.init {fhex(md)}", lambda t, K_=K_: np.full(K_ + 2, fparse(t)), 1.0, None),
                 ("derivatives", uo.derivatives, f"derivs {fhex(md)} {hexlist(A(o.derivatives.args[0]))}", flist, 0.0, np.ones(K_ + 2))])
            xp = A(uo.x_pos)
            items.append(("RationalQuadraticSpline", (K_, lo_, hi_), "ends", xp[[0, -1]], None, 0.0, A([lo_, hi_]), None, "exact"))
        except (RuntimeError, ValueError, ZeroDivisionError) as e:
            rejected('RationalQuadraticSpline: interval ends, identity initialisation', e)
        try:
            # _affine_with_min_scale(ms): initial scale 1
            ms = float(rng.choice([0.01, 10 ** rng.uniform(-5, -0.05)]))
            o = s["ams"](ms)
            add("_affine_with_min_scale", fhex(ms), [("raw", o.scale.arr, f"minscale.init {fhex(ms)}", lambda t: A(fparse(t)), 1.0, None),
                                                      ("scale", W.unwrap(o).scale, f"minscale.unwrap {fhex(ms)} {fhex(float(o.scale.arr))}", lambda t: flist(t).reshape(()), 0.0, 1.0)])
        except (RuntimeError, ValueError, ZeroDivisionError) as e:
            rejected('_affine_with_min_scale(ms): initial scale 1', e)
        try:
            # WeightNormalization(weight): scale parameter starts at 1/||row|| (as coded)
            r_, c_ = int(rng.integers(1, 5)), int(rng.integers(1, 5))
            wt = rng.normal(0, 1, size=(r_, c_)) * 10 ** rng.uniform(-3, 3)
            import warnings
            with warnings.catch_warnings():
                warnings.simplefilter("ignore")
                o = W.WeightNormalization(jnp.asarray(wt))
            add("WeightNormalization", hexmat(wt), [("scale.raw", A(o.scale.arr).ravel(), f"wn.init {hexmat(wt)}", flist, 1.0, None),
                                                    ("unwrap", W.unwrap(o), f"wn.unwrap {hexlist(A(o.scale.arr).ravel())} {hexmat(wt)}", fmat, 0.0, None)])
        except (RuntimeError, ValueError, ZeroDivisionError) as e:
            rejected('WeightNormalization(weight): scale parameter starts at 1/||row|| (as coded)', e)
    out = ctx.model(reqs)
    for cls, args, label, obs, parse, floor, arg, ri, mode in items:
        pred = None
        if ri is not None:
            try:
                pred = A(parse(out[ri])).reshape(obs.shape)
            except Exception:
                pred = None
            if pred is None or not close(obs, pred, floor):
                u.disagreements += 1
                ctx.violation(sig=f"ctor:{cls}:{label}:model-mismatch", found_input=False, unit=u.name,
                              what=f"{cls}(...): '{label}' of the constructed object differs from the model (request `{reqs[ri][:160]}`)",
                              case=dict(unit="ctor-roundtrip", cls=cls, args=str(args), label=label, request=reqs[ri]),
                              expected=out[ri], observed=[fhex(x) for x in obs.ravel()[:40]],
                              broken="correspondence ctor-roundtrip / C11_positive_reparam & co", reproducer="cd /verif && ./check C11 --replay <this file>")
        if arg is not None:  # the property's own clause: the object reproduces the argument (up to rounding)
            arg = np.broadcast_to(arg, obs.shape)
            ok = np.array_equal(obs, arg) if mode == "exact" else (bool(np.all(np.abs(obs - arg) <= mode[1])) if isinstance(mode, tuple) else close(obs, arg, floor))
            if not ok:
                ctx.violation(sig=f"ctor:{cls}:{label}:not-reproduced", found_input=True, unit=u.name,
                              what=f"{cls} constructed with {label} = {arg.ravel()[:6].tolist()} reports {obs.ravel()[:6].tolist()}",
                              case=dict(unit="ctor-roundtrip", cls=cls, args=str(args), label=label, arg=[fhex(x) for x in arg.ravel()]),
                              expected=[fhex(x) for x in arg.ravel()[:40]], observed=[fhex(x) for x in obs.ravel()[:40]],
                              broken="C11: a constructed object reproduces its constructor arguments", reproducer="cd /verif && ./check C11 --replay <this file>")


def pos_init_np(y):
    """SoftPlus.inverse as coded, in numpy (only used to hand raw values to the model's unwrap requests)"""
    y = A(y)
    return np.log(-np.expm1(-y)) + y


# ------------------------------------------------------------------ U3: constructor accepts / raises
def raises(f):
    try:
        f()
        return False, "ok"
    except (RuntimeError, ValueError, ZeroDivisionError) as e:
        return True, type(e).__name__


def unit_ctor_rejects(ctx):
    s = S()
    jnp, B, D, W, eqx, jr = s["jnp"], s["B"], s["D"], s["W"], s["eqx"], s["jr"]
    u = ctx.unit("ctor-rejects", "constructor (or first use, where the check is lazy: spline softmax_adjust, planar slope) accepts/raises vs the "
                                 "model's `*_rejects` on arguments at the edge of validity (0, -0.0, +-smallest normal, +-1e-300, nan, +-inf, equal "
                                 "bounds, nextafter neighbours, repeated/out-of-range permutation entries); exact; non-trivial = argument within "
                                 "1e-300 of the boundary, special value, or invalid permutation")
    rng = ctx.rng
    nan, inf = float("nan"), float("inf")
    POSV = [0.0, -0.0, -TINY, TINY, -1e-300, 1e-300, -1.0, 1.0, -1e-6, 1e-6, 1e6, -1e6, nan, inf, -inf]
    if not ctx.quick:
        POSV += [float(x) for x in rng.normal(0, 1, size=20)] + [float(np.nextafter(TINY, 1)), float(-np.nextafter(TINY, 1)), 1e300, -1e300]
    items, reqs = [], []

    def add(name, arg, fn, req, doc, edge):
        r, ty = raises(fn)
        items.append((name, arg, r, ty, doc, edge))
        reqs.append(req)

    def edge(v):
        return (not math.isfinite(v)) or abs(v) <= 1e-300

    def docpos(vs):
        vs = A(vs)
        return None if not np.all(np.isfinite(vs)) else bool(np.any(vs <= 0))

    one = {"Affine": lambda v: B.Affine(jnp.zeros(v.shape), v), "Scale": lambda v: B.Scale(v), "LogNormal": lambda v: D.LogNormal(jnp.zeros(v.shape), v),
           "StudentT.scale": lambda v: D.StudentT(3.0, jnp.zeros(v.shape), v)}
    for nm in ("Normal", "Cauchy", "Gumbel", "Laplace", "Logistic"):
        one[nm] = (lambda c: lambda v: c(jnp.zeros(v.shape), v))(getattr(D, nm))
    # every entry invalid at once (e.g. log-probabilities passed as weights): a sign that cancels in a ratio (seeded change C11f)
    for vec in ([-1.0, -3.0, -0.5], [-0.2, -0.3, -0.5], [-1e-6, -1e-6, -1e-6], [-2.0, -2.0, -2.0]):
        arr = jnp.asarray(A(vec))
        add("VmapMixture.weights", vec, lambda arr=arr: D.VmapMixture(eqx.filter_vmap(D.Normal)(jnp.zeros(3)), arr), f"rej.mix {hexlist(vec)}", docpos(vec), False)
        add("Normal", vec, lambda arr=arr: D.Normal(jnp.zeros(3), arr), f"rej.pos {hexlist(vec)}", docpos(vec), False)
        add("StudentT.df", vec, lambda arr=arr: D.StudentT(arr), f"rej.df {hexlist(vec)}", docpos(vec), False)
    add("VmapMixture.weights", [-1.0], lambda: D.VmapMixture(eqx.filter_vmap(D.Normal)(jnp.zeros(1)), jnp.asarray([-1.0])), f"rej.mix {hexlist([-1.0])}", True, False)
    for v in POSV:
        for vec in ([v], [1.0, v, 2.0]):
            h = hexlist(vec)
            arr = jnp.asarray(A(vec))
            for nm, mk in one.items():
                if len(vec) == 3 and nm not in ("Affine", "Normal") and ctx.quick:
                    continue
                add(nm, vec, lambda mk=mk, arr=arr: mk(arr), f"rej.pos {h}", docpos(vec), edge(v))
            add("StudentT.df", vec, lambda arr=arr: D.StudentT(arr), f"rej.df {h}", docpos(vec), edge(v))
            if len(vec) == 3:
                add("VmapMixture.weights", vec, lambda arr=arr: D.VmapMixture(eqx.filter_vmap(D.Normal)(jnp.zeros(3)), arr), f"rej.mix {h}", docpos(vec), edge(v))
                m = np.array([[1.0, 0.3, 0.0], [0.5, v, 0.1], [0.2, -0.4, 2.0]])
                for lower in (True, False):
                    add("TriangularAffine.diag", m.tolist(), lambda m=m, lower=lower: B.TriangularAffine(jnp.zeros(3), jnp.asarray(m), lower=lower),
                        f"rej.tri {hexmat(m)}", docpos(np.diag(m)), edge(v))
        inv = 1.0 / v if v != 0 else math.copysign(inf, v)
        add("Exponential.rate", v, lambda v=v: D.Exponential(jnp.asarray(v)), f"rej.rate {fhex(v)}",
            (v < 0) if (math.isfinite(v) and v != 0 and math.isfinite(inv)) else None, edge(v))
    # Uniform(minval, maxval)
    pairs = [(1.0, 1.0), (1.0, float(np.nextafter(1.0, 2))), (1.0, float(np.nextafter(1.0, 0))), (0.0, -0.0), (-0.0, 0.0), (0.0, TINY), (0.0, -TINY),
             (-1.0, 1.0), (2.0, 1.0), (1e16, 1e16 + 2), (1e16, 1e16), (-1e300, 1e300), (-inf, 0.0), (0.0, inf), (nan, 1.0), (1.0, nan), (-1e-3, -1e-3), (3.0, 3.0 + 1e-9),
             (0.0, -inf), (inf, 0.0), (inf, inf), (-inf, -inf), (-inf, inf), (1e300, -1e300)]
    for _ in range(0 if ctx.quick else 40):
        a = float(rng.normal(0, 1) * 10 ** rng.uniform(-3, 3))
        pairs.append((a, float(rng.choice([a, np.nextafter(a, inf), np.nextafter(a, -inf), a + abs(a) * 1e-12]))))
    for lo, hi in pairs:
        doc = None if not (math.isfinite(lo) and math.isfinite(hi)) else (hi <= lo)
        add("Uniform", (lo, hi), lambda lo=lo, hi=hi: D.Uniform(jnp.asarray(lo), jnp.asarray(hi)), f"rej.uniform {fhex(lo)} {fhex(hi)}", doc,
            (lo == hi) or not (math.isfinite(lo) and math.isfinite(hi)) or abs(hi - lo) <= 4 * EPS * max(abs(lo), abs(hi)))
    # _affine_with_min_scale(ms)
    for ms in [0.01, 0.5, float(np.nextafter(1.0, 0)), 1.0, float(np.nextafter(1.0, 2)), 2.0, 0.0, -1.0, nan, inf, -inf]:
        add("_affine_with_min_scale", ms, lambda ms=ms: s["ams"](ms), f"rej.minscale {fhex(ms)}", None, not math.isfinite(ms) or abs(ms - 1) < 1e-9)
    # Planar(negative_slope): raised by _UnconditionalPlanar.__init__, i.e. at first use
    for sl in [0.0, -0.0, -TINY, TINY, -0.1, 0.1, 1.0, 2.0, -1e-300, 1e-300, nan, inf, -inf]:
        add("Planar.negative_slope", sl, lambda sl=sl: B.Planar(jr.PRNGKey(1), dim=2, negative_slope=sl).transform(jnp.ones(2)),
            f"rej.planar {fhex(sl)}", None if math.isnan(sl) else (sl <= 0), edge(sl))
    # RationalQuadraticSpline(softmax_adjust): raised when the Lambda is first unwrapped
    for adj in [0.0, -0.0, -TINY, TINY, -1e-300, 1e-300, -1e-2, 1e-2, -1.0, 1.0, 100.0, nan, inf, -inf]:
        add("RationalQuadraticSpline.softmax_adjust", adj,
            lambda adj=adj: W.unwrap(B.RationalQuadraticSpline(knots=3, interval=2, softmax_adjust=adj)).x_pos,
            f"rej.knots {fhex(adj)}", None if math.isnan(adj) else (adj < 0), edge(adj))
    # Permute(permutation)
    perms = [[], [0], [1], [-1], [0, 1], [1, 0], [0, 0], [1, 1], [0, 2], [0, 1, 1], [0, 2, 1], [2, 0, 1], [1, 2, 3], [-1, 0, 1], [0, 1, 3], [3, 2, 1, 0], [0, 1, 2, 2], [2, 2, 2],
             [0, 1, 1, 3], [0, 2, 2, 3], [3, 1, 1, 0], [0, 0, 2], [0, 2, 2], [2, 0, 0], [0, 1, 3, 3, 4], [4, 2, 2, 0, 1], [0, 5, 1], [1, 1, 0, 3]]
    for _ in range(40 if ctx.quick else 400):
        n = int(rng.integers(2, 9))
        p = rng.permutation(n)
        if rng.random() < 0.7:
            j = int(rng.integers(n))
            p[j] = rng.choice([p[(j + 1) % n], p[(j + 1) % n], p[(j + 2) % n], n, -1, p[j]])  # mostly: one repeated entry
        perms.append([int(x) for x in p])
    for p in perms:
        arr = np.asarray(p, dtype=np.int64)
        doc = sorted(p) != list(range(len(p)))
        add("Permute", p, lambda arr=arr: B.Permute(jnp.asarray(arr)), "rej.perm " + (",".join(map(str, p)) or "-"), doc, doc)
        if len(p) == 4:
            add("Permute(2x2)", p, lambda arr=arr: B.Permute(jnp.asarray(arr.reshape(2, 2))), "rej.perm " + ",".join(map(str, p)), doc, doc)
    out = ctx.model(reqs)
    for (name, arg, r, ty, doc, edg), req, mo in zip(items, reqs, out):
        u.count((name, str(arg)), nontrivial=bool(edg), tag=f"{name}/{'raises' if r else 'accepts'}")
        model_rej = mo == "1"
        if mo not in ("0", "1") or model_rej != r or (doc is not None and doc != r):
            found = doc is not None and doc != r
            u.disagreements += model_rej != r
            kindw = "accepts an invalid argument" if (found and not r) else ("rejects a valid argument" if found else "model-mismatch")
            ctx.violation(sig=f"ctor:{name}:{kindw.replace(' ', '-')}", found_input=found, unit=u.name,
                          what=f"{name}({arg}): implementation {'raises ' + ty if r else 'accepts'}, model ctor_rejects = {mo}, documented constraint says "
                               f"{'n/a' if doc is None else ('reject' if doc else 'accept')}",
                          case=dict(unit="ctor-rejects", name=name, arg=[fhex(x) for x in np.ravel(A(arg))] if name != "Permute" and not name.startswith("Permute") else arg, request=req),
                          expected=mo, observed=ty, broken="correspondence ctor-rejects / C11_ctor_rejects, C11_perm_rejects_spec",
                          reproducer="cd /verif && ./check C11 --replay <this file>")
    note_once(ctx, "ctor-rejects: denormal arguments are excluded (XLA flushes them to zero and rejects them; the OCaml model does not flush); "
                   "Exponential is called with jnp arrays (a Python float 0 raises ZeroDivisionError before flowjax sees it)")


# ------------------------------------------------------------------ hypotheses forced by the proofs, replayed on the code
def candidate(ctx, sig, text, case):
    """A measure-zero / out-of-contract input on which the property's clause fails on the real code.  Reported as
    KNOWN-FINDING when known_findings.json lists it, otherwise recorded in the notes; never fails the check."""
    for k in ctx.known:
        if k.get("status") == "known" and k["property"] == ctx.prop and re.fullmatch(k["match"], sig):
            ctx.violation(sig=sig, what=text, case=case, found_input=True, unit="hypothesis-replay")
            return
    note_once(ctx, f"CANDIDATE-FINDING (not failing the check) [{sig}]: {text}")


def unit_hypotheses(ctx):
    s = S()
    jnp, B, D, W, eqx, UP = s["jnp"], s["B"], s["D"], s["W"], s["eqx"], s["UP"]
    u = ctx.unit("hypothesis-replay", "each hypothesis a theorem of Props/C11.v needs (w <> 0, row <> 0, lo < hi, raw <> [], md < 1, "
                                      "rate <> 0, positive-definite covariance, softmax_adjust > 0 in floats) replayed at its boundary on the real "
                                      "code; the model is compared where it is defined; outcomes go to the notes")
    # 1. Planar weight == 0
    w, uu = [0.0, 0.0], [0.3, -0.2]
    p = UP(jnp.asarray(w), jnp.asarray(uu), jnp.asarray(0.1), 0.5)
    y = A(p.transform(jnp.ones(2)))
    m = ctx.model([f"planar {fhex(0.5)} {hexlist(w)} {hexlist(uu)}"])[0]
    u.count("planar-w0", tag="planar w=0")
    if np.any(np.isnan(y)):
        candidate(ctx, "Planar:weight==0:nan", f"_UnconditionalPlanar(weight=[0,0], act_scale=[0.3,-0.2], bias=0.1, negative_slope=0.5).transform([1,1]) = {y.tolist()} "
                       f"(0/||w||^2; the float model gives u_hat = {m.split(' ')[0]}); theorem C11_planar_invertible carries w <> 0",
                  dict(unit="hypothesis-replay", which="planar-w0"))
    else:
        note_once(ctx, f"hypothesis-replay: Planar weight == 0 now gives finite output {y.tolist()}")
    # 2. WeightNormalization with an all-zero row
    import warnings
    with warnings.catch_warnings():
        warnings.simplefilter("ignore")
        wn = W.WeightNormalization(jnp.asarray([[1.0, 2.0], [3.0, 4.0]]))
    wn = eqx.tree_at(lambda t: t.weight, wn, jnp.asarray([[0.0, 0.0], [3.0, 4.0]]))
    uw = A(W.unwrap(wn))
    u.count("wn-zero-row", tag="weightnorm zero row")
    if np.any(np.isnan(uw[0])):
        candidate(ctx, "WeightNormalization:zero-row:nan", f"WeightNormalization whose weight is set to [[0,0],[3,4]] unwraps to {uw.tolist()} (0/0 in the zero row); "
                       "theorem C11_weightnorm_row_norm carries row <> 0", dict(unit="hypothesis-replay", which="wn-zero-row"))
    else:
        note_once(ctx, f"hypothesis-replay: WeightNormalization zero row now unwraps to {uw.tolist()}")
    # 3. Planar negative_slope > 1: the witness of C11_planar_slope_gt1_old_refuted (formula before fix e65a946) on the current code
    p = UP(jnp.asarray([1.0]), jnp.asarray([-5.0]), jnp.asarray(0.0), 2.0)
    mo = ctx.model([f"planar.denom.old {fhex(2.0)} {hexlist([1.0])} {hexlist([-5.0])}", f"planar.denom {fhex(2.0)} {fhex(2.0)} {hexlist([1.0])} {hexlist([-5.0])}"])
    den_old, den_model = fparse(mo[0]), fparse(mo[1])
    x1 = jnp.asarray([-1.0])
    y1, ld = p.transform_and_log_det(x1)
    back = A(p.inverse(y1))
    den_impl = math.exp(float(ld))  # |1 + u_hat . psi| with psi = slope * w on the negative side
    u.count("planar-slope-2", tag="planar slope>1")
    if not close(den_impl, abs(den_model), 1.0):
        u.disagreements += 1
        ctx.violation(sig="Planar:slope>1:model-mismatch", found_input=not np.allclose(back, A(x1), rtol=1e-9, atol=1e-9), unit=u.name,
                      what=f"_UnconditionalPlanar(weight=[1], act_scale=[-5], bias=0, negative_slope=2): |1 + slope*w.u_hat| = {den_impl} vs model {den_model} "
                           f"(formula before fix e65a946: {den_old}); transform([-1]) = {A(y1).tolist()}, inverse(transform([-1])) = {back.tolist()}",
                      case=dict(unit="hypothesis-replay", which="planar-slope-2"), expected=den_model, observed=den_impl,
                      broken="correspondence hypothesis-replay / C11_planar_invertible")
    else:
        note_once(ctx, f"hypothesis-replay: Planar negative_slope = 2, weight=[1], act_scale=[-5]: 1 + slope*w.u_hat = {den_model:.6g} > 0 on the current code "
                       f"(the formula before fix e65a946 gives {den_old:.6g} < 0, C11_planar_slope_gt1_old_refuted); inverse(transform([-1])) = {back.tolist()}")
    # 4..9: observations (out-of-contract arguments that are silently accepted; float-only effects)
    def obs(tag, f):
        u.count(tag, tag=tag)
        try:
            return f()
        except Exception as e:  # noqa: BLE001
            return f"raises {type(e).__name__}"

    r = obs("spline-reversed", lambda: A(W.unwrap(B.RationalQuadraticSpline(knots=3, interval=(2, 1))).x_pos).tolist())
    note_once(ctx, f"hypothesis-replay: lo < hi (spline) is not checked by the constructor: RationalQuadraticSpline(knots=3, interval=(2,1)).x_pos = {r}; "
                   f"interval=(1,1) -> {obs('spline-empty', lambda: A(W.unwrap(B.RationalQuadraticSpline(knots=3, interval=(1, 1))).x_pos).tolist())}")
    note_once(ctx, f"hypothesis-replay: raw <> [] (spline): RationalQuadraticSpline(knots=0, interval=1) unwrap -> {obs('spline-k0', lambda: A(W.unwrap(B.RationalQuadraticSpline(knots=0, interval=1)).x_pos).tolist())}")
    note_once(ctx, f"hypothesis-replay: md < 1 (spline): min_derivative=1 -> derivatives {obs('md1', lambda: A(W.unwrap(B.RationalQuadraticSpline(knots=1, interval=1, min_derivative=1.0)).derivatives).tolist())}; "
                   f"min_derivative=2 (accepted) -> {obs('md2', lambda: A(W.unwrap(B.RationalQuadraticSpline(knots=1, interval=1, min_derivative=2.0)).derivatives).tolist())}")
    note_once(ctx, f"hypothesis-replay: rate <> 0 (Exponential): Exponential(jnp.array(0.0)) -> rate {obs('rate0', lambda: float(D.Exponential(jnp.asarray(0.0)).rate))} "
                   f"(accepted, scale = inf); Exponential(jnp.array(-0.0)) -> rate {obs('rate-0', lambda: float(D.Exponential(jnp.asarray(-0.0)).rate))}")
    note_once(ctx, f"hypothesis-replay: positive-definite covariance (MVN): MultivariateNormal(0, [[1,2],[2,1]]).covariance -> "
                   f"{obs('mvn-nonpd', lambda: A(D.MultivariateNormal(jnp.zeros(2), jnp.asarray([[1.0, 2.0], [2.0, 1.0]])).covariance).tolist())} (accepted; cholesky gives NaN)")
    sp = B.RationalQuadraticSpline(knots=3, interval=(-5.0, 0.5), softmax_adjust=0.0)
    sp = eqx.tree_at(lambda t: t.x_pos.args[0], sp, jnp.asarray([47.0, -39.0, -0.8]))
    r = obs("adj0-collapse", lambda: A(W.unwrap(sp).x_pos).tolist())
    note_once(ctx, f"hypothesis-replay (floats, partial): softmax_adjust = 0 with raw x = [47,-39,-0.8], interval (-5,0.5): x_pos = {r} "
                   "(interior knots coincide in float64; strictly increasing over R)")


# ------------------------------------------------------------------ U2 (continued): after real optimiser steps
def unit_trained(ctx, K):
    s = S()
    jnp, B, D, W, eqx, jax, jr = s["jnp"], s["B"], s["D"], s["W"], s["eqx"], s["jax"], s["jr"]
    import optax
    from flowjax.train import fit_to_data

    u = ctx.unit("raw-box-trained", "as raw-box, but the raw leaves are moved by real optimiser updates: optax adam/sgd steps on the eqx.partition'ed "
                                    "parameters through a loss of the unwrapped object, and flowjax.train.fit_to_data with a large learning rate; "
                                    "non-trivial = every raw leaf moved")
    rng = ctx.rng
    P = Pending(ctx, u)

    def loss(params, static):
        obj = W.unwrap(eqx.combine(params, static))
        leaves = [l for l in jax.tree_util.tree_leaves(obj) if eqx.is_inexact_array(l)]
        return sum(jnp.sum(jnp.sin(1.3 * l + 0.2)) for l in leaves)

    for name, kind in K.items():
        sts = statics(rng, name, ctx.quick)
        for st in (sts[:2] if ctx.quick else sts):
            obj = kind.build(st)
            raw0 = kind.raws(obj)
            obj = kind.with_raws(obj, {n: v + rng.normal(0, 1.5, size=v.shape) for n, v in raw0.items()})
            raw1 = kind.raws(obj)
            opt = optax.adam(2.0) if rng.random() < 0.5 else optax.sgd(4.0)
            params, static = eqx.partition(obj, eqx.is_inexact_array, is_leaf=lambda l: isinstance(l, W.NonTrainable))
            state = opt.init(params)
            g = eqx.filter_jit(eqx.filter_grad(loss))
            for _ in range(int(rng.integers(2, 5))):
                updates, state = opt.update(g(params, static), state, params)
                params = eqx.apply_updates(params, updates)
            obj = eqx.combine(params, static)
            raws = kind.raws(obj)
            if kind.skip(st, raws) or not all(np.all(np.isfinite(v)) for v in raws.values()):
                continue
            P.add(kind, st, raws, kind.observe(obj), "optax steps")
            u.count((name, stkey(st), [fhex(x) for v in raws.values() for x in v.ravel()]),
                    nontrivial=all(not np.array_equal(raws[n], raw1[n]) for n in raws), tag=f"{name}/optax")
    # fit_to_data on three real models
    def fit(dist, x, lr):
        d, _ = fit_to_data(jr.PRNGKey(int(rng.integers(1 << 30))), dist, jnp.asarray(x), max_epochs=2 if ctx.quick else 6, batch_size=64,
                           learning_rate=lr, show_progress=False, return_best=False)
        return d

    n = 256
    x3 = rng.normal(0, 1, size=(n, 3)) * np.array([0.01, 1.0, 30.0]) + np.array([5.0, 0.0, -3.0])
    jobs = [("Normal.scale", dict(loc=[0.0, 0.0, 0.0]), lambda: D.Normal(jnp.zeros(3), jnp.ones(3)), x3, lambda d: d),
            ("RationalQuadraticSpline", dict(K=5, lo=-3.0, hi=3.0, md=1e-3, adj=1e-2, scalar=True),
             lambda: D.Transformed(D.StandardNormal(()), B.RationalQuadraticSpline(knots=5, interval=3.0)), rng.standard_t(3, size=n) * 0.7, lambda d: d.bijection),
            ("VmapMixture", dict(k=4), lambda: K["VmapMixture"].build(dict(k=4)), np.concatenate([rng.normal(0, 0.3, n // 2), rng.normal(3, 0.2, n // 2)]), lambda d: d)]
    if not ctx.quick:
        jobs += [("StudentT.df", dict(loc=[0.0, 0.0]), lambda: D.StudentT(3.0 * jnp.ones(2), jnp.zeros(2), jnp.ones(2)), rng.standard_t(2, size=(n, 2)) * 5, lambda d: d),
                 ("MultivariateNormal", dict(n=3), lambda: D.MultivariateNormal(jnp.zeros(3), jnp.eye(3)), x3, lambda d: d),
                 ("Exponential.rate", dict(loc=[0.0]), lambda: D.Exponential(jnp.ones(1)), rng.exponential(0.05, size=(n, 1)), lambda d: d)]
    for name, st, mk, x, sub in jobs:
        for lr in ([0.3] if ctx.quick else [0.05, 0.3, 1.0]):
            d0 = mk()
            d = fit(d0, x, lr)
            kind = K[name]
            raws, raw0 = kind.raws(sub(d)), kind.raws(sub(d0))
            if not all(np.all(np.isfinite(v)) for v in raws.values()):
                note_once(ctx, f"raw-box-trained: fit_to_data({name}, lr={lr}) diverged to non-finite raw values; case dropped")
                continue
            P.add(kind, st, raws, kind.observe(sub(d)), f"fit_to_data(lr={lr})")
            u.count((name, "fit", [fhex(x_) for v in raws.values() for x_ in v.ravel()]),
                    nontrivial=all(not np.array_equal(raws[n_], raw0[n_]) for n_ in raws), tag=f"{name}/fit_to_data")
    P.resolve()


# ------------------------------------------------------------------ float32 oracle on the box
def unit_float32(ctx, K):
    u = ctx.unit("raw-box-float32", "search oracle only: raw leaves overwritten with float32 box values, unwrap in float32, validity predicates with "
                                    "float32 rounding noise; non-trivial = raw differs from the initial values")
    rng = ctx.rng
    eps32 = float(np.finfo(np.float32).eps)
    for name, kind in K.items():
        if name in ("MultivariateNormal",):
            continue
        sts = statics(rng, name, ctx.quick)
        for st in (sts[:3] if ctx.quick else sts):
            obj0 = kind.build(st)
            raw0 = kind.raws(obj0)
            for mode in (["alt", "uniform", "edge"] if ctx.quick else MODES * 10):
                raws = {n: box_values(rng, v.shape, mode).astype(np.float32).astype(np.float64) for n, v in raw0.items()}
                if kind.skip(st, raws):
                    continue
                obj = kind.with_raws(obj0, raws, dtype=np.float32)
                obs = kind.observe(obj)
                u.count((name, stkey(st), [fhex(x) for v in raws.values() for x in v.ravel()]), nontrivial=True, tag=f"{name}/{mode}")
                st32 = dict(st)
                errs = kind.oracle(st32, raws, obs, eps32)
                report(ctx, u, kind, st, raws, obs, f"tree_at({mode}) float32", [], errs, dtype="float32")


# ------------------------------------------------------------------ WeightNormalization as used by the flows
def unit_wn_in_flows(ctx):
    s = S()
    jnp, W, eqx, jax, jr, D = s["jnp"], s["W"], s["eqx"], s["jax"], s["jr"], s["D"]
    import warnings
    from flowjax.flows import block_neural_autoregressive_flow, triangular_spline_flow

    u = ctx.unit("weightnorm-in-flows", "block_neural_autoregressive_flow / triangular_spline_flow: every trainable leaf overwritten with box values; "
                                        "every WeightNormalization node (vmapped over layers, weight wrapped in Where/softplus): row norms == unwrapped "
                                        "scale (oracle) and unwrap == model wn.unwrap of the unwrapped inner weight; every vmapped RationalQuadraticSpline node: knots/"
                                        "derivatives vs the model + validity predicates; non-trivial = all")
    rng = ctx.rng
    with warnings.catch_warnings():
        warnings.simplefilter("ignore")
        flows = [("BNAF", block_neural_autoregressive_flow(jr.PRNGKey(0), base_dist=D.Normal(jnp.zeros(3)), flow_layers=2, nn_depth=1, nn_block_dim=2)),
                 ("triangular_spline_flow", triangular_spline_flow(jr.PRNGKey(1), base_dist=D.Normal(jnp.zeros(3)), flow_layers=2, knots=4))]
    items, reqs = [], []
    KS, PS = SplineKind(), Pending(ctx, u)
    isw = lambda l: isinstance(l, W.WeightNormalization)  # noqa: E731
    for fname, f in flows:
        params, static = eqx.partition(f, eqx.is_inexact_array, is_leaf=lambda l: isinstance(l, W.NonTrainable))
        for mode in (["const", "alt", "uniform", "normal"] if ctx.quick else MODES * 5):
            p2 = jax.tree_util.tree_map(lambda l: jnp.asarray(box_values(rng, l.shape, mode)), params)
            g = eqx.combine(p2, static)
            for ni, n in enumerate(x for x in jax.tree_util.tree_leaves(g, is_leaf=isw) if isw(x)):
                w, sc, inner, raw = A(W.unwrap(n)), A(W.unwrap(n.scale)), A(W.unwrap(n.weight)), A(n.scale.arr)
                for b in range(w.shape[0]):
                    if np.any(~np.any(inner[b] != 0, axis=1)):
                        note_once(ctx, f"weightnorm-in-flows: skipped a case with an all-zero inner row ({fname}, mode {mode})")
                        continue
                    u.count((fname, mode, ni, b, [fhex(x) for x in raw[b].ravel()]), nontrivial=True, tag=f"{fname}/{mode}")
                    nr = np.sqrt(np.sum(w[b] * w[b], axis=1))
                    ok = np.all(np.isfinite(w[b])) and np.all(sc[b] > 0) and np.all(np.abs(nr - sc[b].ravel()) <= 1e3 * EPS * w.shape[-1] * sc[b].ravel())
                    items.append((fname, mode, ni, b, w[b], bool(ok), raw[b], inner[b]))
                    reqs.append(f"wn.unwrap {hexlist(raw[b].ravel())} {hexmat(inner[b])}")
            # the vmapped splines of the same flows
            issp = lambda l: isinstance(l, s["B"].RationalQuadraticSpline)  # noqa: E731
            for n in (x for x in jax.tree_util.tree_leaves(g, is_leaf=issp) if issp(x)):
                un = W.unwrap(n)
                rx, ry, rd = A(n.x_pos.args[0]), A(n.y_pos.args[0]), A(n.derivatives.args[0])
                ox, oy, od = A(un.x_pos), A(un.y_pos), A(un.derivatives)
                st = dict(K=int(n.knots), lo=float(n.interval[0]), hi=float(n.interval[1]), md=float(n.min_derivative), adj=float(n.softmax_adjust))
                for idx in np.ndindex(rx.shape[:-1]):
                    raws = dict(x=rx[idx], y=ry[idx], d=rd[idx])
                    PS.add(KS, st, raws, dict(x_pos=ox[idx], y_pos=oy[idx], derivatives=od[idx]), f"{fname}: all trainable leaves overwritten ({mode}), vmapped spline {idx}")
                    u.count((fname, mode, "spline", idx, [fhex(x) for x in rx[idx]]), nontrivial=True, tag=f"{fname}/spline/{mode}")
    PS.resolve()
    out = ctx.model(reqs)
    for (fname, mode, ni, b, wb, ok, raw, inner), req, o in zip(items, reqs, out):
        agree = close(wb, fmat(o), 0.0)
        if not ok or not agree:
            u.disagreements += not agree
            ctx.violation(sig=f"WeightNormalization-in-{fname}:{'oracle:row-norm' if not ok else 'model-mismatch'}", found_input=not ok, unit=u.name,
                          what=f"{fname}: WeightNormalization node {ni} (layer {b}) after overwriting the trainable leaves ({mode}): "
                               + ("row norm != norm parameter / non-finite" if not ok else "unwrap differs from the model"),
                          case=dict(unit="weightnorm-in-flows", flow=fname, node=ni, layer=b, raw_scale=[fhex(x) for x in raw.ravel()], inner=hexmat(inner), request=req),
                          expected=o[:2000], observed=hexmat(wb), broken="correspondence weightnorm-in-flows / C11_weightnorm_row_norm",
                          reproducer="cd /verif && ./check C11 --replay <this file>")


def fingerprints(ctx):
    """hash of the source text of every anchored function (DESIGN 1.4): recorded, never an alarm"""
    import hashlib
    import inspect

    s = S()
    B, D, W = s["B"], s["D"], s["W"]
    from flowjax.bijections import rational_quadratic_spline as rqs

    objs = {"SoftPlus": B.SoftPlus, "Affine.__init__": B.Affine.__init__, "Scale.__init__": B.Scale.__init__,
            "TriangularAffine.__init__": B.TriangularAffine.__init__, "_real_to_increasing_on_interval": rqs._real_to_increasing_on_interval,
            "RationalQuadraticSpline.__init__": B.RationalQuadraticSpline.__init__, "_UnconditionalPlanar.get_act_scale": s["UP"].get_act_scale,
            "_UnconditionalPlanar.__init__": s["UP"].__init__, "Permute.__init__": B.Permute.__init__, "BijectionReparam": W.BijectionReparam,
            "_apply_inverse_and_check_valid": W._apply_inverse_and_check_valid, "WeightNormalization": W.WeightNormalization,
            "VmapMixture.__init__": D.VmapMixture.__init__, "_StandardStudentT.__init__": D._StandardStudentT.__init__,
            "Uniform.__init__": D.Uniform.__init__, "Exponential": D.Exponential, "MultivariateNormal": D.MultivariateNormal,
            "_affine_with_min_scale": s["ams"]}
    fp = {}
    for k, o in objs.items():
        try:
            fp[k] = hashlib.sha1(inspect.getsource(o).encode()).hexdigest()[:10]
        except Exception:  # noqa: BLE001
            fp[k] = "unavailable"
    ctx.notes.append("source fingerprints of the anchored functions: " + ", ".join(f"{k}={v}" for k, v in fp.items()))


def unit_ctor_rejects_traced(ctx):
    """The documented rejections must also happen when the object is constructed INSIDE a jit-compiled function from traced
    arguments (a likelihood or training step that builds Normal(loc, scale)): an `eqx.error_if` whose result is not used is
    silently dropped by XLA (seeded change C11c).  Oracle only: invalid => some error; valid => the eager value."""
    import equinox as eqx
    import jax
    import jax.numpy as jnp
    from flowjax.bijections import Affine, Scale, TriangularAffine
    from flowjax.distributions import Exponential, Normal, StudentT
    from flowjax.wrappers import unwrap

    u = ctx.unit("ctor-rejects-traced", "constructors with a softplus-constrained argument built inside eqx.filter_jit / jax.jit from a traced value at and "
                                        "beyond the edge of validity (0, -tiny, -1) and at valid values (1e-6..1e6): raises iff invalid; valid values reproduced")
    tri = lambda a: jnp.diag(unwrap(TriangularAffine(jnp.zeros(2), jnp.array([[1.0, 0.0], [0.5, 1.0]]).at[1, 1].set(a)).triangular))[1]  # noqa: E731
    builders = {
        "Normal(0, s).scale": lambda s: Normal(0.0, s).scale,
        "Affine(0, s).scale": lambda s: unwrap(Affine(0.0, s).scale),
        "Scale(s).scale": lambda s: unwrap(Scale(s).scale),
        "StudentT(df=s).df": lambda s: StudentT(s).df,
        "TriangularAffine diag": tri,
        "Normal(0, s).log_prob(0.3)": lambda s: Normal(0.0, s).log_prob(0.3),
    }
    modes = {"eqx.filter_jit": eqx.filter_jit, "jax.jit": jax.jit}
    rng = ctx.rng
    for bname, build in builders.items():
        for mname, wrap in modes.items():
            f = wrap(build)
            for bad in (0.0, -1e-300, -1.0, -float(np.exp(rng.normal(0, 3)))):
                u.count((bname, mname, bad), tag=f"invalid:{mname}")
                try:
                    val = jax.block_until_ready(f(jnp.asarray(bad)))
                    ctx.violation(sig=f"ctor-traced:{bname}:accepted", what=f"{bname} built under {mname} with the invalid argument {bad!r} was accepted silently: {np.asarray(val).tolist()}",
                                  case=dict(unit="ctor-rejects-traced", builder=bname, mode=mname, arg=bad), found_input=True, unit=u.name,
                                  expected="an error", observed=str(np.asarray(val).tolist()), broken="rejection of invalid constructor arguments (traced construction)")
                except Exception:  # noqa: BLE001  any error is a rejection
                    pass
            for good in (1e-6, 0.3, float(np.exp(rng.normal(0, 2))), 1e6):
                u.count((bname, mname, good), tag=f"valid:{mname}")
                try:
                    val, ref = float(f(jnp.asarray(good))), float(build(jnp.asarray(good)))
                    if not abs(val - ref) <= 1e-12 * max(1.0, abs(ref)):
                        raise AssertionError(f"{val!r} != eager {ref!r}")
                except Exception as e:  # noqa: BLE001
                    ctx.violation(sig=f"ctor-traced:{bname}:valid", what=f"{bname} built under {mname} with the valid argument {good!r}: {type(e).__name__}: {str(e)[:100]}",
                                  case=dict(unit="ctor-rejects-traced", builder=bname, mode=mname, arg=good), found_input=True, unit=u.name,
                                  broken="constructor reproduces its arguments (traced construction)")


def run(ctx):
    K = kinds()
    fingerprints(ctx)
    unit_ctor_roundtrip(ctx)
    unit_ctor_rejects(ctx)
    unit_ctor_rejects_traced(ctx)
    unit_hypotheses(ctx)
    unit_raw_box(ctx, K)
    unit_trained(ctx, K)
    unit_float32(ctx, K)
    unit_wn_in_flows(ctx)
    ctx.assumptions += [
        "theorems are over the reals; float rounding/underflow is not modelled (partial): in floats strict inequalities are asserted only where "
        "the exact margin exceeds the rounding noise (softplus(raw) vs ulp(min), smallest bin width vs ulp of the knot positions)",
        "raw values are finite and inside the box |raw| <= 50 (planar: every entry of params; products w.u reach +-2500*dim)",
        "Planar weight <> 0 and WeightNormalization rows <> 0 (measure-zero inputs skipped by the tie, replayed in unit hypothesis-replay)",
        "linalg.cholesky returns a lower-triangular factor with positive diagonal for a positive-definite covariance (not verified)",
        "jax.nn.softmax / log_softmax / softplus are modelled by their formulas (max-shifted); libm vs XLA differences <= 1e-9 relative",
    ]
    ctx.trusted.append("float NumOps record ocaml/fops.ml (softplus = max(x,0) + log1p(exp(-|x|)))")


def replay(ctx, rep):
    c = rep.get("case", {})
    unit = c.get("unit")
    if unit == "raw-box" and "kind" in c:
        K = kinds()
        kind = K[c["kind"]]
        st, raws = c["static"], unjson(c["raws"])
        f32 = c.get("dtype") == "float32"
        obj = kind.with_raws(kind.build(st), raws, dtype=np.float32 if f32 else np.float64)
        obs = kind.observe(obj)
        errs = kind.oracle(st, raws, obs, float(np.finfo(np.float32).eps) if f32 else EPS)
        bad = []
        if not f32:
            rs = kind.reqs(st, raws)
            out = ctx.model([r[1] for r in rs])
            for (field, req, parse, floor), o in zip(rs, out):
                try:
                    ok = close(obs[field], parse(o).reshape(obs[field].shape), floor)
                except Exception:
                    ok = False
                if not ok:
                    bad.append(field)
                print(f"  {field}: observed {obs[field].ravel()[:8].tolist()} model {o[:200]}")
        print("oracle errors:", errs, "; fields differing from the model:", bad)
        return not errs and not bad
    if unit in ("ctor-roundtrip", "ctor-rejects", "hypothesis-replay"):
        # these units are cheap: re-run them with the stored seed/tier and look for the same signature
        from harness import common

        sub = common.Ctx(ctx.prop, rep.get("tier", "quick"), int(rep.get("seed", 0)))
        sub.groups = ctx.groups
        sub.known = []
        hits = []
        sub.violation = lambda **kw: hits.append(kw)
        unit_ctor_roundtrip(sub)
        unit_ctor_rejects(sub)
        unit_hypotheses(sub)
        same = [h for h in hits if h["sig"] == rep.get("sig")]
        for h in same[:3]:
            print("  still fails:", h["what"][:300])
        return not same
    if unit == "weightnorm-in-flows":
        wb = fmat(rep["observed"])
        o = ctx.model([c["request"]])[0]
        inner = fmat(c["inner"])
        # recompute on the current tree: a bare WeightNormalization with this inner weight and raw scale
        s = S()
        import warnings
        with warnings.catch_warnings():
            warnings.simplefilter("ignore")
            wn = s["W"].WeightNormalization(s["jnp"].asarray(inner))
        wn = s["eqx"].tree_at(lambda t: t.scale.arr, wn, s["jnp"].asarray(np.array([fparse(x) for x in c["raw_scale"]]).reshape(-1, 1)))
        now = A(s["W"].unwrap(wn))
        sc = A(s["W"].unwrap(wn.scale)).ravel()
        nr = np.sqrt(np.sum(now * now, axis=1))
        ok = bool(np.all(np.abs(nr - sc) <= 1e3 * EPS * now.shape[1] * sc)) and close(now, fmat(o), 0.0)
        print("row norms", nr.tolist(), "scale", sc.tolist(), "agrees with model:", close(now, fmat(o), 0.0))
        return ok
    print("obligation replay: rebuild and re-check", c)
    return False
