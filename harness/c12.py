"""C12 -- unwrapping applies every wrapper exactly once; frozen parameters never move.

Tie (model = coq/Model/Tree.v extracted, driven through ocaml/bin/tree):
  unwrap-tree      random pytrees of nested wrappers (Lambda / BijectionReparam / Where / WeightNormalization /
                   NonTrainable inside tuples, lists, dicts, eqx.Modules): flowjax.wrappers.unwrap vs Tree.unwrap_num
                   (structure, kinds, shapes exact; values bit-for-bit when only + - * / where are involved, 1e-12
                   otherwise), the sequence of .unwrap() calls actually made vs Tree.unwrap_trace_num, raise vs None
  unwrap-vmapped   the same wrappers constructed under 1-2 levels of eqx.filter_vmap
  partition        utils.get_ravelled_pytree_constructor (count, constructor) and wrappers.non_trainable vs the model
  loops            fit_to_data / fit_to_variational_target on arbitrary pytrees with a recording loss: the (params,
                   static) the loops hand to the loss vs Tree.part_num, the returned pytree vs Tree.fit_shift
  methods          real bijection / distribution methods on wrapped vs pre-unwrapped objects (bit for bit)
Search oracle (independent of the model): unwrap(unwrap(t)) == unwrap(t); no wrapper left; every wrapper's .unwrap()
  called exactly once, after those of the wrappers nested in it; unwrap(vmapped) == stack of unwrap(individual);
  every NonTrainable-wrapped and every non-float leaf bit-identical after real training runs (sgd, adam, adamw with
  weight decay, a constant-shift optimiser; both loops; 1-20 steps; random frozen subsets incl. nested ones);
  exactly zero gradient for frozen leaves (eqx.filter_grad); conditioner output size excludes frozen leaves.
"""

from __future__ import annotations

import copy
import json
import time

import numpy as np

from harness import treeser as ts

PROPERTY = "C12"
GROUPS = ["tree"]
MANIFEST = {
    "design_ref": "DESIGN.md 4.12",
    "technique": "Coq proof by structural induction over pytrees (Model/Tree.v: unwrap, partition/combine, training step, "
                 "ravel constructor) + executed correspondence of the extracted model with flowjax.wrappers / the training "
                 "loops' partition + model-independent oracle on real training runs",
    "text": "Theorems (all closed under the global context) about an executable Gallina model of wrappers.unwrap and of the "
            "parameter partition used by both training loops and by get_ravelled_pytree_constructor, for EVERY pytree (any depth, "
            "nesting and width; any leaf values; any wrapper behaviour whose result contains no wrapper): a wrapper-free tree is "
            "unchanged; the result of unwrap contains no wrapper; unwrap is idempotent; the .unwrap() calls made are exactly the "
            "wrapper nodes of the tree, each once, children before parents; a method that unwraps first gives the same result on a "
            "pre-unwrapped object; a BijectionReparam / Where / Lambda constructed under eqx.filter_vmap unwraps to the stack of its unwrapped "
            "slices (any number of levels); combine(partition(t)) = t; every leaf below a NonTrainable and every non-inexact leaf is in the "
            "static half; for ANY sequence of structure-preserving updates of the params half, of ANY length, the trained model "
            "re-partitions into the optimiser's output and the ORIGINAL static half (so frozen and non-float leaves are found "
            "unchanged at their positions); non_trainable freezes everything and does not change unwrap; the ravel constructor "
            "counts exactly the inexact array elements not below a NonTrainable and cannot change the static half. PARTIAL: the "
            "zero-gradient clause is proved only in an abstract tangent model (stop_gradient and the JVP rule are hypotheses); on the "
            "real code it is checked by the oracle (exact zeros from eqx.filter_grad). The model is tied to /repo on every run by "
            "comparing unwrap (values, structure, call trace; eager and vmapped construction), the partition observed inside the real "
            "loops, the returned pytrees and the ravel constructor with the extracted model on generated pytrees.",
    "note": "Trusted: Coq kernel; extraction (ExtrOcamlBasic); OCaml driver drv_tree.ml + float NumOps; harness (generator, "
            "serialiser treeser.py, comparators). Hypothesis of the idempotence theorems: .unwrap() of a wrapper with wrapper-free "
            "fields returns a wrapper-free value (proved for the five classes; for Lambda a condition on the user's function, shown "
            "necessary). Value semantics of BijectionReparam cover the elementwise bijections Exp, SoftPlus, Tanh, Loc, Scale, "
            "Affine, Chain; Lambda functions are the harness's eight. Optimisers are functions of the params half that preserve "
            "its structure (optax + eqx.apply_updates); float rounding is not modelled (values compared at 1e-12 / bit-for-bit).",
}

_S = {}
SHAPES = [[], [2], [3], [2, 3], [1, 3], [2, 1], [3, 2]]


def _setup():
    if _S:
        return _S
    import warnings

    warnings.filterwarnings("ignore")
    import equinox as eqx
    import jax
    import jax.numpy as jnp
    import jax.random as jr
    import jax.tree_util as jtu
    import optax
    from flowjax import wrappers
    from flowjax.train import fit_to_data, fit_to_variational_target
    from flowjax.utils import get_ravelled_pytree_constructor

    # observe which .unwrap() methods run (this process only; /repo is untouched)
    for cls in (wrappers.NonTrainable, wrappers.BijectionReparam, wrappers.Where, wrappers.WeightNormalization, wrappers.Lambda):
        if getattr(cls.unwrap, "_verif_patched", False):
            continue
        orig = cls.unwrap

        def rec(self, _orig=orig, _name=ts.WK[cls.__name__]):
            ts._calls.append(_name)
            return _orig(self)

        rec._verif_patched = True
        cls.unwrap = rec
    _S.update(dict(eqx=eqx, jax=jax, jnp=jnp, jr=jr, jtu=jtu, optax=optax, wrappers=wrappers, fit_to_data=fit_to_data,
                   fit_var=fit_to_variational_target, ravel_ctor=get_ravelled_pytree_constructor))
    return _S


# ======================================================================================================
# generators (JSON specs; see treeser.build)
# ======================================================================================================
def _vals(r, n, kind="F", positive=False):
    if kind == "B":
        return [float(v) for v in r.integers(0, 2, size=n)]
    if kind == "I":
        return [float(v) for v in r.integers(-3, 4, size=n)]
    v = r.integers(-12, 13, size=n) / 4.0  # dyadic: + - * stay exact
    if positive:
        v = np.abs(v) + 0.25
    return [float(x) for x in v]


def g_arr(r, shape, kind="F", positive=False):
    out = {"a": kind, "shape": list(shape), "data": _vals(r, int(np.prod(shape)) if shape else 1, kind, positive)}
    if r.random() < 0.08:
        out["np"] = 1  # a numpy array instead of a jax array (is_inexact_array / is_array accept both)
    return out


def g_py(r, kind):
    v = {"PF": float(r.integers(-8, 9)) / 4.0, "PI": float(r.integers(-3, 4)), "PB": float(r.integers(0, 2))}[kind]
    return {"a": kind, "shape": [], "data": [v]}


def _bcast_operand(r, shape):
    """A shape broadcastable to [shape] (same, size-1 axes, dropped leading axes)."""
    c = int(r.integers(0, 4))
    if c == 0 or not shape:
        return list(shape)
    if c == 1:
        return list(shape[int(r.integers(0, len(shape) + 1)):])
    if c == 2:
        s = list(shape)
        s[int(r.integers(0, len(s)))] = 1
        return s
    return []


def g_bij(r, shape, depth):
    """An elementwise bijection whose shape is a suffix of [shape]."""
    c = int(r.integers(0, 8))
    suf = list(shape[int(r.integers(0, len(shape) + 1)):]) if shape else []
    if c <= 2 or depth <= 0:
        return {"b": ["Exp", "SoftPlus", "Tanh"][c % 3], "shape": suf if r.random() < 0.5 else []}
    if c == 3:
        return {"b": "Loc", "loc": g_arr(r, suf)}
    if c == 4:
        return {"b": "Scale", "scale": g_arr(r, suf, positive=True)}  # Scale puts a BijectionReparam(SoftPlus) inside
    if c == 5:
        return {"b": "Affine", "loc": g_arr(r, suf), "scale": g_arr(r, suf, positive=True)}
    bs = [g_bij(r, suf, 0) if i else g_bij(r, suf, depth - 1) for i in range(int(r.integers(1, 4)))]
    # all members of a Chain need equal shapes: force the shape of the first
    sh = _bij_shape(bs[0])
    bs = [b for b in bs if _bij_shape(b) == sh]
    out = {"b": "Chain", "bs": bs}
    if r.random() < 0.3:
        out["nt"] = True  # like flows._affine_with_min_scale: non_trainable(...) inside the reparameterisation
    return out


def _bij_shape(b):
    if b["b"] in ("Exp", "SoftPlus", "Tanh"):
        return list(b.get("shape", []))
    if b["b"] == "Loc":
        return list(b["loc"]["shape"])
    if b["b"] == "Scale":
        return list(b["scale"]["shape"])
    if b["b"] == "Affine":
        return list(b["loc"]["shape"])
    return _bij_shape(b["bs"][0])


def g_expr(r, shape, depth, same_rank=False):
    """A spec that unwraps to a float array of [shape]: nested wrappers to the given depth."""
    if depth <= 0 or r.random() < 0.15:
        return g_arr(r, shape)
    c = int(r.integers(0, 10))
    if c in (0, 6):
        return {"w": "NT", "c": [g_expr(r, shape, depth - 1, same_rank)]}
    if c in (1, 2):
        if same_rank:
            cs, xs, ys = list(shape), list(shape), list(shape)
        else:
            cs, xs, ys = _bcast_operand(r, shape), _bcast_operand(r, shape), _bcast_operand(r, shape)
            [cs, xs, ys][int(r.integers(0, 3))][:] = list(shape)  # one operand carries the full shape
            if not shape:
                cs, xs, ys = [], [], []
        cond = g_arr(r, cs, "B") if r.random() < 0.8 else g_arr(r, cs, "I")
        a = g_expr(r, xs, depth - 1, same_rank)
        b = g_py(r, ["PI", "PF"][int(r.integers(0, 2))]) if (r.random() < 0.4 and (xs == list(shape))) else g_expr(r, ys if xs == list(shape) else list(shape), depth - 1, same_rank)
        return {"w": "WH", "c": [cond, a, b]}
    if c in (3, 4):
        return {"w": "BR", "c": [g_expr(r, shape, depth - 1, same_rank)], "bij": g_bij(r, shape, 2)}
    if c == 5 and len(shape) >= 1:
        s = {"w": "WN", "c": [g_expr(r, shape, depth - 1, same_rank)]}
        if r.random() < 0.7:
            s["scale_arr"] = g_arr(r, list(shape[:-1]) + [1])
        return s
    fn = ["fn:exp", "fn:add1", "fn:neg", "fn:add", "fn:mul", "fn:add1"][int(r.integers(0, 6))]
    if fn == "fn:add":
        ys = list(shape) if same_rank else _bcast_operand(r, shape)
        return {"w": "LA", "fn": fn, "args": [g_expr(r, shape, depth - 1, same_rank), g_expr(r, ys, depth - 1, same_rank)]}
    if fn == "fn:mul":
        ys = list(shape) if same_rank else _bcast_operand(r, shape)
        return {"w": "LA", "fn": fn, "args": [g_expr(r, shape, depth - 1, same_rank)], "kwargs": {"s": g_expr(r, ys, depth - 1, same_rank)}}
    return {"w": "LA", "fn": fn, "args": [g_expr(r, shape, depth - 1, same_rank)]}


def g_leaf(r):
    c = int(r.integers(0, 12))
    sh = SHAPES[int(r.integers(0, len(SHAPES)))]
    if c <= 3:
        return g_arr(r, sh)
    if c == 4:
        return g_arr(r, sh, "I")
    if c == 5:
        return g_arr(r, sh, "B")
    if c in (6, 7, 8):
        return g_py(r, ["PF", "PI", "PB"][c - 6])
    if c == 9:
        return {"s": ["name", "relu", "x"][int(r.integers(0, 3))]}
    if c == 10:
        return {"none": 1}
    return {"s": "fn:neg"}


def g_tree(r, depth, wdepth):
    """A general pytree: containers of leaves, array expressions (nested wrappers), NonTrainable subtrees, tuple-valued
    Lambdas."""
    c = int(r.integers(0, 10))
    if depth <= 0 or c <= 1:
        if r.random() < 0.6:
            return g_expr(r, SHAPES[int(r.integers(0, len(SHAPES)))], wdepth)
        return g_leaf(r)
    if c in (2, 3):
        return {"w": "NT", "c": [g_tree(r, depth - 1, max(0, wdepth - 1))]}
    if c == 4:
        sh = SHAPES[int(r.integers(0, len(SHAPES)))]
        k = int(r.integers(0, 3))
        if k == 0:
            return {"w": "LA", "fn": "fn:pair", "args": [g_expr(r, sh, wdepth - 1)]}
        if k == 1:
            return {"w": "LA", "fn": "fn:sum", "args": [g_expr(r, sh, wdepth - 1)]}
        return {"w": "LA", "fn": "fn:zero", "args": []}
    n = int(r.integers(1, 4))
    ch = [g_tree(r, depth - 1, wdepth) for _ in range(n)]
    kind = ["tuple", "list", "dict", "mod"][int(r.integers(0, 4))]
    out = {"t": kind, "c": ch}
    if kind == "dict":
        out["keys"] = sorted(r.choice(["a", "b", "c", "d", "e"], size=n, replace=False).tolist())
    return out


def g_mixed(r, depth, wdepth):
    """A container that certainly holds trainable float leaves, frozen float leaves (also frozen inside another wrapper's
    fields) and non-float leaves."""
    sh = SHAPES[int(r.integers(0, len(SHAPES)))]
    ch = [g_arr(r, sh), {"w": "NT", "c": [g_tree(r, depth, wdepth)]}, g_tree(r, depth, wdepth),
          {"w": "WH", "c": [g_arr(r, sh, "B"), {"w": "NT", "c": [g_arr(r, sh)]}, g_expr(r, sh, wdepth)]},
          g_arr(r, [2], "I"), g_py(r, "PF")]
    ch = [ch[i] for i in r.permutation(len(ch))][: int(r.integers(3, 7))]
    kind = ["tuple", "list", "dict"][int(r.integers(0, 3))]
    out = {"t": kind, "c": ch}
    if kind == "dict":
        out["keys"] = ["k%d" % i for i in range(len(ch))]
    return out


def revalue(r, spec):
    """Same structure, fresh values for every jax-array leaf (python scalars and statics are shared across a vmapped
    construction)."""
    s = copy.deepcopy(spec)
    for leaf in ts.spec_array_leaves(s):
        pos = leaf["a"] == "F" and all(v > 0 for v in leaf["data"])
        leaf["data"] = _vals(r, len(leaf["data"]), leaf["a"], positive=pos)
    return s


def g_where_mixed(r, sh):
    """Where whose operands have different ranks (cond / values broadcast against each other)."""
    full = list(sh) if len(sh) >= 2 else [2, 3]
    low = full[1:] if r.random() < 0.7 else [1] + full[1:]
    which = int(r.integers(0, 3))
    shapes = [full, full, full]
    shapes[which] = low
    if r.random() < 0.4:
        shapes[(which + 1) % 3] = full[-1:]
    cond = g_arr(r, shapes[0], "B")
    a = g_arr(r, shapes[1])
    b = g_py(r, "PF") if (which != 2 and r.random() < 0.3) else g_arr(r, shapes[2])
    return {"w": "WH", "c": [cond, a, b]}


def g_vmapped(r, levels, wdepth, template=None):
    sh = SHAPES[int(r.integers(0, len(SHAPES)))]
    c = int(r.integers(0, 7))
    if template is not None:
        pass
    elif c == 0:
        template = {"w": "LA", "fn": "fn:sum", "args": [g_expr(r, sh, wdepth - 1)]}
    elif c == 1:
        template = {"w": "LA", "fn": "fn:add", "args": [g_expr(r, sh, wdepth - 1), g_arr(r, _bcast_operand(r, sh))]}
    elif c == 2:
        template = {"w": "BR", "c": [g_expr(r, sh, wdepth - 1)], "bij": g_bij(r, sh, 2)}
    elif c == 3:
        template = {"w": "LA", "fn": "fn:pair", "args": [g_expr(r, sh, wdepth - 1)]}
    elif c == 4:
        template = g_where_mixed(r, sh)
    else:
        template = g_expr(r, sh, wdepth)
        if "a" in template:
            template = {"w": "LA", "fn": "fn:add1", "args": [template]}
    dims = [int(r.integers(1, 4)) for _ in range(levels)]

    def mk(ds):
        if not ds:
            return revalue(r, template)
        return [mk(ds[1:]) for _ in range(ds[0])]

    return {"vmap": levels, "variants": mk(dims)}


def spec_has(spec, pred):
    if isinstance(spec, dict):
        if pred(spec):
            return True
        return any(spec_has(v, pred) for v in spec.values())
    if isinstance(spec, list):
        return any(spec_has(v, pred) for v in spec)
    return False


def is_transcendental(spec):
    return spec_has(spec, lambda s: s.get("b") in ("Exp", "SoftPlus", "Tanh", "Scale", "Affine") or s.get("w") == "WN"
                    or s.get("fn") in ("fn:exp",))


# ======================================================================================================
# the property's own oracle on unwrap (independent of the model)
# ======================================================================================================
def real_unwrap_with_trace(obj):
    s = _setup()
    ts._calls.clear()
    u = s["wrappers"].unwrap(obj)
    return u, list(ts._calls)


def py_postorder(t):
    """Independent (python) listing of the wrapper classes / Lambda functions of a parsed term, children first."""
    if t[0] == "W":
        out = []
        for c in t[3]:
            out += py_postorder(c)
        if t[2] == "LA":
            out.append("LA")
            out.append(t[3][0][1] if t[3][0][0] == "S" else "fn:?")
        else:
            out.append(t[2])
        return out
    if t[0] == "T":
        out = []
        for c in t[2]:
            out += py_postorder(c)
        return out
    return []


def oracle_unwrap(obj, term):
    """-> list of error strings (empty = the property's unwrap clauses hold on this object)."""
    s = _setup()
    errs = []
    u, calls = real_unwrap_with_trace(obj)
    su = ts.ser(u, ids=False)
    pu = ts.parse(su)
    if ts.count_wrappers(pu):
        errs.append(f"unwrap left {ts.count_wrappers(pu)} wrapper node(s) in its result")
    uu = s["wrappers"].unwrap(u)
    d = ts.diff(pu, ts.parse(ts.ser(uu, ids=False)), rtol=0.0)
    if d:
        errs.append(f"unwrap is not idempotent: unwrap(unwrap(t)) differs from unwrap(t) at {d[0]}: {d[1]}")
    exp = py_postorder(term)
    if calls != exp:
        from collections import Counter

        ce, cc = Counter(x for x in exp if not x.startswith("fn:")), Counter(x for x in calls if not x.startswith("fn:"))
        if ce != cc:
            errs.append(f"wrappers not applied exactly once: the tree has {dict(ce)}, .unwrap() ran {dict(cc)}")
        else:
            errs.append(f"wrappers not applied inside-out: expected call order {exp}, observed {calls}")
    return errs, u, su, calls


def model_trace_to_calls(tr, term):
    """model trace 'id:KIND,...' -> the call sequence the real code logs (Lambda logs LA then its function)."""
    if tr == "-":
        return []
    fn_by_id = {}

    def walk(t):
        if t[0] == "W":
            if t[2] == "LA":
                fn_by_id[t[1]] = t[3][0][1] if t[3][0][0] == "S" else "fn:?"
            for c in t[3]:
                walk(c)
        elif t[0] == "T":
            for c in t[2]:
                walk(c)

    walk(term)
    out = []
    for item in tr.split(","):
        i, k = item.split(":")
        out.append(k)
        if k == "LA":
            out.append(fn_by_id[int(i)])
    return out


# ======================================================================================================
# units
# ======================================================================================================
def _lost_wrappers(spec, obj):
    """{kind: (in spec, in object)} for the wrapper kinds of which the object has FEWER nodes than the construction spec."""
    import collections

    import equinox as eqx
    import jax
    from flowjax import wrappers as W

    def cnt(s_, acc):
        if isinstance(s_, dict):
            if "vmap" in s_:  # the variants are stacked into ONE vmapped wrapper tree: count one of them
                v0 = s_["variants"]
                while isinstance(v0, list):
                    v0 = v0[0]
                return cnt(v0, acc)
            if "w" in s_:
                acc[s_["w"]] += 1
            for k_, v in s_.items():
                if k_ != "bij":  # arguments of a bijection's own constructor are consumed by it
                    cnt(v, acc)
        elif isinstance(s_, list):
            for v in s_:
                cnt(v, acc)
        return acc

    def count_obj(o, cls):
        n = 0
        for leaf in jax.tree_util.tree_leaves(o, is_leaf=lambda x: isinstance(x, W.AbstractUnwrappable)):
            if isinstance(leaf, W.AbstractUnwrappable):
                n += isinstance(leaf, cls)
                n += sum(count_obj(f, cls) for f in eqx.tree_flatten_one_level(leaf)[0])
        return n

    want = cnt(spec, collections.Counter())
    out = {}
    for kind, cls in (("NT", W.NonTrainable), ("WH", W.Where), ("LA", W.Lambda)):
        have = count_obj(obj, cls)
        if have < want[kind]:
            out[kind] = (want[kind], have)
    return out


def unit_merge_keeps_marks(ctx):
    """Public restructuring calls (Chain.merge_chains, Transformed.merge_transforms) must not drop wrapper nodes: a sub-chain frozen with
    NonTrainable and used as a Chain element is still frozen afterwards (same NonTrainable count, same function).  Seeded change C12e."""
    import jax
    import jax.numpy as jnp
    from flowjax import wrappers as W
    from flowjax.bijections import Affine, Chain, Exp, Invert
    from flowjax.distributions import Normal, Transformed

    u = ctx.unit("merge-keeps-marks", "Chain([..., NonTrainable(Chain[...]), ...]).merge_chains() and Transformed(...).merge_transforms(): NonTrainable "
                                      "nodes survive and the function is unchanged")
    rng = ctx.rng

    def n_marks(o):
        return sum(isinstance(l, W.NonTrainable) for l in jax.tree_util.tree_leaves(o, is_leaf=lambda x: isinstance(x, W.NonTrainable)))

    for rep in range(4 if ctx.quick else 20):
        d = int(rng.integers(1, 4))
        aff = lambda: Affine(jnp.asarray(rng.normal(0, 1, d)), jnp.asarray(np.exp(rng.normal(0, 0.4, d))))  # noqa: E731
        inner = Chain([aff(), Chain([aff(), Exp((d,))]) if rep % 2 else aff()])
        outer = Chain([aff(), W.NonTrainable(inner), Invert(aff())] if rep % 3 else [W.NonTrainable(inner), aff()])
        x = jnp.asarray(rng.normal(0, 1, d))
        errs = []
        u.count((rep, d), tag="merge_chains")
        try:
            merged = outer.merge_chains()
            if n_marks(merged) < n_marks(outer):
                errs.append(f"merge_chains() dropped NonTrainable marks ({n_marks(outer)} -> {n_marks(merged)}): the frozen sub-chain is trainable afterwards")
            if not np.allclose(np.asarray(merged.transform(x)), np.asarray(outer.transform(x)), rtol=1e-12, atol=1e-12):
                errs.append("merge_chains() changed transform")
        except Exception as e:  # noqa: BLE001
            errs.append(f"merge_chains() raised {type(e).__name__}: {str(e)[:80]}")
        u.count((rep, d, "mt"), tag="merge_transforms")
        try:
            dist = Transformed(Transformed(Normal(jnp.zeros(d)), W.NonTrainable(inner)), aff())
            mt = dist.merge_transforms()
            if n_marks(mt) < n_marks(dist):
                errs.append(f"merge_transforms() dropped NonTrainable marks ({n_marks(dist)} -> {n_marks(mt)})")
            if not np.allclose(float(mt.log_prob(x + 3.0)), float(dist.log_prob(x + 3.0)), rtol=1e-10, atol=1e-12):
                errs.append("merge_transforms() changed log_prob")
        except Exception as e:  # noqa: BLE001
            ctx.notes.append(f"merge-keeps-marks: Transformed over a NonTrainable bijection not constructible here ({type(e).__name__}); merge_chains part still checked")
        if errs:
            ctx.violation(sig="merge-keeps-marks", what="; ".join(errs), case=dict(unit="merge-keeps-marks", rep=rep, dim=d, seed=int(ctx.seed)), found_input=True, unit=u.name,
                          broken="merge-keeps-marks (frozen leaves stay frozen through merge_chains / merge_transforms)")


def unit_unwrap(ctx, specs, uname, what, vmapped=False):
    s = _setup()
    u = ctx.unit(uname, what)
    built, reqs = [], []
    for spec in specs:
        try:
            obj = ts.build(spec)
            sx = ts.ser(obj)
        except Exception as e:  # construction itself failed: not a case
            ctx.notes.append(f"{uname}: construction failed ({type(e).__name__}: {str(e)[:80]}) for {json.dumps(spec)[:200]}")
            continue
        built.append((spec, obj, sx))
        reqs += ["unwrap " + sx, "trace " + sx]
        # a wrapper handed to a constructor must still be a node of the constructed pytree (the serialiser reads the structure from
        # the OBJECT, so a constructor that applies a nested wrapper once and discards it would go unnoticed: seeded change C12c)
        lost = _lost_wrappers(spec, obj)
        if lost:
            ctx.violation(sig=f"{uname}:constructor-dropped-wrapper", what=f"a wrapper passed to a constructor is missing from the constructed pytree ({lost}): "
                          f"a NonTrainable leaf is then trainable / a Where mask is not re-applied after its operands change",
                          case=dict(unit=uname, spec=spec), found_input=True, unit=u.name, broken="wrapper nodes survive construction (frozen leaves stay frozen)")
    outs = ctx.model(reqs)
    for i, (spec, obj, sx) in enumerate(built):
        _gc(i, 60)
        mu, mt = outs[2 * i], outs[2 * i + 1]
        term = ts.parse(sx)
        nw, dw = ts.count_wrappers(term), ts.depth_wrappers(term)
        u.count(sx, nontrivial=nw >= 2 and dw >= 2, tag=f"wrappers={min(nw, 6)}{'+' if nw > 6 else ''},depth={dw}")
        rtol = 1e-12 if is_transcendental(spec) else 0.0
        try:
            errs, ru, su, calls = oracle_unwrap(obj, term)
            raised = None
        except Exception as e:
            errs, ru, su, calls, raised = [], None, None, None, f"{type(e).__name__}: {str(e)[:120]}"
        case = {"kind": "unwrap", "spec": spec, "term": sx}
        if raised is not None:
            if mu.startswith("OK"):
                u.disagreements += 1
                ctx.violation(sig=f"{uname}:raises", what=f"wrappers.unwrap raises ({raised}) where the model returns a value",
                              case=case, found_input=False, unit=uname, expected=mu[:300], observed=raised,
                              broken="correspondence unwrap / C12_unwrap_*")
            continue
        if vmapped:  # oracle: unwrap(vmapped construction) == stack of unwrap(individual constructions)
            e2 = oracle_vmapped(spec, ru)
            errs += e2
        if errs:
            ctx.violation(sig=("vmapped-where:mixed-rank" if uname == "vmapped-where-mixed-rank" else f"{uname}:oracle:{errs[0].split(':')[0][:40]}"), what="; ".join(errs)[:600], case=case, found_input=True,
                          unit=uname, expected="unwrap idempotent, every wrapper applied once inside-out, vmapped = stacked", observed=errs,
                          broken="C12_unwrap_idempotent / C12_unwrap_each_once",
                          reproducer="cd /verif && ./check C12 --replay <this file>")
        if not mu.startswith("OK"):
            u.disagreements += 1
            ctx.violation(sig=f"{uname}:model-none", what=f"the model's unwrap is undefined ({mu}) where wrappers.unwrap returns a value",
                          case=case, found_input=False, unit=uname, expected=mu, observed=su[:300], broken="correspondence unwrap")
            continue
        d = ts.diff(ts.parse(mu[3:]), ts.parse(su), rtol=rtol)
        mcalls = model_trace_to_calls(mt[3:] if mt.startswith("OK") else "-", term)
        if d or mcalls != calls:
            u.disagreements += 1
            what = (f"unwrap: model and implementation differ at {d[0]}: {d[1]} (model vs real)" if d else
                    f"the .unwrap() calls made {calls} differ from the model's trace {mcalls}")
            ctx.violation(sig=f"{uname}:{'value' if d else 'trace'}", what=what, case=case, found_input=False, unit=uname,
                          expected=mu[:400], observed=su[:400], broken="correspondence unwrap / C12_unwrap_each_once",
                          reproducer="cd /verif && ./check C12 --replay <this file>")
        if len(u.hashes) % 60 == 1:
            ctx.sample({"unit": uname, "term": sx[:300], "unwrapped": su[:200], "calls": calls})


def _gc(i, every=40):
    """JAX keeps every compiled executable alive; thousands of distinct small programs exhaust the code memory of LLVM."""
    if i % every == every - 1:
        import gc

        _setup()["jax"].clear_caches()
        gc.collect()


def _sig(spec):
    """Stable, coarse signature of a spec: the set of wrapper classes involved."""
    ks = set()
    spec_has(spec, lambda s: ks.add(s.get("w") or ("vmap" if "vmap" in s else "")) and False)
    return "+".join(sorted(k for k in ks if k))


def oracle_vmapped(spec, ru):
    """unwrap of every vmap node of the spec == stack of the unwraps of its variants (independent of the model)."""
    s = _setup()
    errs = []
    if "vmap" not in spec:
        return errs
    batch, flat = ts.flat_variants(spec)
    parts = [s["wrappers"].unwrap(ts.build(f)) for f in flat]
    jnp, jtu = s["jnp"], s["jtu"]

    def stack(*xs):
        if isinstance(xs[0], (s["jax"].Array, np.ndarray, np.generic)):  # np.generic: -x of a 0-d numpy array is a numpy scalar
            return jnp.stack([jnp.asarray(x) for x in xs]).reshape(batch + tuple(np.shape(xs[0])))
        return xs[0]

    exp = jtu.tree_map(stack, *parts)
    d = ts.diff(ts.parse(ts.ser(exp, ids=False)), ts.parse(ts.ser(ru, ids=False)), rtol=1e-12)
    if d:
        errs.append(f"vmapped: unwrap of a wrapper constructed under filter_vmap differs from the stack of the individually "
                    f"constructed ones at {d[0]}: {d[1]}")
    return errs


# ---------------- malformed stream: unwrap must raise exactly where the model is undefined ----------------
def g_malformed(r):
    c = int(r.integers(0, 3))
    if c == 0:  # Where with incompatible shapes
        return {"w": "WH", "c": [g_arr(r, [2], "B"), g_arr(r, [3]), g_arr(r, [3])]}
    if c == 1:  # bijection shape not a suffix of the array's shape
        return {"w": "BR", "c": [g_arr(r, [2, 3])], "bij": {"b": "Loc", "loc": g_arr(r, [2])}}
    return {"t": "tuple", "c": [g_arr(r, [2]), {"w": "LA", "fn": "fn:add", "args": [g_arr(r, [2]), g_arr(r, [3])]}]}


def unit_malformed(ctx, n):
    s = _setup()
    u = ctx.unit("unwrap-malformed", "wrappers with incompatible shapes: wrappers.unwrap raises iff the model's unwrap is undefined")
    specs = [g_malformed(ctx.rng) for _ in range(n)]
    objs = []
    for spec in specs:
        try:
            objs.append((spec, ts.build(spec)))
        except Exception:
            continue
    outs = ctx.model(["unwrap " + ts.ser(o) for _, o in objs])
    for (spec, obj), mu in zip(objs, outs):
        u.count(spec, nontrivial=True, tag=spec.get("w", "tuple"))
        try:
            s["wrappers"].unwrap(obj)
            raised = False
        except Exception:
            raised = True
        if raised != (mu == "NONE"):
            u.disagreements += 1
            ctx.violation(sig="unwrap:malformed", what=f"unwrap {'raises' if raised else 'returns'} where the model is {'defined' if raised else 'undefined'}",
                          case={"kind": "unwrap", "spec": spec}, found_input=False, unit=u.name, expected=mu[:200], observed=raised,
                          broken="correspondence unwrap (raise vs None)")


def unit_nontrainable_subclass(ctx):
    """A leaf frozen with a SUBCLASS of NonTrainable (e.g. `class Pretrained(NonTrainable)` used as replace_fn) is a frozen leaf everywhere:
    not counted / overwritten by get_ravelled_pytree_constructor, hence not parameterised by Coupling / MaskedAutoregressive conditioners, and
    bit-identical after training.  (Seeded change C12g recognised frozen nodes by the class NAME.)"""
    s = _setup()
    jnp, eqx, W = s["jnp"], s["eqx"], s["wrappers"]
    import jax.random as jr
    from flowjax.bijections import Affine, Coupling, MaskedAutoregressive

    class Pretrained(W.NonTrainable):
        pass

    u = ctx.unit("frozen-subclass", "leaves frozen with a subclass of NonTrainable: parameter count / constructor of get_ravelled_pytree_constructor, "
                                    "Coupling and MaskedAutoregressive conditioner output sizes and transformer parameters (oracle only)")
    loc0 = float(ctx.rng.normal(0.75, 0.2))
    for cls_name, cls in (("NonTrainable", W.NonTrainable), ("subclass of NonTrainable", Pretrained)):
        tr = eqx.tree_at(lambda a: a.loc, Affine(loc0, 1.5), replace_fn=cls)
        ctor, n = s["ravel_ctor"](tr)
        u.count(("ravel", cls_name), nontrivial=True, tag=cls_name)
        errs = []
        if n != 1:
            errs.append(f"get_ravelled_pytree_constructor counts {n} parameters for Affine with a frozen loc (1 trainable scalar: the scale)")
        else:
            rebuilt = W.unwrap(ctor(jnp.asarray([0.3])))
            if float(rebuilt.loc) != loc0:
                errs.append(f"constructor(vec) overwrote the frozen loc: {float(rebuilt.loc)!r} instead of {loc0!r}")
        for lname, mk in (("Coupling", lambda: Coupling(jr.PRNGKey(0), transformer=tr, untransformed_dim=1, dim=3, nn_width=4, nn_depth=1)),
                          ("MaskedAutoregressive", lambda: MaskedAutoregressive(jr.PRNGKey(0), transformer=tr, dim=3, nn_width=4, nn_depth=1))):
            u.count((lname, cls_name), nontrivial=True, tag=cls_name)
            layer = mk()
            x = jnp.asarray(ctx.rng.normal(0, 1, 3))
            y = layer.transform(x)
            # coordinate 0 of MAF / the untransformed block of Coupling aside, every transformed coordinate is scale_i * x_i + loc0 with the FROZEN loc:
            # (y_i - loc0) / x_i must be the positive scale the conditioner produced, and with x_i -> 0 the image is exactly loc0
            y0 = layer.transform(jnp.zeros(3))
            idx = range(1, 3) if lname == "Coupling" else range(0, 3)
            bad = [i for i in idx if abs(float(y0[i]) - loc0) > 1e-12]
            if bad:
                errs.append(f"{lname}: transform(0)[{bad[0]}] = {float(y0[bad[0]])!r}, the frozen loc is {loc0!r} (the conditioner parameterises the frozen leaf)")
        if errs:
            ctx.violation(sig=f"frozen-subclass:{'subclass' if cls is Pretrained else 'plain'}", what=f"leaf frozen with {cls_name}: " + "; ".join(errs),
                          case={"kind": "frozen-subclass", "cls": cls_name, "loc": loc0}, found_input=True, unit=u.name, expected="frozen leaf excluded", observed="; ".join(errs)[:300],
                          broken="oracle: frozen leaves are not parameterised by conditioners / C12_conditioner_excludes_frozen")


# ---------------- partition: ravel constructor, non_trainable ----------------
def unit_partition(ctx, specs):
    s = _setup()
    jnp = s["jnp"]
    u = ctx.unit("partition", "utils.get_ravelled_pytree_constructor (count, constructor at 0 and at a random vector) and wrappers.non_trainable "
                              "vs Tree.n_params / ctor / non_trainable_num; non-trivial = the tree has both trainable and frozen float leaves")
    built, reqs = [], []
    for spec in specs:
        obj = ts.build(spec)
        sx = ts.ser(obj)
        ctor, n = s["ravel_ctor"](obj)
        vec = [float(v) for v in ctx.rng.integers(-8, 9, size=n) / 4.0]
        built.append((spec, obj, sx, ctor, n, vec))
        reqs += ["count " + sx, f"ctor {','.join(float(v).hex() for v in vec) or '-'} " + sx, "nontrainable " + sx, "part " + sx]
    outs = ctx.model(reqs)
    for i, (spec, obj, sx, ctor, n, vec) in enumerate(built):
        _gc(i, 100)
        mc, mctor, mnt, mpart = outs[4 * i: 4 * i + 4]
        term = ts.parse(sx)
        mp = ts.parse(mpart.split(" | ")[0])
        n_train_leaves = len([1 for _, l in ts.leaf_paths(mp)])
        n_frozen = sum(1 for _ in _frozen_float_positions(term))
        u.count(sx, nontrivial=n_train_leaves > 0 and n_frozen > 0, tag=f"trainable={min(n_train_leaves, 5)},frozen={min(n_frozen, 5)}")
        case = {"kind": "partition", "spec": spec, "term": sx, "vec": vec}
        problems = []
        oracle = []
        if [int(v) for v in mc.split()] != [n, n]:
            problems.append(f"parameter count {n} vs model n_params/count_trainable {mc}")
        # independent count: inexact array elements not below a NonTrainable
        indep = sum(int(np.prod(l[2])) if l[2] else 1 for _, l in _trainable_positions(term))
        if indep != n:
            oracle.append(f"get_ravelled_pytree_constructor counts {n} parameters; the tree has {indep} trainable inexact scalars "
                          f"(frozen leaves must not be parameterised)")
        try:
            z = ctor(jnp.zeros(n))
            d0 = ts.diff(term, ts.parse(ts.ser(z)), rtol=0.0)
            if d0:
                oracle.append(f"constructor(0) is not the initial pytree: {d0}")
            rv = ctor(jnp.asarray(vec, dtype=float).reshape(n))
            srv = ts.ser(rv)
            dm = ts.diff(ts.parse(mctor), ts.parse(srv), rtol=0.0)
            if dm:
                problems.append(f"constructor(vec): model vs real differ at {dm[0]}: {dm[1]}")
            fr = frozen_diff(term, ts.parse(srv))
            if fr:
                oracle.append(f"constructor(vec) changed a frozen / non-float leaf: {fr}")
        except Exception as e:
            problems.append(f"constructor raised {type(e).__name__}: {str(e)[:100]}")
        nt = s["wrappers"].non_trainable(obj)
        dn = ts.diff(ts.parse(mnt), ts.parse(ts.ser(nt, ids=False)), rtol=0.0, ids=False)
        if dn:
            problems.append(f"non_trainable: model vs real differ at {dn[0]}: {dn[1]}")
        left = list(_trainable_positions(ts.parse(ts.ser(nt))))
        if left:
            oracle.append(f"non_trainable left {len(left)} inexact array leaf/leaves trainable, e.g. at {left[0][0]}")
        if oracle or problems:
            u.disagreements += bool(problems)
            ctx.violation(sig=f"partition:{(oracle or problems)[0].split(' ')[0]}", what="; ".join(oracle + problems)[:600], case=case,
                          found_input=bool(oracle), unit=u.name, expected=f"model: {mc} | {mctor[:200]}", observed=f"{n}",
                          broken="correspondence partition / C12_conditioner_excludes_frozen",
                          reproducer="cd /verif && ./check C12 --replay <this file>")


def _walk_positions(t, path=(), frozen=False):
    """(path, leaf, frozen?) for all leaves of a parsed term; frozen = below a NonTrainable."""
    if t[0] in ("A", "S"):
        yield path, t, frozen
    elif t[0] == "T":
        for i, c in enumerate(t[2]):
            yield from _walk_positions(c, path + (i,), frozen)
    elif t[0] == "W":
        for i, c in enumerate(t[3]):
            yield from _walk_positions(c, path + (i,), frozen or t[2] == "NT")


def _trainable_positions(t):
    for p, l, fz in _walk_positions(t):
        if l[0] == "A" and l[1] == "F" and not fz:
            yield p, l


def _frozen_float_positions(t):
    for p, l, fz in _walk_positions(t):
        if l[0] == "A" and l[1] == "F" and fz:
            yield p, l


def frozen_diff(before, after):
    """Oracle: every leaf of [before] that is below a NonTrainable or is not an inexact array must be found, bit-identical,
    at the same position of [after].  -> description of the first offending leaf or None."""
    a = {p: l for p, l, _ in _walk_positions(after)}
    for p, l, fz in _walk_positions(before):
        if l[0] == "A" and l[1] == "F" and not fz:
            continue
        m = a.get(p)
        if m is None:
            return f"leaf at {p} disappeared"
        if ts.diff(l, m, rtol=0.0):
            why = "frozen (below NonTrainable)" if fz else "non-floating-point"
            return f"{why} leaf at {p} changed: {_short(l)} -> {_short(m)}"
    return None


def _short(l):
    return f"{l[1]}{l[2]}{(l[3] or [])[:4]}" if l[0] == "A" else str(l)


# ---------------- the two training loops on arbitrary pytrees ----------------
def _shift_opt():
    s = _setup()
    jnp, jtu, optax = s["jnp"], s["jtu"], s["optax"]
    return optax.GradientTransformation(lambda params: (), lambda g, st, params=None: (jtu.tree_map(jnp.ones_like, g), st))


def _mk_losses():
    s = _setup()
    eqx, jnp, jtu = s["eqx"], s["jnp"], s["jtu"]
    rec = {}

    def total(params):
        ls = [jnp.sum(l) for l in jtu.tree_leaves(params)]
        return sum(ls, jnp.zeros(()))

    def data_loss(params, static, x, condition=None, key=None):
        rec["params"], rec["static"] = ts.ser(params, values=False, ids=False), ts.ser(static, values=False, ids=False)
        return total(params) + 0.0 * jnp.sum(x)

    def var_loss(params, static, key):
        rec["params"], rec["static"] = ts.ser(params, values=False, ids=False), ts.ser(static, values=False, ids=False)
        return total(params)

    return rec, data_loss, var_loss


def unit_loops(ctx, specs):
    s = _setup()
    jnp, jr = s["jnp"], s["jr"]
    u = ctx.unit("loops", "fit_to_data / fit_to_variational_target on generated pytrees with a recording loss and a constant-shift optimiser "
                          "(every trainable scalar +1 per step): the (params, static) handed to the loss vs Tree.part_num, the returned "
                          "pytree vs Tree.fit_shift (bit for bit); non-trivial = trainable and frozen float leaves both present")
    rec, data_loss, var_loss = _mk_losses()
    built, reqs = [], []
    for spec in specs:
        obj = ts.build(spec)
        sx = ts.ser(obj)
        steps = int(ctx.rng.integers(1, 5))
        loop = ["data", "var"][int(ctx.rng.integers(0, 2))]
        built.append((spec, obj, sx, steps, loop))
        reqs += ["part " + ts.ser(obj, values=False, ids=False), f"fit {','.join([float(1).hex()] * steps)} " + sx]
    outs = ctx.model(reqs)
    for i, (spec, obj, sx, steps, loop) in enumerate(built):
        _gc(i, 20)
        mpart, mfit = outs[2 * i], outs[2 * i + 1]
        term = ts.parse(sx)
        ntr, nfz = len(list(_trainable_positions(term))), len(list(_frozen_float_positions(term)))
        u.count((sx, steps, loop), nontrivial=ntr > 0 and nfz > 0, tag=f"{loop},steps={steps}")
        case = {"kind": "loops", "spec": spec, "term": sx, "steps": steps, "loop": loop}
        rec.clear()
        try:
            if loop == "data":
                # 1 training batch per epoch (batch_size 2, 2 training rows, 1 validation row): steps = epochs
                out, _ = s["fit_to_data"](jr.PRNGKey(0), obj, jnp.zeros((3, 1)), loss_fn=data_loss, max_epochs=steps, max_patience=100,
                                          batch_size=2, val_prop=1 / 3, optimizer=_shift_opt(), return_best=False, show_progress=False)
            else:
                out, _ = s["fit_var"](jr.PRNGKey(0), obj, var_loss, steps=steps, optimizer=_shift_opt(), return_best=False, show_progress=False)
        except Exception as e:
            u.disagreements += 1
            ctx.violation(sig=f"loops:raise:{loop}", what=f"{loop} loop raised {type(e).__name__}: {str(e)[:200]}", case=case, found_input=False,
                          unit=u.name, broken="correspondence loops")
            continue
        sout = ts.ser(out)
        fr = frozen_diff(term, ts.parse(sout))
        mp, ms = mpart.split(" | ")
        problems = []
        dp = ts.diff(ts.parse(mp), ts.parse(rec.get("params", "N")), values=False)
        dsx = ts.diff(ts.parse(ms), ts.parse(rec.get("static", "N")), values=False)
        if dp:
            problems.append(f"params half handed to the loss differs from the model's at {dp[0]}: {dp[1]}")
        if dsx:
            problems.append(f"static half handed to the loss differs from the model's at {dsx[0]}: {dsx[1]}")
        df = ts.diff(ts.parse(mfit), ts.parse(sout), rtol=0.0)
        if df:
            problems.append(f"returned pytree differs from the model's fit at {df[0]}: {df[1]}")
        if fr or problems:
            u.disagreements += bool(problems)
            ctx.violation(sig=f"loops:{loop}:{'frozen-moved' if fr else 'model-mismatch'}", what="; ".join(([fr] if fr else []) + problems)[:600],
                          case=case, found_input=bool(fr), unit=u.name, expected=mfit[:300], observed=sout[:300],
                          broken="correspondence loops / C12_training_preserves_static",
                          reproducer="cd /verif && ./check C12 --replay <this file>")
        if len(u.hashes) % 15 == 1:
            ctx.sample({"unit": "loops", "loop": loop, "steps": steps, "term": sx[:200], "returned": sout[:200]})


# ======================================================================================================
# real models: frozen subsets through real training runs, zero gradients, methods, conditioners
# ======================================================================================================
def _models():
    """name -> (constructor(key) of a real distribution, kind)"""
    s = _setup()
    jnp, jr = s["jnp"], s["jr"]
    from flowjax import bijections as bij
    from flowjax import distributions as dist
    from flowjax import flows

    def normal(key):
        return dist.Normal(jnp.array([0.5, -0.25]), jnp.array([1.5, 0.75]))

    def affine_t(key):
        return dist.Transformed(dist.StudentT(jnp.array([3.0, 4.0])), bij.Affine(jnp.array([0.25, 0.5]), jnp.array([2.0, 0.5])))

    def maf(key):
        return flows.masked_autoregressive_flow(key, base_dist=dist.Normal(jnp.zeros(2)), flow_layers=1, nn_width=3, nn_depth=1)

    def coupling(key):
        return flows.coupling_flow(key, base_dist=dist.Normal(jnp.zeros(2)), flow_layers=1, nn_width=3, nn_depth=1)

    def spline(key):
        return dist.Transformed(dist.Normal(jnp.zeros(2)), bij.Vmap(bij.RationalQuadraticSpline(knots=3, interval=2), axis_size=2))

    def bnaf(key):
        return flows.block_neural_autoregressive_flow(key, base_dist=dist.Normal(jnp.zeros(2)), nn_depth=1, nn_block_dim=2, flow_layers=1)

    def tri(key):
        return flows.triangular_spline_flow(key, base_dist=dist.Normal(jnp.zeros(2)), flow_layers=1, knots=3)

    return {"normal": normal, "affine-studentt": affine_t, "maf": maf, "coupling": coupling, "spline": spline, "bnaf": bnaf, "tri-spline": tri}


def _get_at(tree, path):
    s = _setup()
    jtu = s["jtu"]
    for k in path:
        if isinstance(k, jtu.GetAttrKey):
            tree = getattr(tree, k.name)
        elif isinstance(k, jtu.SequenceKey):
            tree = tree[k.idx]
        elif isinstance(k, jtu.DictKey):
            tree = tree[k.key]
        elif isinstance(k, jtu.FlattenedIndexKey):
            tree = s["eqx"].tree_flatten_one_level(tree)[0][k.key]
        else:
            raise ValueError(k)
    return tree


def freeze_random(r, model, k, perturb=True):
    """Freeze k random nodes: inexact array leaves (possibly inside wrappers), whole wrappers, or whole sub-modules.
    Returns (model with NonTrainable nodes, list of key-path strings)."""
    s = _setup()
    eqx, jtu, w = s["eqx"], s["jtu"], s["wrappers"]
    chosen = []
    for _ in range(k):
        is_nt = lambda x: isinstance(x, w.NonTrainable)
        mode = int(r.integers(0, 3))
        if mode == 0:  # an inexact array leaf anywhere (inside wrappers too)
            cands = [p for p, l in jtu.tree_flatten_with_path(model, is_leaf=is_nt)[0] if eqx.is_inexact_array(l)]
        elif mode == 1:  # a whole wrapper node
            leaf = lambda x: isinstance(x, w.AbstractUnwrappable)
            cands = [p for p, l in jtu.tree_flatten_with_path(model, is_leaf=leaf)[0] if isinstance(l, w.AbstractUnwrappable) and not is_nt(l)]
        else:  # a whole sub-module (bijection / distribution / nn layer) with at least one float leaf
            leaf = lambda x: is_nt(x) or (isinstance(x, eqx.Module) and x is not model and not isinstance(x, w.AbstractUnwrappable))
            cands = [p for p, l in jtu.tree_flatten_with_path(model, is_leaf=leaf)[0]
                     if isinstance(l, eqx.Module) and not is_nt(l) and any(eqx.is_inexact_array(q) for q in jtu.tree_leaves(l))]
        cands = [p for p in cands if len(p) > 0]
        if not cands:
            continue
        p = cands[int(r.integers(0, len(cands)))]
        try:
            if mode != 0 and int(r.integers(0, 4)) == 0:
                model = eqx.tree_at(lambda t: _get_at(t, p), model, replace_fn=w.non_trainable)
            else:
                model = eqx.tree_at(lambda t: _get_at(t, p), model, replace_fn=w.NonTrainable)
            chosen.append(jtu.keystr(p))
        except Exception:
            continue
    return model, chosen


def perturb_trainable(r, model, scale=0.3):
    s = _setup()
    eqx, jtu, jnp, w = s["eqx"], s["jtu"], s["jnp"], s["wrappers"]
    params, static = eqx.partition(model, eqx.is_inexact_array, is_leaf=lambda l: isinstance(l, w.NonTrainable))
    leaves, td = jtu.tree_flatten(params)
    leaves = [l + scale * jnp.asarray(r.standard_normal(l.shape)) for l in leaves]
    return eqx.combine(jtu.tree_unflatten(td, leaves), static)


def real_frozen_check(before, after):
    """Model-independent oracle on two real pytrees (isinstance walk): NonTrainable subtrees and non-float leaves identical."""
    s = _setup()
    eqx, jtu, w = s["eqx"], s["jtu"], s["wrappers"]
    is_nt = lambda x: isinstance(x, w.NonTrainable)
    a = jtu.tree_flatten_with_path(before, is_leaf=is_nt)[0]
    b = dict((jtu.keystr(p), l) for p, l in jtu.tree_flatten_with_path(after, is_leaf=is_nt)[0])
    moved = 0
    for p, l in a:
        k = jtu.keystr(p)
        m = b.get(k)
        if is_nt(l):
            if not is_nt(m):
                return f"NonTrainable node at {k} is no longer a NonTrainable", moved
            for (q, x), y in zip(jtu.tree_flatten_with_path(l)[0], jtu.tree_leaves(m)):
                if eqx.is_array(x):
                    if not (np.asarray(x).tobytes() == np.asarray(y).tobytes()):
                        i = int(np.argmax(np.asarray(x).ravel() != np.asarray(y).ravel()))
                        return (f"frozen leaf {k}{jtu.keystr(q)} changed: element {i} {np.asarray(x).ravel()[i]!r} -> "
                                f"{np.asarray(y).ravel()[i]!r}"), moved
                elif x is not y and x != y:
                    return f"frozen non-array leaf {k}{jtu.keystr(q)} changed", moved
        elif eqx.is_inexact_array(l):
            moved += int(np.asarray(l).tobytes() != np.asarray(m).tobytes())
        elif eqx.is_array(l):
            if np.asarray(l).tobytes() != np.asarray(m).tobytes():
                return f"non-floating-point leaf {k} (dtype {l.dtype}) changed", moved
        else:
            if not (l is m or l == m):
                return f"non-array leaf {k} changed: {l!r} -> {m!r}", moved
    return None, moved


def zero_grad_check(model, loss):
    s = _setup()
    eqx, jtu, w = s["eqx"], s["jtu"], s["wrappers"]
    g = eqx.filter_grad(loss)(model)
    is_nt = lambda x: isinstance(x, w.NonTrainable)
    gm = dict((jtu.keystr(p), l) for p, l in jtu.tree_flatten_with_path(g, is_leaf=is_nt)[0])
    nz = 0
    for p, l in jtu.tree_flatten_with_path(model, is_leaf=is_nt)[0]:
        k = jtu.keystr(p)
        if is_nt(l):
            gl = gm.get(k)
            for (q, x) in jtu.tree_flatten_with_path(gl)[0] if gl is not None else []:
                if x is not None and eqx.is_array(x) and np.any(np.asarray(x) != 0):
                    return f"frozen leaf {k}{jtu.keystr(q)} receives a non-zero gradient (max |g| = {float(np.max(np.abs(np.asarray(x))))!r})", nz
        elif eqx.is_inexact_array(l):
            gl = gm.get(k)
            nz += int(gl is not None and np.any(np.asarray(gl) != 0))
    return None, nz


def _optimizers():
    s = _setup()
    optax = s["optax"]
    return {"sgd": lambda: optax.sgd(0.05), "adam": lambda: optax.adam(1e-2), "adamw": lambda: optax.adamw(1e-2, weight_decay=0.1),
            "shift": _shift_opt}


def run_training_case(c):
    """c: dict(model, seed, nfreeze, opt, loop, steps) -> (error or None, info)."""
    s = _setup()
    jnp, jr, eqx = s["jnp"], s["jr"], s["eqx"]
    from flowjax.train.losses import ElboLoss, MaximumLikelihoodLoss

    r = np.random.default_rng(c["seed"])
    model = _models()[c["model"]](jr.PRNGKey(c["seed"] % 1000))
    model = perturb_trainable(r, model, 0.2)
    model, chosen = freeze_random(r, model, c["nfreeze"])
    x = jnp.asarray(r.standard_normal((8, 2)))
    opt = _optimizers()[c["opt"]]()
    err, nz = zero_grad_check(model, lambda d: -d.log_prob(x).mean())
    if err:
        return err, {"frozen": chosen}
    if c["loop"] == "data":
        # 6 training rows, batch 3 -> 2 steps per epoch
        epochs = max(1, c["steps"] // 2)
        out, _ = s["fit_to_data"](jr.PRNGKey(1), model, x, max_epochs=epochs, max_patience=100, batch_size=3, val_prop=0.25, optimizer=opt,
                                  return_best=bool(c["seed"] % 2), show_progress=False)
    else:
        loss = ElboLoss(lambda z: -0.5 * jnp.sum((z - 1.0) ** 2), 4)
        out, _ = s["fit_var"](jr.PRNGKey(1), model, loss, steps=c["steps"], optimizer=opt, return_best=bool(c["seed"] % 2), show_progress=False)
    err, moved = real_frozen_check(model, out)
    return err, {"frozen": chosen, "moved": moved, "nonzero_grads": nz, "before": model, "after": out}


def unit_training(ctx, n):
    s = _setup()
    u = ctx.unit("training-oracle", "real fit_to_data / fit_to_variational_target runs on real models (Normal, Transformed StudentT, MAF, coupling, "
                                    "spline, BNAF, triangular-spline flows) with random frozen subsets (array leaves inside wrappers, whole wrappers, "
                                    "whole sub-modules, non_trainable), optimisers sgd / adam / adamw(weight decay) / constant shift, 1-20 steps: "
                                    "frozen and non-float leaves bit-identical, frozen gradients exactly 0, trainable leaves = the model's "
                                    "partition; non-trivial = at least one node frozen and at least one trainable leaf moved")
    r = ctx.rng
    names = list(_models())
    reqs, cases = [], []
    for i in range(n):
        m = names[i % len(names)] if i < 2 * len(names) else names[int(r.integers(0, len(names)))]
        if m in ("bnaf", "tri-spline") and ctx.quick and i >= len(names):
            m = "maf"
        c = dict(model=m, seed=int(r.integers(0, 2**31 - 1)), nfreeze=int(r.integers(1, 4)),
                 opt=["adamw", "shift", "sgd", "adam"][i % 4] if i < 8 else ["adamw", "shift", "sgd", "adam"][int(r.integers(0, 4))],
                 loop=["data", "var"][int(r.integers(0, 2))], steps=int(r.integers(1, 21)))
        if c["model"] in ("spline", "tri-spline", "bnaf") and c["loop"] == "var":
            c["loop"] = "data"  # sampling through a numerically inverted / spline-inverse layer is slow; the partition code path is the same
        cases.append(c)
    for ci, c in enumerate(cases):
        _gc(ci, 6)
        try:
            err, info = run_training_case(c)
        except Exception as e:
            ctx.notes.append(f"training-oracle: case {c} raised {type(e).__name__}: {str(e)[:150]}")
            continue
        u.count(c, nontrivial=bool(info.get("frozen")) and info.get("moved", 0) > 0, tag=f"{c['model']},{c['opt']},{c['loop']}")
        if err:
            ctx.violation(sig=f"training:{c['loop']}:{err.split(' ')[0]}", what=f"{err} [model {c['model']}, optimiser {c['opt']}, {c['steps']} steps, frozen {info.get('frozen')}]",
                          case={"kind": "training", **c}, found_input=True, unit=u.name, expected="frozen and non-float leaves bit-identical; zero gradient",
                          observed=err, broken="C12_training_preserves_static / C12_frozen_leaf_unchanged",
                          reproducer="cd /verif && ./check C12 --replay <this file>")
            continue
        # tie: the leaves the model calls trainable are exactly those that may move; with weight decay / shift every one of them does
        before, after = info["before"], info["after"]
        sb, sa = ts.ser(before), ts.ser(after)
        mpart = ctx.model(["part " + sb])[0]
        mp = ts.parse(mpart.split(" | ")[0])
        model_trainable = set(p for p, l in ts.leaf_paths(mp))
        pb, pa = dict(ts.leaf_paths(ts.parse(sb))), dict(ts.leaf_paths(ts.parse(sa)))
        moved = set(p for p, l in pb.items() if ts.diff(l, pa.get(p, ("N",)), rtol=0.0))
        extra = moved - model_trainable
        missing = set()
        if c["opt"] in ("adamw", "shift") and not c["seed"] % 2:  # with return_best (odd seeds) the initial parameters may be returned
            missing = set(p for p in model_trainable - moved if any(v != 0 for v in (pb[p][3] or [])))
        if extra or missing:
            u.disagreements += 1
            ctx.violation(sig=f"training:partition-mismatch:{c['loop']}", what=f"leaves that moved but are static in the model: {sorted(extra)[:3]}; trainable in the model "
                          f"but unchanged under {c['opt']}: {sorted(missing)[:3]} [model {c['model']}, frozen {info['frozen']}]",
                          case={"kind": "training", **c}, found_input=False, unit=u.name, broken="correspondence partition (real models)")
        if len(u.hashes) % 8 == 1:
            ctx.sample({"unit": "training-oracle", **c, "frozen": info["frozen"], "moved_leaves": info["moved"]})


def unit_methods(ctx, n):
    s = _setup()
    jnp, jr, w = s["jnp"], s["jr"], s["wrappers"]
    u = ctx.unit("methods", "bijection methods (transform, inverse, *_and_log_det) and distribution methods (log_prob, sample, sample_and_log_prob) "
                            "of real models with random frozen subsets: object as constructed vs unwrap(object), bit for bit")
    names = list(_models())
    r = ctx.rng
    for i in range(n):
        _gc(i, 7)
        m = names[i % len(names)]
        seed = int(r.integers(0, 2**31 - 1))
        rr = np.random.default_rng(seed)
        model = perturb_trainable(rr, _models()[m](jr.PRNGKey(seed % 1000)), 0.3)
        model, chosen = freeze_random(rr, model, int(rr.integers(0, 3)))
        un = w.unwrap(model)
        x = jnp.asarray(rr.standard_normal((2,)))
        key = jr.PRNGKey(seed % 77)
        outs = []
        calls = [("log_prob", lambda d: d.log_prob(x)), ("sample", lambda d: d.sample(key)), ("sample_and_log_prob", lambda d: d.sample_and_log_prob(key))]
        b0 = getattr(model, "bijection", None)
        if b0 is not None and not isinstance(b0, w.AbstractUnwrappable) and m not in ("bnaf",):
            calls += [("bijection.transform_and_log_det", lambda d: d.bijection.transform_and_log_det(x)),
                      ("bijection.transform", lambda d: d.bijection.transform(x))]
            if m not in ("tri-spline",):
                calls += [("bijection.inverse_and_log_det", lambda d: d.bijection.inverse_and_log_det(x)), ("bijection.inverse", lambda d: d.bijection.inverse(x))]
        if m in ("bnaf", "tri-spline"):
            calls = calls[:1] if m == "bnaf" else calls
        for name, f in calls:
            try:
                a, b = f(model), f(un)
            except NotImplementedError:
                continue
            u.count((m, seed, name), nontrivial=bool(chosen) or m != "normal", tag=f"{m}.{name}")
            fa, fb = ts.ser(a), ts.ser(b)
            if fa != fb:
                d = ts.diff(ts.parse(fa), ts.parse(fb), rtol=0.0)
                ctx.violation(sig=f"methods:{m}:{name}", what=f"{name} on the wrapped object differs from {name} on unwrap(object): {d} [frozen {chosen}]",
                              case={"kind": "methods", "model": m, "seed": seed, "method": name}, found_input=True, unit=u.name, expected=fb[:200], observed=fa[:200],
                              broken="C12_method_unwrap_invariant", reproducer="cd /verif && ./check C12 --replay <this file>")


def unit_conditioner(ctx, n):
    """Coupling / MaskedAutoregressive with transformers whose parameters are partly frozen: conditioner output size and the
    constructed transformer."""
    s = _setup()
    jnp, jr, w, eqx, jtu = s["jnp"], s["jr"], s["wrappers"], s["eqx"], s["jtu"]
    from flowjax import bijections as bij

    u = ctx.unit("conditioner", "Coupling / MaskedAutoregressive over transformers with random frozen parts: conditioner output size = "
                                "(trainable inexact scalars per the model) x dim; frozen leaves of the constructed transformer equal the original's")
    r = ctx.rng
    for i in range(n):
        _gc(i, 20)
        seed = int(r.integers(0, 2**31 - 1))
        rr = np.random.default_rng(seed)
        kind = int(rr.integers(0, 3))
        if kind == 0:
            tr = bij.Affine(jnp.asarray(0.25), jnp.asarray(1.5))
        elif kind == 1:
            tr = bij.RationalQuadraticSpline(knots=3, interval=2)
        else:
            tr = bij.Chain([bij.Affine(jnp.asarray(-0.5), jnp.asarray(0.75)), bij.Loc(jnp.asarray(0.5))])
        tr, chosen = freeze_random(rr, tr, int(rr.integers(0, 3)))
        stx = ts.ser(tr)
        mc = int(ctx.model(["count " + stx])[0].split()[0])
        dim = 3
        cls = ["coupling", "maf"][int(rr.integers(0, 2))]
        try:
            if cls == "coupling":
                layer = bij.Coupling(jr.PRNGKey(seed % 1000), transformer=tr, untransformed_dim=1, dim=dim, nn_width=4, nn_depth=1)
                out_size, tdim = layer.conditioner.out_size, dim - 1
            else:
                layer = bij.MaskedAutoregressive(jr.PRNGKey(seed % 1000), transformer=tr, dim=dim, nn_width=4, nn_depth=1)
                out_size, tdim = layer.masked_autoregressive_mlp.out_size, dim
        except Exception as e:
            if mc == 0:
                continue  # a fully frozen transformer has nothing to parameterise
            raise
        u.count((kind, cls, tuple(chosen), seed), nontrivial=bool(chosen), tag=f"{cls},frozen={len(chosen)}")
        errs = []
        if out_size != mc * tdim:
            errs.append(f"conditioner output size {out_size} != {mc} trainable scalars x {tdim} dims")
        vt = layer._flat_params_to_transformer(jnp.asarray(rr.standard_normal(out_size)))
        is_nt = lambda x: isinstance(x, w.NonTrainable)
        orig = dict((jtu.keystr(p), l) for p, l in jtu.tree_flatten_with_path(tr, is_leaf=is_nt)[0])
        for p, l in jtu.tree_flatten_with_path(vt.bijection, is_leaf=is_nt)[0]:
            o = orig.get(jtu.keystr(p))
            if is_nt(l):
                for x, y in zip(jtu.tree_leaves(l), jtu.tree_leaves(o)):
                    if eqx.is_array(x) and not all(np.array_equal(np.asarray(x)[j], np.asarray(y)) for j in range(tdim)):
                        errs.append(f"frozen leaf {jtu.keystr(p)} of the constructed transformer differs from the original")
        if errs:
            ctx.violation(sig=f"conditioner:{cls}:{errs[0].split(' ')[0]}", what="; ".join(errs)[:500] + f" [frozen {chosen}]",
                          case={"kind": "conditioner", "seed": seed}, found_input=True, unit=u.name, expected=mc * tdim, observed=out_size,
                          broken="C12_conditioner_excludes_frozen", reproducer="cd /verif && ./check C12 --replay <this file>")


def frozen_submodule_case(mode):
    """NonTrainable around a WHOLE module whose non-static `shape` field holds python ints (finding fixed by 16c42ed:
    stop_gradient used to be applied to those ints, which become tracers under jit).  -> error string or None."""
    s = _setup()
    jnp, jr, eqx, w = s["jnp"], s["jr"], s["eqx"], s["wrappers"]
    from flowjax import bijections as bij
    from flowjax import distributions as dist
    from flowjax.train.losses import ElboLoss

    loc, scale = jnp.array([0.5, -0.25]), jnp.array([1.5, 0.75])
    x = jnp.array([0.25, 1.0])
    try:
        if mode in ("eager", "unwrap-first", "jit"):
            d = eqx.tree_at(lambda d: d.bijection, dist.Normal(loc, scale), replace_fn=w.NonTrainable)
            ref = dist.Normal(loc, scale).log_prob(x)
            f = {"eager": lambda: d.log_prob(x), "unwrap-first": lambda: w.unwrap(d).log_prob(x),
                 "jit": lambda: eqx.filter_jit(lambda m, y: m.log_prob(y))(d, x)}[mode]
            v = f()
            return None if float(v) == float(ref) else f"log_prob {float(v)!r} != {float(ref)!r}"
        # training with a frozen non-() subtree: must run; frozen leaves bit-identical; the rest trains
        flow = dist.Transformed(dist.Normal(loc, scale), bij.Affine(jnp.array([0.25, 0.5]), jnp.array([2.0, 0.5])))
        where = {"fit_to_data:base": lambda t: t.base_dist, "fit_to_data:bijection": lambda t: t.bijection,
                 "fit_to_variational_target:base": lambda t: t.base_dist, "fit_to_variational_target:inner": lambda t: t.base_dist.bijection}[mode]
        flow = eqx.tree_at(where, flow, replace_fn=w.NonTrainable)
        opt = s["optax"].adamw(1e-2, weight_decay=0.1)
        if mode.startswith("fit_to_data"):
            data = jnp.asarray(np.random.default_rng(0).standard_normal((8, 2)))
            out, _ = s["fit_to_data"](jr.PRNGKey(0), flow, data, max_epochs=2, batch_size=3, val_prop=0.25, optimizer=opt, return_best=False, show_progress=False)
        else:
            out, _ = s["fit_var"](jr.PRNGKey(0), flow, ElboLoss(lambda z: -0.5 * jnp.sum((z - 1.0) ** 2), 4), steps=3, optimizer=opt, return_best=False, show_progress=False)
        err, moved = real_frozen_check(flow, out)
        if err:
            return err
        return None if moved > 0 else "no trainable leaf moved"
    except Exception as e:
        return f"raises {type(e).__name__}: {str(e)[:120]}"


FROZEN_SUBMODULE_MODES = ["eager", "unwrap-first", "jit", "fit_to_data:base", "fit_to_data:bijection", "fit_to_variational_target:base",
                          "fit_to_variational_target:inner"]


def unit_frozen_submodule(ctx):
    u = ctx.unit("frozen-submodule", "NonTrainable around a whole sub-module of shape (2,) (python ints in its non-static shape field): log_prob eager = "
                                     "jitted = on unwrap(object); both training loops run, leave the frozen subtree bit-identical and train the rest")
    for mode in FROZEN_SUBMODULE_MODES:
        u.count(mode, nontrivial=True, tag=mode.split(":")[0])
        err = frozen_submodule_case(mode)
        if err:
            ctx.violation(sig="frozen-submodule:" + mode.split(":")[0], what=f"NonTrainable(<sub-module of shape (2,)>), {mode}: {err}",
                          case={"kind": "frozen-submodule", "mode": mode}, found_input=True, unit=u.name, expected="runs; same value; frozen leaves unchanged",
                          observed=err, broken="C12_method_unwrap_invariant / C12_training_preserves_static on the real code",
                          reproducer="cd /verif && ./check C12 --replay <this file>")


def vmapped_where_mixed_rank_case():
    """Where constructed under eqx.filter_vmap from operands of different rank (finding fixed by e8ef053: Where had no _dummy, so
    the batch axis of the lower-rank operand was broadcast against a data axis).  -> error string or None."""
    s = _setup()
    jnp, eqx, w = s["jnp"], s["eqx"], s["wrappers"]

    def mk(c, a):
        return w.Where(c, a, 0.0)

    c = jnp.array([[True, False, True], [False, False, True]])
    a = jnp.arange(1.0, 13.0).reshape(2, 2, 3)
    try:
        u = w.unwrap(eqx.filter_vmap(mk)(c, a))
    except Exception as e:
        return f"raises {type(e).__name__}: {str(e)[:100]}"
    ind = jnp.stack([w.unwrap(mk(c[i], a[i])) for i in range(2)])
    if u.shape != ind.shape or not bool(jnp.array_equal(u, ind)):
        return (f"unwrap(filter_vmap(Where)(cond[2,3], value[2,2,3])) = {np.asarray(u).tolist()} differs from the stack of the "
                f"individually constructed ones {np.asarray(ind).tolist()}")
    return None


def unit_vmapped_where(ctx, n):
    """Where under 1-2 levels of filter_vmap with operands of DIFFERENT rank: the fixed repro, then generated cases through the
    ordinary vmapped unit (model + oracle 'unwrap(vmapped) = stack of unwrap(individual)')."""
    u = ctx.unit("vmapped-where-mixed-rank", "Where constructed under 1-2 levels of eqx.filter_vmap with operands of different rank: unwrap vs the model and "
                                             "vs the stack of the individually constructed ones")
    u.count("repro", nontrivial=True, tag="repro")
    err = vmapped_where_mixed_rank_case()
    if err:
        ctx.violation(sig="vmapped-where:mixed-rank", what=err, case={"kind": "vmapped-where"}, found_input=True, unit=u.name,
                      expected="= stack of individually constructed", observed=err, broken="C12_unwrap_vmapped on the real code (oracle)",
                      reproducer="cd /verif && ./check C12 --replay <this file>")
    r = ctx.rng
    specs = []
    for _ in range(n):
        sh = SHAPES[int(r.integers(3, len(SHAPES)))]
        t = g_where_mixed(r, sh)
        if r.random() < 0.4:  # nested: the mixed-rank Where inside another wrapper / with a wrapped operand
            t = {"w": "LA", "fn": "fn:add1", "args": [t]} if r.random() < 0.5 else {"w": "WH", "c": [t["c"][0], {"w": "NT", "c": [t["c"][1]]}, t["c"][2]]}
        specs.append(g_vmapped(r, int(r.integers(1, 3)), 2, template=t))
    unit_unwrap(ctx, specs, "vmapped-where-mixed-rank", u.what, vmapped=True)


def note_lambda_returning_wrapper(ctx):
    """Replay of C12_idempotent_without_clean_refuted on the real code (a boundary of the claim, not a violation)."""
    s = _setup()
    jnp, w = s["jnp"], s["wrappers"]
    t = w.Lambda(lambda x: w.NonTrainable(x), jnp.ones(2))
    u1 = w.unwrap(t)
    u2 = w.unwrap(u1)
    ctx.notes.append("boundary (theorem C12_idempotent_without_clean_refuted replayed): Lambda(lambda x: NonTrainable(x), a) unwraps to "
                     f"{type(u1).__name__}, a second unwrap gives {type(u2).__name__}: idempotence needs wrapper-free .unwrap() results")


# ======================================================================================================
def _guard(ctx, name, f, *a, **kw):
    """A unit that crashes (possible only when the implementation misbehaves) is reported and the other units still run."""
    import traceback

    try:
        f(ctx, *a, **kw)
    except Exception:
        tb = traceback.format_exc()
        ctx.violation(sig=f"unit-crash:{name}", what=f"unit {name} could not run to completion: {tb[-400:]}", case={"kind": "unit-crash", "unit": name, "traceback": tb},
                      found_input=False, unit=name, broken=f"correspondence unit {name}")


def run(ctx):
    _setup()
    r = ctx.rng
    q = ctx.quick
    n_tree = 140 if q else 1500
    specs = [g_tree(r, int(r.integers(1, 4)), int(r.integers(1, 5))) for _ in range(n_tree)]
    # the nesting the property names: reparameterisation inside masking inside weight-norm inside NonTrainable
    for _ in range(10 if q else 100):
        inner = {"w": "LA", "fn": "fn:add1", "args": [g_arr(r, [2, 3])]}
        wh = {"w": "WH", "c": [g_arr(r, [2, 3], "B"), {"w": "BR", "c": [inner], "bij": {"b": "SoftPlus", "shape": []}}, g_py(r, "PI")]}
        specs.append({"t": "dict", "keys": ["k"], "c": [{"w": "NT", "c": [{"t": "mod", "c": [{"w": "WN", "c": [wh]}, g_leaf(r)]}]}]})
    _guard(ctx, "unwrap-tree", unit_unwrap, specs, "unwrap-tree",
           "random pytrees (tuples/lists/dicts/eqx.Modules, depth 1-3) of nested wrappers (depth 1-4): wrappers.unwrap vs "
           "Tree.unwrap_num -- structure/kinds/shapes exact, values bit-for-bit (1e-12 when exp/softplus/tanh/sqrt/division occur), call "
           "trace vs Tree.unwrap_trace_num; non-trivial = at least 2 wrappers, nested at least 2 deep")
    vspecs = [g_vmapped(r, int(r.integers(1, 3)), int(r.integers(1, 4))) for _ in range(50 if q else 420)]
    vspecs = [{"t": "tuple", "c": [v, g_leaf(r)]} if i % 3 == 0 else v for i, v in enumerate(vspecs)]
    _guard(ctx, "unwrap-vmapped", unit_unwrap, [v for v in vspecs if "vmap" in v], "unwrap-vmapped",
           "wrappers constructed under 1-2 levels of eqx.filter_vmap (batch sizes 1-3): unwrap vs the model's vectorised apply (slices "
           "along the axes recorded in _dummy, stacked); oracle: = stack of individually constructed", vmapped=True)
    _guard(ctx, "unwrap-vmapped-in-container", unit_unwrap, [v for v in vspecs if "vmap" not in v], "unwrap-vmapped-in-container", "the same, inside a tuple")
    _guard(ctx, "unwrap-malformed", unit_malformed, 12 if q else 120)
    _guard(ctx, "partition", unit_partition, specs[: (30 if q else 400)] + [g_mixed(r, int(r.integers(0, 3)), int(r.integers(1, 4))) for _ in range(40 if q else 500)])
    _guard(ctx, "loops", unit_loops, [g_mixed(r, int(r.integers(0, 2)), int(r.integers(1, 3))) for _ in range(16 if q else 140)])
    _guard(ctx, "methods", unit_methods, 7 if q else 42)
    _guard(ctx, "conditioner", unit_conditioner, 8 if q else 80)
    _guard(ctx, "training-oracle", unit_training, 12 if q else 130)
    _guard(ctx, "frozen-submodule", unit_frozen_submodule)
    _guard(ctx, "merge-keeps-marks", unit_merge_keeps_marks)
    _guard(ctx, "frozen-subclass", unit_nontrainable_subclass)
    _guard(ctx, "vmapped-where-mixed-rank", unit_vmapped_where, 10 if q else 120)
    note_lambda_returning_wrapper(ctx)
    ctx.assumptions += [
        "optimisers are functions of the params half that preserve its structure (optax updates + eqx.apply_updates)",
        ".unwrap() of a wrapper whose fields are wrapper-free returns a wrapper-free value (true of the five classes; for Lambda a condition on fn)",
        "the zero-gradient clause is proved in an abstract tangent model only (stop_gradient / JVP rules are hypotheses); checked on the real code by the oracle",
        "array values are compared bit-for-bit for + - * / where pipelines and to 1e-12 relative when exp/softplus/tanh/sqrt are involved; float rounding is not modelled",
    ]


def replay(ctx, rep):
    _setup()
    c = rep["case"]
    k = c.get("kind")
    if k == "unwrap":
        obj = ts.build(c["spec"])
        sx = ts.ser(obj)
        term = ts.parse(sx)
        try:
            errs, ru, su, calls = oracle_unwrap(obj, term)
        except Exception as e:
            mu = ctx.model(["unwrap " + sx])[0]
            print("unwrap raised", type(e).__name__, "model", mu[:80])
            return mu == "NONE"
        if "vmap" in c["spec"]:
            errs += oracle_vmapped(c["spec"], ru)
        mu, mt = ctx.model(["unwrap " + sx, "trace " + sx])
        d = ts.diff(ts.parse(mu[3:]), ts.parse(su), rtol=1e-12) if mu.startswith("OK") else ("model", mu)
        mc = model_trace_to_calls(mt[3:] if mt.startswith("OK") else "-", term)
        print("oracle", errs, "model-vs-real", d, "trace", calls, mc)
        return not errs and not d and mc == calls
    if k == "training":
        err, info = run_training_case(c)
        print("oracle", err, {kk: v for kk, v in info.items() if kk in ("frozen", "moved")})
        return err is None
    if k == "vmapped-where":
        err = vmapped_where_mixed_rank_case()
        print("oracle", err)
        return err is None
    if k == "frozen-submodule":
        err = frozen_submodule_case(c["mode"])
        print("oracle", err)
        return err is None
    if k in ("partition", "loops", "methods", "conditioner"):
        sub = common_subctx(ctx)
        if k == "partition":
            unit_partition(sub, [c["spec"]])
        elif k == "loops":
            unit_loops(sub, [c["spec"]])
        elif k == "methods":
            unit_methods(sub, 7)
        else:
            unit_conditioner(sub, 8)
        for v in sub.violations:
            print("still failing:", v["what"][:300])
        return not sub.violations
    print("obligation replay: rebuild and re-check", c)
    return False


def common_subctx(ctx):
    from harness import common

    sub = common.Ctx(ctx.prop, ctx.tier, ctx.seed)
    sub.groups = ctx.groups

    def no_write(**kw):  # do not write replay files while replaying
        sub.violations.append({"sig": kw["sig"], "what": kw["what"], "found_input": kw["found_input"], "count": 1, "path": "-"})

    sub.violation = no_write
    return sub
