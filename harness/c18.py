"""C18 -- finite log-probabilities have finite gradients; log_prob is never NaN.

Proof side (coq/Props/C18.v): a deep embedding of the scalar leaf formulas (Model/Expr.v) with value semantics [eval],
reverse-mode derivative [vjp] built from JAX's per-primitive adjoint rules (shared values are let-bound as in the code), the
predicate [Safe]; the meta-theorem Safe => finite value and finite adjoints in option-R arithmetic (None = inf/NaN, absorbing);
Safe of every leaf formula and of the complete log_prob terms at every real input; refutations of the formulas before the
repairs D1/D2/D9; where(isnan) never NaN.

Tie (this file): the SAME extracted [eval]/[vjp] run in IEEE doubles (ocaml/bin/safe) next to the real flowjax code:
  adjoint-selftest   every adjoint rule alone vs jax.vjp of the single primitive on special values;
  leaf-logprob-tie   Transformed(StandardNormal | Normal, leaf | Invert(leaf)).log_prob and jax.grad of it vs the model's
                     value and d/dx (and d/d unwrapped field) on the boundary-directed input set the model enumerates
                     ([crit]): values 1e-9 rel, inf/NaN classes must agree both ways;
  method-tie         the term of every bijection method alone (transform, inverse, both log-dets, spline derivative);
  chain-tie          the composed term lp_chain vs Transformed(Normal, [Invert] Chain[2-4 layers of Affine/LeakyTanh/spline]);
  value-classes      the where(isnan, -inf) post-processing on the four classes Fin/+inf/-inf/NaN.
Search oracle (the property itself, implementation only): wherever log_prob is finite, jax.grad w.r.t. x and the gradient
w.r.t. every inexact leaf are finite; log_prob is never NaN -- on the leaf set and on every flow factory.
"""

import math
import os

import numpy as np

from harness.common import REPO, fhex, fparse, hexlist

PROPERTY = "C18"
GROUPS = ["safe"]
MANIFEST = {
    "design_ref": "DESIGN.md 4.18",
    "technique": "Coq: deep embedding of the scalar leaf formulas with a reverse-mode derivative made of JAX's adjoint rules; meta-theorem "
                 "Safe => finite value and adjoints (option R), Safe proved per formula for all reals; extracted eval/vjp run in IEEE doubles "
                 "against jax.grad of the real log_prob (finiteness compared both ways) + the property's oracle on all flow factories",
    "text": "Theorems over the reals about terms of a small expression language that evaluate (definitionally, for every NumOps) to the "
            "shallow leaf models of coq/Model/Leaves.v: (1) once and for all, if every partial primitive of a term -- in EVERY branch of every "
            "where, selected or not -- is applied strictly inside its smooth domain (Safe), then the value and every adjoint computed by JAX's "
            "reverse-mode rules are finite in a semantics where inf/NaN is explicit and absorbing (0*None = None, the jnp.where pitfall); "
            "(2) Safe holds for LeakyTanh transform/inverse/log-dets, the spline's transform/derivative/inverse (clipped bin index, "
            "interval[0] substitution; any interval, containing 0 or not), SoftPlus.inverse (y > 0), Exp, Affine, _tanh_log_grad and for the complete log_prob terms of "
            "Transformed(StandardNormal, leaf) in both orientations, for ALL real inputs and ALL valid parameters; (3) the formulas before the "
            "repairs D1/D2/D9 are refuted (not Safe: finite value with gradient None / negative discriminant); (4) where(isnan,-inf) never yields NaN. The same eval/vjp, extracted "
            "and run in IEEE doubles, reproduce jax.grad's finite/inf/NaN pattern of the real Transformed(...).log_prob on boundary-directed "
            "inputs (interval ends, every knot, +-max_val, +-tanh(max_val), +-1, 0, float neighbours, magnitudes to 1e4, nan/inf) both ways. "
            "The extracted terms also agree method by method (transform, inverse, log-dets, spline derivative) with jax.grad of the methods. "
            "COMPOSITIONS (coq/Props/X18_chain.v): the log_prob term of Transformed(base, [Invert] Chain[layers]) built as chain.py builds it "
            "(every intermediate point and log-det let-bound once) is Safe whenever each layer's parameters are valid and the running value meets "
            "the domain condition of the layer it enters (safe_compose); chains of Affine / LeakyTanh / spline layers (each possibly Invert) of ANY "
            "length and order need no domain condition: finite log_prob and finite gradients w.r.t. the input and every parameter of every layer; "
            "the extracted composed term is compared with real Transformed(Normal, Chain[2-4 random layers]) objects (unit chain-tie). "
            "PARTIAL: exact over R -- float overflow/underflow is not in the theorems (it is in the executed model); conditioner networks, "
            "BNAF log-space matrices and the array-level combinators (Vmap, Scan, Concatenate, ...) are covered by the property's own oracle only (all five factories, initial and perturbed "
            "parameters, dims 1-3), not by theorems.",
    "note": "Trusted: Coq kernel, axioms of Reals as printed by Print Assumptions, extraction (ExtrOcamlBasic), OCaml float primitives (libm), "
            "harness; the adjoint rules are transcribed by hand from jax/_src/lax/lax.py and checked on every run against jax.vjp of each "
            "primitive (unit adjoint-selftest). Theorems are about the model; the code is tied by sampled correspondence.",
}

TINY = 1e-300  # see neighbours()
NP = 192  # fixed batch length: op-by-op (un-jitted) evaluation caches one executable per primitive and shape
_L = {}


def L():
    if _L:
        return _L
    import equinox as eqx
    import jax
    import jax.numpy as jnp
    import jax.random as jr
    from flowjax import bijections as B
    from flowjax import distributions as D
    from flowjax import flows as F
    from flowjax import wrappers as W

    _L.update(eqx=eqx, jax=jax, jnp=jnp, jr=jr, B=B, D=D, F=F, W=W)
    return _L


def cls(v):
    v = float(v)
    return "nan" if v != v else "+inf" if v == math.inf else "-inf" if v == -math.inf else "fin"


def close(a, b, rel):
    a, b = float(a), float(b)
    if cls(a) != cls(b):
        return False
    if cls(a) != "fin":
        return True
    return a == b or abs(a - b) <= rel * max(1.0, abs(b), abs(a))


# =============================================================== 1. adjoint rules alone vs jax.vjp
def prim_fns():
    l = L()
    jnp, jax = l["jnp"], l["jax"]
    return [
        ("add", lambda a, b, d: a + b), ("sub", lambda a, b, d: a - b), ("mul", lambda a, b, d: a * b),
        ("div", lambda a, b, d: a / b), ("neg", lambda a, b, d: -a), ("abs", lambda a, b, d: jnp.abs(a)),
        ("sign", lambda a, b, d: jnp.sign(a)), ("square", lambda a, b, d: a ** 2), ("exp", lambda a, b, d: jnp.exp(a)),
        ("log", lambda a, b, d: jnp.log(a)), ("tanh", lambda a, b, d: jnp.tanh(a)), ("arctanh", lambda a, b, d: jnp.arctanh(a)),
        ("softplus", lambda a, b, d: jax.nn.softplus(a)), ("log1p", lambda a, b, d: jnp.log1p(a)),
        ("expm1", lambda a, b, d: jnp.expm1(a)), ("sqrt", lambda a, b, d: jnp.sqrt(a)),
        ("where_le", lambda a, b, d: jnp.where(a <= b, a, d)), ("where_lt", lambda a, b, d: jnp.where(a < b, d, a)),
        ("clip", lambda a, b, d: jnp.clip(a, b, d)),
        ("where_between", lambda a, b, d: jnp.where(jnp.logical_and(a >= b, a <= d), a, 0)),
    ]


SPECIAL = [0.0, -0.0, 1.0, -1.0, 0.5, -0.5, 2.0, -2.0, 2.5e-308, 1e-300, -1e-300, 1e-8, 1 - 2 ** -53, -(1 - 2 ** -53), 1 + 2 ** -52,
           20.0, -20.0, 800.0, -800.0, 1e4, -1e4, 1e300, math.inf, -math.inf, math.nan]
SMALL = [0.0, 1.0, -1.0, 0.5, 2.0, -2.0, 1e-300, 1e300, math.inf, -math.inf, math.nan]
UNARY = {4, 5, 6, 7, 8, 9, 10, 11, 12, 13, 14, 15}


def selftest(ctx):
    l = L()
    jax, jnp = l["jax"], l["jnp"]
    u = ctx.unit("adjoint-selftest", "each adjoint rule of Model/Expr.vjp alone (extracted, IEEE doubles) vs jax.vjp of the single jnp/lax primitive "
                                     "on special values (0, -0, +-1, tiny, huge, +-inf, nan) x cotangents {1, 0, -2.5}; value and every adjoint "
                                     "must agree (1e-9 rel, inf/NaN by class); non-trivial = an operand or result is 0, inf or NaN")
    gs = [1.0, 0.0, -2.5]
    bad = []
    for k, (name, fn) in enumerate(prim_fns()):
        if k in UNARY:
            grid = [(a, 0.0, 0.0, g) for a in SPECIAL for g in gs]
        elif k in (0, 1, 2, 3, 16, 17):
            grid = [(a, b, 7.0, g) for a in SPECIAL for b in SMALL for g in gs]
        else:
            grid = [(a, b, d, g) for a in SPECIAL for (b, d) in [(-1.0, 1.0), (0.0, 2.0), (-2.0, 0.0), (1.0, 1.0), (1.0, -1.0), (-math.inf, 0.5)] for g in gs]
        arr = np.array(grid, dtype=float)

        def one(a, b, d, g, fn=fn):
            v, pull = jax.vjp(fn, a, b, d)
            return (v, *pull(g))

        out = jax.vmap(one)(*(jnp.asarray(arr[:, i]) for i in range(4)))
        out = [np.asarray(o, dtype=float) for o in out]
        model = ctx.model([f"prim {k} {fhex(a)} {fhex(b)} {fhex(d)} {fhex(g)}" for a, b, d, g in grid])
        for i, (case, line) in enumerate(zip(grid, model)):
            mv = [fparse(t) for t in line.split()]
            iv = [out[j][i] for j in range(4)]
            nt = any(cls(t) != "fin" or t == 0 for t in (*case[:3], *iv))
            u.count(("prim", name, *[fhex(c) for c in case]), nontrivial=nt, tag=name)
            ok = all(close(m, o, 1e-9) for m, o in zip(mv, iv))
            if not ok:
                u.disagreements += 1
                bad.append(dict(primitive=name, a=case[0], b=case[1], d=case[2], g=case[3], model=[fhex(t) for t in mv], jax=[fhex(t) for t in iv]))
    if bad:
        b0 = bad[0]
        ctx.violation(sig=f"selftest:{b0['primitive']}", what=f"adjoint rule of '{b0['primitive']}' in Model/Expr.vjp differs from jax.vjp at "
                      f"(a,b,d,g)=({b0['a']},{b0['b']},{b0['d']},{b0['g']}): model [value, d/da, d/db, d/dd] = {b0['model']}, jax = {b0['jax']} "
                      f"({len(bad)} cases) -- the transcription of JAX's rules is stale, not a flowjax defect",
                      case=dict(unit="adjoint-selftest", first=bad[:5]), found_input=False, unit=u.name, broken="unit adjoint-selftest (trusted transcription of jax's adjoint rules)")
    return not bad


# =============================================================== 2. leaves inside Transformed
def raw_spline(knots, interval, xr, yr, dr):
    l = L()
    eqx, jax, jnp, B = l["eqx"], l["jax"], l["jnp"], l["B"]
    o = B.RationalQuadraticSpline(knots=knots, interval=interval)
    params, static = eqx.partition(o, eqx.is_inexact_array)
    leaves, td = jax.tree_util.tree_flatten(params)
    assert len(leaves) == 3 and leaves[0].shape == (knots,) and leaves[2].shape == (knots + 2,)
    new = [leaves[0] + jnp.asarray(xr), leaves[1] + jnp.asarray(yr), leaves[2] + jnp.asarray(dr)]  # field order x_pos, y_pos, derivatives
    return eqx.combine(jax.tree_util.tree_unflatten(td, new), static)


def make_leaf(spec):
    l = L()
    B, jnp, eqx = l["B"], l["jnp"], l["eqx"]
    k = spec["kind"]
    if k == "leaky":
        return B.LeakyTanh(fparse(spec["max_val"]))
    if k == "rqs":
        iv = spec["interval"]
        iv = tuple(fparse(v) for v in iv) if isinstance(iv, list) else fparse(iv)
        f = lambda name: np.array([fparse(v) for v in spec[name]], dtype=float)
        return raw_spline(spec["knots"], iv, f("x_raw"), f("y_raw"), f("d_raw"))
    if k == "affine":
        loc, scale = fparse(spec["loc"]), fparse(spec["scale"])
        if scale > 0 and not spec.get("plain"):
            return B.Affine(loc, scale)
        return eqx.tree_at(lambda a: a.scale, B.Affine(loc, 1.0), jnp.asarray(scale))  # plain array: negative scales
    return {"tanh": B.Tanh, "softplus": B.SoftPlus, "exp": B.Exp}[k]()


def make_dist(ds):
    l = L()
    B, D = l["B"], l["D"]
    leaf = make_leaf(ds["leaf"])
    bij = B.Invert(leaf) if ds["inverted"] else leaf
    base = D.StandardNormal(()) if ds["base"] is None else D.Normal(fparse(ds["base"]["loc"]), fparse(ds["base"]["scale"]))
    return D.Transformed(base, bij)


def leaf_of(d):
    b = d.bijection
    return b.bijection if type(b).__name__ == "Invert" else b


def model_args(ds, ud):
    """(kind, scalars m,g,ic,lo,hi,loc,scale,bloc,bscale, xp, yp, dv) from the UNWRAPPED real object."""
    lf = leaf_of(ud)
    k = ds["leaf"]["kind"]
    sc = [0.0, 1.0, 0.0, 0.0, 0.0, 0.0, 1.0, 0.0, 1.0]
    xp = yp = dv = []
    if k == "leaky":
        sc[0:3] = [lf.max_val, lf.linear_grad, lf.intercept]
    elif k == "rqs":
        sc[3:5] = [lf.interval[0], lf.interval[1]]
        xp, yp, dv = (list(np.asarray(a, dtype=float)) for a in (lf.x_pos, lf.y_pos, lf.derivatives))
    elif k == "affine":
        sc[5:7] = [float(lf.loc), float(lf.scale)]
    if ds["base"] is not None:
        sc[7:9] = [float(ud.base_dist.bijection.loc), float(ud.base_dist.bijection.scale)]
    return k, [float(s) for s in sc], xp, yp, dv


def lp_request(mk, ds, sc, xp, yp, dv, x, pg):
    return f"lp {mk} {int(ds['inverted'])} {int(ds['base'] is not None)} {hexlist(sc)} {hexlist(xp)} {hexlist(yp)} {hexlist(dv)} {fhex(x)} {int(pg)}"


def pad(xs):
    xs = list(xs)
    assert len(xs) <= NP, len(xs)
    return np.array(xs + [0.25] * (NP - len(xs)), dtype=float)


def impl_fields(ud, xs):
    """op-by-op (no outer jit: no FMA contraction / fusion, bit-faithful to the eager code): value, d/dx and the gradient with
    respect to every inexact array of the UNWRAPPED distribution (x_pos, y_pos, derivatives, loc, scale)."""
    l = L()
    eqx, jax, jnp = l["eqx"], l["jax"], l["jnp"]
    params, static = eqx.partition(ud, eqx.is_inexact_array)

    def lp(p, x):
        return eqx.combine(p, static).log_prob(x)

    v, (gp, gx) = jax.vmap(jax.value_and_grad(lp, argnums=(0, 1)), in_axes=(None, 0))(params, jnp.asarray(pad(xs)))
    n = len(xs)
    return np.asarray(v, dtype=float)[:n], np.asarray(gx, dtype=float)[:n], gp


def impl_raw(dist, xs):
    """value, d/dx and, per input, whether every gradient w.r.t. the RAW (wrapped) inexact leaves is finite / free of NaN."""
    l = L()
    eqx, jax, jnp = l["eqx"], l["jax"], l["jnp"]
    params, static = eqx.partition(dist, eqx.is_inexact_array)

    def one(p, x):
        v, (gp, gx) = jax.value_and_grad(lambda p, x: eqx.combine(p, static).log_prob(x), argnums=(0, 1))(p, x)
        leaves = jax.tree_util.tree_leaves(gp)
        fin = jnp.array(True)
        for lf in leaves:
            fin = jnp.logical_and(fin, jnp.all(jnp.isfinite(lf)))
        return v, gx, fin

    v, gx, fin = jax.vmap(one, in_axes=(None, 0))(params, jnp.asarray(pad(xs)))
    n = len(xs)
    return np.asarray(v, dtype=float)[:n], np.asarray(gx, dtype=float)[:n], np.asarray(fin)[:n]


def neighbours(vals):
    out = []
    for v in vals:
        v = float(v)
        if v == 0:  # XLA on CPU flushes subnormals to zero (OCaml does not), and at the smallest normal numbers the TRUE gradient of a
            # log-normal-like density (|log x| / x ~ 3e310) exceeds the double range: +-1e-300 stand for the neighbours of 0
            out += [0.0, TINY, -TINY]
        elif math.isfinite(v):
            out += [v, float(np.nextafter(v, math.inf)), float(np.nextafter(v, -math.inf))]
    return out


def input_set(ctx, crit, lo, hi, n_rand):
    """boundary-directed inputs: every constant the term compares against (from the model's [crit]), negated, with float
    neighbours; 0, +-1; magnitudes to 1e4; random interior; nan, +-inf."""
    base = set()
    for c in crit:
        if math.isfinite(c):
            base.add(float(c))
            base.add(-float(c))
    base |= {0.0, 1.0, -1.0}
    pts = neighbours(sorted(base))
    pts += [1e-300, -1e-300, 1e-8, 0.3, -0.7, 2.5, -2.5, 10.0, -10.0, 19.5, -19.5, 37.5, 100.0, -100.0, 710.0, -710.0, 1e3, -1e3, 1e4, -1e4]
    pts += [float(v) for v in ctx.rng.uniform(lo, hi, n_rand)]
    pts += [float(v) for v in ctx.rng.normal(0, 3, max(2, n_rand // 3))]
    pts += [math.nan, math.inf, -math.inf]
    seen, out = set(), []
    for p in pts:
        key = fhex(p)
        if key not in seen:
            seen.add(key)
            out.append(p)
    return out


def leaf_specs(ctx):
    r = ctx.rng
    q = ctx.quick
    specs = []
    # 20 and 40: tanh(max_val) rounds to exactly 1.0 in float64 (seeded change C18d clipped y to +-tanh(max_val) before arctanh)
    for m in ([3.0, 0.7, 20.0] if q else [3.0, 0.7, 1.0, 5.0, 0.05, 12.0, 19.5, 20.0, 25.0, 40.0]):
        specs.append(dict(kind="leaky", max_val=fhex(m)))
    splines = [(4, 2.0, 0.0), (2, 2.0, 0.0)]  # initial parameters (identity map): the D1 witness lives here
    n_pert = 3 if q else 40
    for i in range(n_pert):
        knots = int(r.integers(1, 9))
        iv = [2.0, 1.0, [-1.5, 3.0], 5.0, [-4.0, 0.5], [0.0, 3.0], [-2.0, 0.0]][i % 7] if i >= 2 else [1.0, [-1.5, 3.0]][i]
        splines.append((knots, iv, [1.5, 0.5, 3.0][i % 3]))
    for knots, iv, s in splines:
        ivs = [fhex(v) for v in iv] if isinstance(iv, list) else fhex(iv)
        specs.append(dict(kind="rqs", knots=knots, interval=ivs, x_raw=[fhex(v) for v in r.normal(0, s, knots)] if s else [fhex(0)] * knots,
                          y_raw=[fhex(v) for v in r.normal(0, s, knots)] if s else [fhex(0)] * knots,
                          d_raw=[fhex(v) for v in r.normal(0, s, knots + 2)] if s else [fhex(0)] * (knots + 2)))
    specs += [dict(kind="tanh"), dict(kind="softplus"), dict(kind="exp")]
    specs.append(dict(kind="affine", loc=fhex(0.5), scale=fhex(2.0)))
    specs.append(dict(kind="affine", loc=fhex(r.normal()), scale=fhex(-abs(r.normal()) - 0.1), plain=True))
    if not q:
        for _ in range(4):
            specs.append(dict(kind="affine", loc=fhex(r.normal(0, 3)), scale=fhex(float(np.exp(r.normal(0, 2)))), plain=bool(r.integers(0, 2))))
    return specs


def pred_of(ds, x, sc):
    """stable, human readable predicate of the input for violation signatures"""
    k = ds["leaf"]["kind"]
    if x != x:
        return "x=nan"
    if math.isinf(x):
        return "x=inf"
    if k == "rqs":
        lo, hi = sc[3], sc[4]
        return "x==interval[0]" if x == lo else "x==interval[1]" if x == hi else "x-out-of-interval" if (x < lo or x > hi) else "x-in-interval"
    if k == "leaky":
        m, tm = sc[0], math.tanh(sc[0])
        a = abs(x)
        return "|x|==1" if a == 1 else "|x|==max_val" if a == m else "|x|>=tanh(max_val)" if a >= tm else "|x|<tanh(max_val)"
    return "any"


def oracle_point(v, gx, pfin):
    """the property on one observation of the implementation: returns an error string or None"""
    if v != v:
        return "log_prob is NaN"
    if math.isfinite(v):
        if not math.isfinite(gx):
            return f"log_prob is finite ({v!r}) but d log_prob / dx = {gx!r}"
        if not pfin:
            return f"log_prob is finite ({v!r}) but a gradient with respect to a parameter is inf/NaN"
    return None


def repro(ds, x):
    return ("cd /repo && JAX_PLATFORMS=cpu PYTHONPATH=/repo:/verif /venv/bin/python -c \"from harness import common, c18; common.init_jax(); import jax, jax.numpy as jnp; "
            f"d = c18.make_dist({ds!r}); x = jnp.asarray(float.fromhex('{float(x).hex()}') if {math.isfinite(x)} else float('{x}')); "
            "print(d.log_prob(x), jax.grad(d.log_prob)(x))\"")


def run_leaf(ctx, u, uo, ds, pg, n_rand):
    l = L()
    W = l["W"]
    dist = make_dist(ds)
    ud = W.unwrap(dist)
    mk, sc, xp, yp, dv = model_args(ds, ud)
    cl = ctx.model([f"crit {mk} {int(ds['inverted'])} {int(ds['base'] is not None)} {hexlist(sc)} {hexlist(xp)} {hexlist(yp)} {hexlist(dv)} {fhex(0.0)}"])[0]
    crit = [] if cl == "-" else [fparse(t) for t in cl.split(",")]
    lo, hi = (sc[3], sc[4]) if mk == "rqs" else (-4.0, 4.0)
    xs = input_set(ctx, crit, lo - 1, hi + 1, n_rand)[:NP]
    v2, gx2, pfin = impl_raw(dist, xs)          # the real (wrapped) object
    v, gx, fields = v2, gx2, []
    if pg and mk == "rqs":                      # and the gradients w.r.t. the unwrapped fields
        v, gx, gp = impl_fields(ud, xs)
        lfg = leaf_of(gp)
        fields = [("x_pos", np.asarray(lfg.x_pos)), ("y_pos", np.asarray(lfg.y_pos)), ("derivatives", np.asarray(lfg.derivatives))]
    model = ctx.model([lp_request(mk, ds, sc, xp, yp, dv, x, pg) for x in xs])
    orient = "Invert" if ds["inverted"] else "direct"
    basek = "StandardNormal" if ds["base"] is None else "Normal"
    for i, x in enumerate(xs):
        t = model[i].split()
        mraw, mv, mgx, msafe = fparse(t[0]), fparse(t[1]), fparse(t[2]), t[3] == "1"
        pred = pred_of(ds, x, sc)
        boundary = pred not in ("x-in-interval", "|x|<tanh(max_val)", "any") or cls(v[i]) != "fin"
        u.count((sha_ds(ds), fhex(x)), nontrivial=boundary, tag=f"{mk}/{orient}/{cls(v[i])}/grad-{cls(gx[i])}")
        errs = []
        # XLA's tanh(max_val) and libm's differ in the last place for some max_val (and the code itself mixes math.tanh in __init__ with
        # jnp.tanh in inverse): within 4 ulp of that threshold model and implementation may select different branches of the C1 map, so
        # d/dx (a second derivative) -- and for max_val > 18, where tanh(max_val) rounds to 1, even the value -- are compared by class only
        amb = mk == "leaky" and not ds["inverted"] and abs(abs(x) - math.tanh(sc[0])) <= 4 * np.spacing(math.tanh(sc[0]))
        if not close(mv, v[i], 1e-9) and not (amb and cls(mv) == cls(v[i])):
            errs.append(f"value: model {mv!r} implementation {float(v[i])!r}")
        if cls(mgx) != cls(gx[i]) or (cls(v[i]) == "fin" and not amb and not close(mgx, gx[i], 1e-6)):
            errs.append(f"d/dx: model {mgx!r} implementation {float(gx[i])!r}")
        if not (close(v2[i], v[i], 1e-12) and cls(gx2[i]) == cls(gx[i])):
            errs.append(f"wrapped vs unwrapped object: value {float(v2[i])!r} / {float(v[i])!r}, d/dx {float(gx2[i])!r} / {float(gx[i])!r}")
        if msafe and math.isfinite(mv) and abs(x) <= 30 and not math.isfinite(gx[i]):
            errs.append(f"model says Safe (all partial primitives inside their domains) but the implementation's d/dx is {float(gx[i])!r}")
        if fields and len(t) >= 8:
            mg = [[fparse(s) for s in t[4 + j].split(",")] for j in range(3)]
            # a parameter gradient is a sum of terms that may cancel (ill-conditioned bins: d/dx ~ 1e9, d/dx_pos ~ 1e-4): allow 1e-12 of the
            # largest finite gradient component on top of the relative 1e-6 (summation order differs between JAX and the tree-shaped model)
            comps = [abs(float(gx[i]))] + [abs(float(b)) for _, arr in fields for b in arr[i]]
            floor = 1e-12 * max([c_ for c_ in comps if math.isfinite(c_)] + [0.0])
            for j, (fname, arr) in enumerate(fields):
                for kk in range(arr.shape[1]):
                    a, b = mg[j][kk], arr[i, kk]
                    if cls(a) != cls(b) or (cls(v[i]) == "fin" and not close(a, b, 1e-6) and not abs(a - b) <= floor):
                        errs.append(f"d/d{fname}[{kk}]: model {a!r} implementation {float(b)!r}")
                        break
        # the property itself on the implementation (raw parameters), plus unwrapped-field gradients
        oerr = oracle_point(float(v2[i]), float(gx2[i]), bool(pfin[i]))
        uo.count(("leaf", sha_ds(ds), fhex(x)), nontrivial=boundary, tag=f"{mk}/{orient}")
        case = dict(unit="leaf", dist=ds, x=fhex(x), input_predicate=pred)
        if len(ctx.samples) < 6 and i in (0, 7):
            ctx.sample(dict(case=case, implementation=dict(log_prob=float(v[i]), ddx=float(gx[i]), param_grads_finite=bool(pfin[i])),
                            model=dict(log_prob=mv, ddx=mgx, safe=msafe)))
        if oerr:
            ctx.violation(sig=(f"oracle:{ds['probe']}:{orient}/{basek}" if ds.get("probe") else
                               f"oracle:{mk}/{orient}/{basek}:{oerr.split(' (')[0].split(' but ')[-1][:40]}:{pred}"),
                          what=f"Transformed({basek}, {orient} {mk}).log_prob at x={x!r} [{pred}]: {oerr}" + (f"; model of the repaired formula: {errs[0]}" if errs else ""),
                          case=case, found_input=True, unit=uo.name, expected="finite gradients wherever log_prob is finite; never NaN",
                          observed=dict(log_prob=float(v2[i]), ddx=float(gx2[i]), param_grads_finite=bool(pfin[i])),
                          broken="property oracle on the implementation" + ("; correspondence leaf-logprob-tie" if errs else ""), reproducer=repro(ds, x))
        if errs:
            u.disagreements += 1
            if not oerr:
                ctx.violation(sig=f"tie:{mk}/{orient}/{basek}:{errs[0].split(':')[0].split('[')[0]}:{pred}",
                              what=f"model != implementation for Transformed({basek}, {orient} {mk}).log_prob at x={x!r} [{pred}]: " + "; ".join(errs[:3]),
                              case=case, found_input=False, unit=u.name, expected=dict(log_prob=mv, ddx=mgx), observed=dict(log_prob=float(v[i]), ddx=float(gx[i])),
                              broken="correspondence leaf-logprob-tie (Model/Expr.v terms vs the code)", reproducer=repro(ds, x))


def run_methods(ctx, um, spec, n_rand):
    """each method's TERM alone (leaky_inv_t, rqs_fwd_t, rqs_deriv_t, ...): value and d/dx vs jax.grad of the bijection method"""
    l = L()
    jax, jnp, W = l["jax"], l["jnp"], l["W"]
    ds = dict(leaf=spec, inverted=False, base=None)
    leaf = make_leaf(spec)
    ud = W.unwrap(make_dist(ds))
    mk, sc, xp, yp, dv = model_args(ds, ud)
    cl = ctx.model([f"crit {mk} 0 0 {hexlist(sc)} {hexlist(xp)} {hexlist(yp)} {hexlist(dv)} {fhex(0.0)}"])[0]
    crit = [] if cl == "-" else [fparse(t) for t in cl.split(",")]
    lo, hi = (sc[3], sc[4]) if mk == "rqs" else (-4.0, 4.0)
    xs = input_set(ctx, crit, lo - 1, hi + 1, n_rand)[:NP]
    fns = [("fwd", lambda x: leaf.transform(x)), ("inv", lambda x: leaf.inverse(x)),
           ("ldfwd", lambda x: leaf.transform_and_log_det(x)[1]), ("ldinv", lambda x: leaf.inverse_and_log_det(x)[1])]
    if mk == "rqs":
        fns.append(("deriv", lambda x: W.unwrap(leaf).derivative(x)))
    for fname, f in fns:
        v, g = jax.vmap(jax.value_and_grad(f))(jnp.asarray(pad(xs)))
        v, g = np.asarray(v, dtype=float)[: len(xs)], np.asarray(g, dtype=float)[: len(xs)]
        model = ctx.model([f"term {fname} {mk} {hexlist(sc)} {hexlist(xp)} {hexlist(yp)} {hexlist(dv)} {fhex(x)}" for x in xs])
        for i, x in enumerate(xs):
            t = model[i].split()
            mv, mg = fparse(t[0]), fparse(t[1])
            pred = pred_of(ds, x, sc)
            um.count((sha_ds(ds), fname, fhex(x)), nontrivial=pred not in ("x-in-interval", "|x|<tanh(max_val)", "any") or cls(v[i]) != "fin",
                     tag=f"{mk}.{fname}/{cls(v[i])}/grad-{cls(g[i])}")
            thr = math.tanh(sc[0]) if fname in ("inv", "ldinv") else sc[0]
            amb = mk == "leaky" and abs(abs(x) - thr) <= 4 * np.spacing(thr)
            errs = []
            if not close(mv, v[i], 1e-9) and not (amb and cls(mv) == cls(v[i])):
                errs.append(f"value: model {mv!r} implementation {float(v[i])!r}")
            if cls(mg) != cls(g[i]) or (cls(v[i]) == "fin" and not amb and not close(mg, g[i], 1e-6)):
                errs.append(f"d/dx: model {mg!r} implementation {float(g[i])!r}")
            if errs:
                um.disagreements += 1
                ctx.violation(sig=f"method:{mk}.{fname}:{errs[0].split(':')[0]}:{pred}",
                              what=f"model term != implementation for {mk}.{fname} at x={x!r} [{pred}]: " + "; ".join(errs),
                              case=dict(unit="method", leaf=spec, method=fname, x=fhex(x)), found_input=False, unit=um.name,
                              expected=dict(value=mv, ddx=mg), observed=dict(value=float(v[i]), ddx=float(g[i])),
                              broken=f"correspondence method-tie ({mk}.{fname} term of Model/Expr.v vs the code)")


def probe_specs(ctx):
    """splines whose interval does NOT contain 0 (on either side), parameters away from initialisation, small derivatives: the
    configuration of finding D9 (fixed in c2cb03d: the robust replacement value was the literal 0, i.e. outside the interval)"""
    r = ctx.rng
    out = []
    cfgs = [(2, [1.0, 3.0], -1.0), (3, [-3.0, -0.5], -2.0), (2, [2.0, 6.0], -1.0)]
    if not ctx.quick:
        cfgs += [(4, [0.25, 2.0], -1.5), (2, [1.0, 3.0], 0.0), (5, [2.0, 7.0], -3.0), (3, [-1.0, -0.25], 1.0), (8, [-9.0, -1.0], -2.5),
                 (1, [0.5, 1.0], -2.0), (6, [1e-3, 4.0], -1.0)]
    for knots, iv, shift in cfgs:
        out.append(dict(kind="rqs", knots=knots, interval=[fhex(v) for v in iv], x_raw=[fhex(v) for v in r.normal(0, 0.3, knots)],
                        y_raw=[fhex(v) for v in r.normal(0, 0.3, knots)], d_raw=[fhex(shift + v) for v in r.normal(0, 0.2, knots + 2)]))
    return out


def sha_ds(ds):
    from harness.common import sha
    return sha(ds)


# =============================================================== 2b. chains of leaves
def chain_spec(ctx):
    """Transformed(Normal | StandardNormal, [Invert] Chain[2-4 layers from Affine / LeakyTanh / spline, each possibly Invert])"""
    r = ctx.rng
    n = int(r.integers(2, 5))
    layers = []
    for _ in range(n):
        k = ["affine", "leaky", "rqs"][int(r.integers(0, 3))]
        if k == "affine":
            sc = float(np.exp(r.normal(0, 0.7))) * (1 if r.random() < 0.7 else -1)
            spec = dict(kind="affine", loc=fhex(r.normal(0, 1.5)), scale=fhex(sc), plain=bool(sc < 0 or r.random() < 0.5))
        elif k == "leaky":
            spec = dict(kind="leaky", max_val=fhex([3.0, 0.7, 1.5, 5.0][int(r.integers(0, 4))]))
        else:
            knots = int(r.integers(1, 7))
            iv = [[-2.0, 2.0], [-1.0, 1.0], [1.0, 3.0], [-4.0, -0.5], [-1.5, 3.0], [0.0, 5.0]][int(r.integers(0, 6))]
            s_ = [0.0, 1.0, 2.0][int(r.integers(0, 3))]
            spec = dict(kind="rqs", knots=knots, interval=[fhex(v) for v in iv], x_raw=[fhex(v) for v in r.normal(0, s_, knots)],
                        y_raw=[fhex(v) for v in r.normal(0, s_, knots)], d_raw=[fhex(v) for v in r.normal(-0.5, s_, knots + 2)])
        layers.append(dict(leaf=spec, inverted=bool(r.integers(0, 2))))
    base = None if r.random() < 0.3 else dict(loc=fhex(r.normal(0, 1)), scale=fhex(float(np.exp(r.normal(0, 0.5)))))
    return dict(layers=layers, outer_inverted=bool(r.integers(0, 2)), base=base)


def make_chain_dist(cs):
    l = L()
    B, D = l["B"], l["D"]
    bs = []
    for ly in cs["layers"]:
        leaf = make_leaf(ly["leaf"])
        bs.append(B.Invert(leaf) if ly["inverted"] else leaf)
    bij = B.Chain(bs)
    if cs["outer_inverted"]:
        bij = B.Invert(bij)
    base = D.StandardNormal(()) if cs["base"] is None else D.Normal(fparse(cs["base"]["loc"]), fparse(cs["base"]["scale"]))
    return D.Transformed(base, bij)


def chain_model_args(cs, ud):
    """(layers token, scalars token, arrays token) of the `chain` request, from the UNWRAPPED real object"""
    ch = ud.bijection.bijection if cs["outer_inverted"] else ud.bijection
    sc = [0.0, 1.0] if cs["base"] is None else [float(ud.base_dist.bijection.loc), float(ud.base_dist.bijection.scale)]
    arrays, toks, leaves = [], [], []
    for ly, b in zip(cs["layers"], ch.bijections):
        lf = b.bijection if ly["inverted"] else b
        leaves.append(lf)
        k = ly["leaf"]["kind"]
        s7 = [0.0, 1.0, 0.0, 0.0, 0.0, 0.0, 1.0]
        arrs = [[], [], []]
        if k == "leaky":
            s7[0:3] = [lf.max_val, lf.linear_grad, lf.intercept]
        elif k == "rqs":
            s7[3:5] = [lf.interval[0], lf.interval[1]]
            arrs = [list(np.asarray(a, dtype=float)) for a in (lf.x_pos, lf.y_pos, lf.derivatives)]
        else:
            s7[5:7] = [float(lf.loc), float(lf.scale)]
        sc += [float(v) for v in s7]
        arrays += arrs
        toks.append(f"{k}:{int(ly['inverted'])}")
    return ",".join(toks), hexlist(sc), ";".join(hexlist(a) for a in arrays), leaves


def chain_inputs(ctx, cs, leaves, crit, n_rand):
    """boundary-directed inputs of a chain: every constant a layer compares its own input against, pulled back to the input of
    log_prob through the (analytic) inverses of the steps before it; their float neighbours; the raw constants; magnitudes; random"""
    l = L()
    jax, jnp = l["jax"], l["jnp"]
    n = len(leaves)
    order = list(range(n)) if cs["outer_inverted"] else list(range(n - 1, -1, -1))     # the order log_prob visits the layers
    steps = []
    for j in order:
        fwd = cs["outer_inverted"] != cs["layers"][j]["inverted"]                        # leaf.transform (else leaf.inverse) is applied
        steps.append((leaves[j], fwd, cs["layers"][j]["leaf"]["kind"]))
    pts = set()
    for k, (lf, fwd, kind) in enumerate(steps):
        if kind == "leaky":
            cands = [lf.max_val, -lf.max_val] if fwd else [math.tanh(lf.max_val), -math.tanh(lf.max_val), 1.0, -1.0]
        elif kind == "rqs":
            arr = np.asarray(lf.x_pos if fwd else lf.y_pos, dtype=float)
            cands = list(arr) + [float(arr[0]) - 0.5, float(arr[-1]) + 0.5]
        else:
            cands = [0.0]
        v = jnp.asarray(np.array(cands, dtype=float))
        for (plf, pfwd, _) in reversed(steps[:k]):                                       # undo the earlier steps
            v = jax.vmap(plf.inverse if pfwd else plf.transform)(v)
        pts |= {float(t) for t in np.asarray(v, dtype=float) if math.isfinite(t)}
    pts = sorted(pts)
    out = neighbours(pts)
    out += [c for c in crit if math.isfinite(c)][:40]
    out += [0.0, 1.0, -1.0, 1e-300, 0.3, -0.7, 2.5, -2.5, 10.0, -10.0, 37.5, 100.0, -100.0, 1e3, -1e4, 1e4]
    out += [float(t) for t in ctx.rng.normal(0, 2, n_rand)]
    out += [math.nan, math.inf, -math.inf]
    seen, res = set(), []
    for p_ in out:
        key = fhex(p_)
        if key not in seen:
            seen.add(key)
            res.append(p_)
    return res[:NP]


def chain_repro(cs, x):
    return ("cd /repo && JAX_PLATFORMS=cpu PYTHONPATH=/repo:/verif /venv/bin/python -c \"from harness import common, c18; common.init_jax(); import jax, jax.numpy as jnp; "
            f"d = c18.make_chain_dist({cs!r}); x = jnp.asarray(float.fromhex('{float(x).hex()}') if {math.isfinite(x)} else float('{x}')); "
            "print(d.log_prob(x), jax.grad(d.log_prob)(x))\"")


def run_chain(ctx, uc, uo, cs, n_rand):
    l = L()
    W = l["W"]
    dist = make_chain_dist(cs)
    ud = W.unwrap(dist)
    ltok, stok, atok, leaves = chain_model_args(cs, ud)
    head = f"{int(cs['base'] is not None)} {int(cs['outer_inverted'])} {ltok} {stok} {atok}"
    cl = ctx.model([f"chaincrit {head} {fhex(0.0)}"])[0]
    crit = [] if cl == "-" else [fparse(t) for t in cl.split(",")]
    xs = chain_inputs(ctx, cs, leaves, crit, n_rand)
    v, gx, pfin = impl_raw(dist, xs)
    model = ctx.model([f"chain {head} {fhex(x)}" for x in xs])
    desc = ("Invert(" if cs["outer_inverted"] else "") + "Chain[" + ", ".join(
        ("Invert " if ly["inverted"] else "") + ly["leaf"]["kind"] for ly in cs["layers"]) + "]" + (")" if cs["outer_inverted"] else "")
    basek = "StandardNormal" if cs["base"] is None else "Normal"
    for i, x in enumerate(xs):
        t = model[i].split()
        mv, mgx, msafe, mar = fparse(t[1]), fparse(t[2]), t[3] == "1", fparse(t[4])
        # a branch point within 1e-9 (relative) of the value compared with it: one-ulp differences between libm and XLA upstream may
        # select the other branch -- value and d/dx are then compared by inf/NaN class only (counted as .../other-branch-taken)
        amb = not (mar >= 1e-9)
        excused = amb and cls(v[i]) == "fin" and cls(mgx) == cls(gx[i]) and not (close(mv, v[i], 1e-9) and close(mgx, gx[i], 1e-6))
        uc.count((sha_ds(cs), fhex(x)), nontrivial=(amb or cls(v[i]) != "fin" or not math.isfinite(x)),
                 tag=f"{len(cs['layers'])}-layers/{cls(v[i])}/grad-{cls(gx[i])}" + ("/at-branch-point" if amb else "") + ("/other-branch-taken" if excused else ""))
        errs = []
        # (the spline is C0 but not C1 at its interval ends -- boundary derivatives are free parameters -- so even the VALUE of log_prob jumps there)
        if not close(mv, v[i], 1e-9) and not (amb and cls(mv) == cls(v[i])):
            errs.append(f"value: model {mv!r} implementation {float(v[i])!r}")
        if cls(mgx) != cls(gx[i]) or (cls(v[i]) == "fin" and not amb and not close(mgx, gx[i], 1e-6)):
            errs.append(f"d/dx: model {mgx!r} implementation {float(gx[i])!r}")
        if msafe and math.isfinite(mv) and abs(x) <= 30 and not math.isfinite(gx[i]):
            errs.append(f"model says Safe but the implementation's d/dx is {float(gx[i])!r}")
        oerr = oracle_point(float(v[i]), float(gx[i]), bool(pfin[i]))
        uo.count(("chain", sha_ds(cs), fhex(x)), nontrivial=math.isfinite(x) and math.isfinite(v[i]), tag=f"chain/{len(cs['layers'])}-layers")
        case = dict(unit="chain", chain=cs, x=fhex(x))
        if i == 0 and len(ctx.samples) < 11:
            ctx.sample(dict(case=case, implementation=dict(log_prob=float(v[i]), ddx=float(gx[i]), param_grads_finite=bool(pfin[i])),
                            model=dict(log_prob=mv, ddx=mgx, safe=msafe, margin=mar)))
        if oerr:
            ctx.violation(sig=f"oracle:chain:{oerr.split(' (')[0].split(' but ')[-1][:40]}",
                          what=f"Transformed({basek}, {desc}).log_prob at x={x!r}: {oerr}" + (f"; model: {errs[0]}" if errs else ""),
                          case=case, found_input=True, unit=uo.name, expected="finite gradients wherever log_prob is finite; never NaN",
                          observed=dict(log_prob=float(v[i]), ddx=float(gx[i]), param_grads_finite=bool(pfin[i])),
                          broken="property oracle on the implementation" + ("; correspondence chain-tie" if errs else ""), reproducer=chain_repro(cs, x))
        if errs:
            uc.disagreements += 1
            if not oerr:
                ctx.violation(sig=f"tie:chain:{errs[0].split(':')[0]}:{'nonfinite-input' if not math.isfinite(x) else 'finite-input'}",
                              what=f"model != implementation for Transformed({basek}, {desc}).log_prob at x={x!r}: " + "; ".join(errs[:3]),
                              case=case, found_input=False, unit=uc.name, expected=dict(log_prob=mv, ddx=mgx), observed=dict(log_prob=float(v[i]), ddx=float(gx[i])),
                              broken="correspondence chain-tie (Model/Expr.lp_chain vs chain.py + AbstractTransformed._log_prob)", reproducer=chain_repro(cs, x))


# =============================================================== 3. value classes
def value_classes(ctx):
    u = ctx.unit("value-classes", "AbstractDistribution.log_prob's where(isnan(lps), -inf, lps) on IEEE representatives of the classes "
                                  "Fin/+inf/-inf/NaN of (p_z, log_det) vs Model.Expr.log_prob_classes; all 16 class pairs (exhaustive)")
    jnp = L()["jnp"]
    reps = {"Fin": [0.0, -3.5, 1e308, -1e308], "PInf": [math.inf], "NInf": [-math.inf], "NaN": [math.nan]}
    names = {"fin": "Fin", "+inf": "PInf", "-inf": "NInf", "nan": "NaN"}
    for a in reps:
        for b in reps:
            allowed = ctx.model([f"classes {a} {b}"])[0].split(",")
            for x in reps[a]:
                for y in reps[b]:
                    lps = jnp.asarray(x) + jnp.asarray(y)
                    out = names[cls(jnp.where(jnp.isnan(lps), -jnp.inf, lps))]
                    u.count((a, b, fhex(x), fhex(y)), nontrivial=(a != "Fin" or b != "Fin"), tag=f"{a}+{b}->{out}")
                    if out not in allowed or out == "NaN":
                        u.disagreements += 1
                        ctx.violation(sig=f"classes:{a}+{b}", what=f"where(isnan) post-processing of {x}+{y} gives class {out}, model allows {allowed}",
                                      case=dict(unit="classes", a=x, b=y), found_input=(out == "NaN"), unit=u.name)


# =============================================================== 4. the oracle on the flow factories
def trainable_perturb(dist, seed, s):
    """raw trainable leaves + N(0, s^2) (NonTrainable nodes untouched, as flowjax's own training does); numpy RNG: deterministic, no compilation"""
    l = L()
    eqx, jax, jnp, W = l["eqx"], l["jax"], l["jnp"], l["W"]
    params, static = eqx.partition(dist, eqx.is_inexact_array, is_leaf=lambda n: isinstance(n, W.NonTrainable))
    leaves, td = jax.tree_util.tree_flatten(params)
    r = np.random.default_rng(int(seed))
    leaves = [lf + jnp.asarray(s * r.normal(size=lf.shape), dtype=lf.dtype) for lf in leaves]
    return eqx.combine(jax.tree_util.tree_unflatten(td, leaves), static)


def factories(ctx):
    l = L()
    F, D, B = l["F"], l["D"], l["B"]
    q = ctx.quick
    small = dict(flow_layers=2, nn_width=6)
    out = []

    def add(name, dims, fn, inverts=(True,)):
        for dim in dims:
            for inv in inverts:
                out.append((name, dim, inv, fn))

    both = (True,) if q else (True, False)
    add("masked_autoregressive_flow[Affine]", [3] if q else [1, 2, 3], lambda k, d, inv: F.masked_autoregressive_flow(k, base_dist=D.StandardNormal((d,)), invert=inv, **small), both)
    add("masked_autoregressive_flow[RQS]", [1, 2] if q else [1, 2, 3], lambda k, d, inv: F.masked_autoregressive_flow(
        k, base_dist=D.StandardNormal((d,)), transformer=B.RationalQuadraticSpline(knots=4, interval=2), invert=inv, **small), both)
    if q:
        # the non-default orientation in the quick tier too, for the spline transformers: log_prob then runs the layers' INVERSE
        # (MaskedAutoregressive scans the transformer's bare `inverse`), a different code path (seeded change C18e)
        add("masked_autoregressive_flow[RQS]", [2], lambda k, d, inv: F.masked_autoregressive_flow(
            k, base_dist=D.StandardNormal((d,)), transformer=B.RationalQuadraticSpline(knots=4, interval=2), invert=inv, **small), (False,))
        add("coupling_flow[RQS]", [3], lambda k, d, inv: F.coupling_flow(
            k, base_dist=D.StandardNormal((d,)), transformer=B.RationalQuadraticSpline(knots=3, interval=(-1.0, 3.0)), invert=inv, **small), (False,))
    add("coupling_flow[Affine]", [2] if q else [2, 3], lambda k, d, inv: F.coupling_flow(k, base_dist=D.StandardNormal((d,)), invert=inv, **small), both)
    add("coupling_flow[RQS]", [3] if q else [2, 3], lambda k, d, inv: F.coupling_flow(
        k, base_dist=D.StandardNormal((d,)), transformer=B.RationalQuadraticSpline(knots=3, interval=(-1.0, 3.0)), invert=inv, **small), both)
    # BNAF: only the default orientation (log_prob = forward pass); invert=False would need the numerical inverse, which can hang
    add("block_neural_autoregressive_flow", [2] if q else [1, 2, 3], lambda k, d, inv: F.block_neural_autoregressive_flow(
        k, base_dist=D.StandardNormal((d,)), nn_block_dim=3, flow_layers=2, invert=True))
    # the documented non-default activation: its log-gradient is unbounded below, far-out inputs underflow matmul columns (seeded change C18c)
    add("block_neural_autoregressive_flow[Tanh]", [3] if q else [1, 2, 3], lambda k, d, inv: F.block_neural_autoregressive_flow(
        k, base_dist=D.StandardNormal((d,)), nn_block_dim=4, flow_layers=1, invert=True, activation=B.Tanh()))
    add("planar_flow", [2] if q else [1, 2, 3], lambda k, d, inv: F.planar_flow(k, base_dist=D.StandardNormal((d,)), flow_layers=3, invert=True))
    if not q:
        add("planar_flow[leaky_relu]", [2, 3], lambda k, d, inv: F.planar_flow(
            k, base_dist=D.StandardNormal((d,)), flow_layers=3, invert=inv, negative_slope=0.1), both)
    add("triangular_spline_flow", [1, 2] if q else [1, 2, 3], lambda k, d, inv: F.triangular_spline_flow(
        k, base_dist=D.StandardNormal((d,)), flow_layers=2, knots=4, invert=inv), both)
    return out


def flow_inputs(ctx, dist, dim, n):
    """dim-vectors whose coordinates come from the boundary set of the leaf formulas inside (interval ends, knots, +-max_val,
    +-tanh(max_val), +-1, 0, neighbours, magnitudes to 1e4) and random normals; plus nan/inf rows."""
    l = L()
    W, jax = l["W"], l["jax"]
    consts = {0.0, 1.0, -1.0, 2.0, -2.0, 3.0, -3.0, math.tanh(3.0), -math.tanh(3.0), 1e4, -1e4, 1e3, -1e3, 500.0, 100.0, -100.0, 19.5, 1e-300}
    ud = W.unwrap(dist)
    for leaf in jax.tree_util.tree_leaves(ud, is_leaf=lambda n: type(n).__name__ in ("RationalQuadraticSpline", "LeakyTanh")):
        nm = type(leaf).__name__
        if nm == "RationalQuadraticSpline":
            consts |= {float(leaf.interval[0]), float(leaf.interval[1])}
            xp = np.asarray(leaf.x_pos, dtype=float).reshape(-1)
            yp = np.asarray(leaf.y_pos, dtype=float).reshape(-1)
            sel = list(xp[:: max(1, len(xp) // 6)]) + list(yp[:: max(1, len(yp) // 6)])
            consts |= {float(v) for v in sel}
            consts |= {float(np.arctanh(v)) for v in sel if abs(v) < 1}      # hit a knot behind a tanh layer
        elif nm == "LeakyTanh":
            consts |= {float(leaf.max_val), -float(leaf.max_val), math.tanh(leaf.max_val), -math.tanh(leaf.max_val)}
    pool = np.array(neighbours(sorted(consts)), dtype=float)
    r = ctx.rng
    rows = []
    for v in pool[: max(0, n // 3)] if dim == 1 else []:
        rows.append([v])
    while len(rows) < n - 4:
        mode = r.integers(0, 3)
        if mode == 0:
            rows.append(list(r.choice(pool, dim)))
        elif mode == 1:
            row = r.normal(0, 1.5, dim)
            row[r.integers(0, dim)] = r.choice(pool)
            rows.append(list(row))
        else:
            rows.append(list(r.normal(0, [1.0, 3.0, 30.0][r.integers(0, 3)], dim)))
    rows += [[math.nan] * dim, [math.inf] * dim, [-math.inf] * dim, [0.0] * (dim - 1) + [math.nan]]
    return np.array(rows[:n], dtype=float)


_run_flow = []


def flow_eval(dist, xs):
    """jitted, vmapped: value, d/dx (vector), all-gradients-finite flag.  One compilation per static structure and batch shape."""
    l = L()
    eqx, jax, jnp = l["eqx"], l["jax"], l["jnp"]
    if not _run_flow:
        @eqx.filter_jit
        def run(params, static, xs):
            def one(p, x):
                v, (gp, gx) = jax.value_and_grad(lambda p, x: eqx.combine(p, static).log_prob(x), argnums=(0, 1))(p, x)
                fin = jnp.all(jnp.isfinite(gx))
                for lf in jax.tree_util.tree_leaves(gp):
                    fin = jnp.logical_and(fin, jnp.all(jnp.isfinite(lf)))
                return v, gx, fin
            return jax.vmap(one, in_axes=(None, 0))(params, xs)
        _run_flow.append(run)
    params, static = eqx.partition(dist, eqx.is_inexact_array)
    v, gx, fin = _run_flow[0](params, static, jnp.asarray(xs))
    return np.asarray(v, dtype=float), np.asarray(gx, dtype=float), np.asarray(fin)


def run_flows(ctx):
    l = L()
    jr = l["jr"]
    uo = ctx.unit("oracle", "")
    n = 48 if ctx.quick else 256
    for name, dim, inv, fn in factories(ctx):
        seed = int(ctx.rng.integers(0, 2 ** 31 - 1))
        dist0 = fn(jr.PRNGKey(seed), dim, inv)   # built once: the perturbed variants share its static part (one compilation)
        for variant, scale in ([("initial", 0.0), ("perturbed", 0.5), ("perturbed", 1.5)] if ctx.quick else
                               [("initial", 0.0), ("perturbed", 0.3), ("perturbed", 1.0), ("perturbed", 2.0)]):
            dist = trainable_perturb(dist0, seed + 1, scale) if scale else dist0
            xs = flow_inputs(ctx, dist, dim, n)
            v, gx, fin = flow_eval(dist, xs)
            for i in range(len(xs)):
                finite_in = bool(np.all(np.isfinite(xs[i])))
                uo.count(("flow", name, dim, inv, seed, scale, hexlist(xs[i])), nontrivial=finite_in and math.isfinite(v[i]), tag=f"{name}/dim{dim}/{variant}")
                err = None
                if v[i] != v[i]:
                    err = "log_prob is NaN"
                elif math.isfinite(v[i]) and not bool(fin[i]):
                    err = (f"log_prob is finite ({float(v[i])!r}) but " + ("d log_prob/dx = " + repr([float(t) for t in gx[i]]) if not np.all(np.isfinite(gx[i]))
                                                                             else "a gradient with respect to a parameter is inf/NaN"))
                if err:
                    case = dict(unit="flow", factory=name, dim=dim, invert=inv, seed=seed, perturb=scale, x=[fhex(t) for t in xs[i]])
                    ctx.violation(sig=f"oracle:{name}:{err.split(' (')[0].split(' but ')[-1][:40]}",
                                  what=f"{name}(dim={dim}, invert={inv}, {variant} parameters, key {seed}).log_prob at x={[float(t) for t in xs[i]]}: {err}",
                                  case=case, found_input=True, unit=uo.name, expected="finite gradients wherever log_prob is finite; never NaN",
                                  observed=dict(log_prob=float(v[i]), ddx=[float(t) for t in gx[i]], all_grads_finite=bool(fin[i])),
                                  broken="property oracle on the implementation", reproducer="cd /verif && ./check C18 --replay <this file>")
            if len(ctx.samples) < 10:
                ctx.sample(dict(case=dict(unit="flow", factory=name, dim=dim, invert=inv, seed=seed, perturb=scale, x=[float(t) for t in xs[0]]),
                                implementation=dict(log_prob=float(v[0]), ddx=[float(t) for t in gx[0]], all_grads_finite=bool(fin[0]))))


# =============================================================== driver
def run(ctx):
    ctx.unit("oracle", "the property on the implementation alone: Transformed(StandardNormal|Normal, leaf|Invert(leaf)) for every leaf on its "
                       "boundary-directed inputs (gradients w.r.t. x and all raw parameters) and every factory of flowjax.flows (dims 1-3, initial and "
                       "perturbed trainable parameters, inputs with coordinates from the leaves' boundary sets, nan/inf rows): log_prob finite => "
                       "every gradient finite; log_prob never NaN; non-trivial = finite input with finite log_prob (flows) / boundary input or non-finite value (leaves)")
    import subprocess
    import time
    from harness.common import VERIF
    # the composition theorems (coq/Props/X18_chain.v, lemmas in Proofs/SafeChainP.v) are obligations of this check too
    r = subprocess.run([os.path.join(VERIF, "build.sh"), "X18_chain"], capture_output=True, text=True, timeout=3000)
    ctx.obligation("coq-build Props/X18_chain.vo", "BUILD-OK" in r.stdout, (r.stdout + r.stderr)[-1500:] if "BUILD-OK" not in r.stdout else "")
    if "BUILD-OK" in r.stdout:
        ctx.theorems("Props/X18_chain.v")
    t0 = time.time()
    ok = selftest(ctx)
    value_classes(ctx)
    ctx.notes.append(f"selftest+classes {time.time() - t0:.1f}s")
    t0 = time.time()
    u = ctx.unit("leaf-logprob-tie", "extracted eval/vjp of the log_prob TERM (Model/Expr.lp_t) in IEEE doubles vs the real "
                                     "Transformed(base, leaf|Invert(leaf)).log_prob and jax.grad (un-jitted, bit-faithful): value 1e-9 rel, d/dx and d/d(x_pos,y_pos,"
                                     "derivatives) 1e-6 rel where the value is finite, inf/NaN classes equal everywhere; inputs from the model's crit set + "
                                     "neighbours + magnitudes + random; non-trivial = boundary input or non-finite value")
    uo = ctx.units["oracle"]
    specs = leaf_specs(ctx)
    n_rand = 12 if ctx.quick else 40
    j = 0
    for spec in specs:
        for inverted in (False, True):
            bases = [None]
            if not ctx.quick or spec["kind"] in ("leaky",) or j % 3 == 0:
                bases.append(dict(loc=fhex(ctx.rng.normal(0, 2)), scale=fhex(float(np.exp(ctx.rng.normal(0, 1))))))
            j += 1
            for base in bases:
                ds = dict(leaf=spec, inverted=inverted, base=base)
                run_leaf(ctx, u, uo, ds, pg=(spec["kind"] == "rqs" and (not ctx.quick or base is None)), n_rand=n_rand)
    for spec in probe_specs(ctx):   # intervals that exclude 0 (finding D9): tie and oracle as for every other leaf
        for inverted in (False, True):
            run_leaf(ctx, u, uo, dict(leaf=spec, inverted=inverted, base=None, probe="rqs-interval-excludes-0"), pg=True, n_rand=n_rand)
    ctx.notes.append(f"leaf tie+oracle {time.time() - t0:.1f}s")
    t0 = time.time()
    um = ctx.unit("method-tie", "the term of each bijection METHOD alone (fwd/inv/log-dets/spline derivative: leaky_inv_t, rqs_fwd_t, rqs_inv_t, rqs_deriv_t, "
                                "softplus_inv_t, ...) evaluated and differentiated by the extracted eval/vjp vs the method and jax.grad of it (un-jitted), same "
                                "input sets and tolerances as leaf-logprob-tie")
    seen_kinds = {}
    for spec in specs:
        kk = spec["kind"]
        seen_kinds[kk] = seen_kinds.get(kk, 0) + 1
        if ctx.quick and seen_kinds[kk] > (3 if kk == "rqs" else 1) or (ctx.quick and kk == "rqs" and seen_kinds[kk] == 2):
            continue
        run_methods(ctx, um, spec, n_rand)
    ctx.notes.append(f"method tie {time.time() - t0:.1f}s")
    t0 = time.time()
    uc = ctx.unit("chain-tie", "extracted eval/vjp of the COMPOSED term Model/Expr.lp_chain vs the real Transformed(Normal | StandardNormal, [Invert] "
                               "Chain[2-4 layers from Affine / LeakyTanh / RationalQuadraticSpline, each possibly Invert]).log_prob and jax.grad (un-jitted): "
                               "value 1e-9 rel, d/dx 1e-6 rel where finite, inf/NaN classes equal everywhere; inputs = every layer's branch constants pulled "
                               "back through the earlier steps + neighbours + raw constants + magnitudes + random; within 1e-9 (relative) of a branch "
                               "point value and d/dx are compared by inf/NaN class only (log_prob itself jumps at a spline's interval ends); non-trivial = at a branch point, non-finite value or non-finite input")
    for _ in range(8 if ctx.quick else 80):
        run_chain(ctx, uc, uo, chain_spec(ctx), 10 if ctx.quick else 30)
    ctx.notes.append(f"chain tie {time.time() - t0:.1f}s")
    t0 = time.time()
    run_flows(ctx)
    ctx.notes.append(f"flow oracle {time.time() - t0:.1f}s")
    ctx.assumptions += [
        "theorems are exact over R: float overflow/underflow is outside them (it is inside the executed model and the oracle)",
        "JAX's adjoint rules are transcribed by hand (jax 0.11 lax.py); unit adjoint-selftest compares each with jax.vjp on every run",
        "the leaf tie evaluates the implementation un-jitted (op by op); under jit XLA may contract a*b+c and move a value by one ulp across a tie",
        "conditioners, BNAF and combinators: property oracle only (no theorem)",
    ]
    ctx.notes.append(f"VERIF_REPO={REPO}")


def replay(ctx, rep):
    c = rep["case"]
    l = L()
    jnp, jr = l["jnp"], l["jr"]
    if c.get("unit") == "leaf":
        dist = make_dist(c["dist"])
        x = fparse(c["x"])
        v, gx, pfin = impl_raw(dist, [x])
        err = oracle_point(float(v[0]), float(gx[0]), bool(pfin[0]))
        print("log_prob", float(v[0]), "d/dx", float(gx[0]), "parameter gradients finite", bool(pfin[0]), "->", err or "holds")
        ok = err is None
        if rep.get("kind") != "input":  # a recorded model/implementation disagreement: re-compare
            ud = l["W"].unwrap(dist)
            mk, sc, xp, yp, dv = model_args(c["dist"], ud)
            t = ctx.model([lp_request(mk, c["dist"], sc, xp, yp, dv, x, 0)])[0].split()
            vv, gg, _ = impl_fields(ud, [x])
            same = close(fparse(t[1]), vv[0], 1e-9) and cls(fparse(t[2])) == cls(gg[0]) and (cls(vv[0]) != "fin" or close(fparse(t[2]), gg[0], 1e-6))
            print("model", fparse(t[1]), fparse(t[2]), "implementation", float(vv[0]), float(gg[0]), "agree" if same else "DISAGREE")
            ok = ok and same
        return ok
    if c.get("unit") == "flow":
        fn = {(n, d, i): f for n, d, i, f in factories(ctx)}
        cand = [f for (n, d, i), f in fn.items() if n == c["factory"]]
        dist = cand[0](jr.PRNGKey(c["seed"]), c["dim"], c["invert"])
        if c["perturb"]:
            dist = trainable_perturb(dist, c["seed"] + 1, c["perturb"])
        xs = np.array([[fparse(t) for t in c["x"]]], dtype=float)
        v, gx, fin = flow_eval(dist, xs)
        bad = (v[0] != v[0]) or (math.isfinite(v[0]) and not bool(fin[0]))
        print("log_prob", float(v[0]), "d/dx", [float(t) for t in gx[0]], "all gradients finite", bool(fin[0]))
        return not bad
    if c.get("unit") == "chain":
        dist = make_chain_dist(c["chain"])
        x = fparse(c["x"])
        v, gx, pfin = impl_raw(dist, [x])
        err = oracle_point(float(v[0]), float(gx[0]), bool(pfin[0]))
        print("log_prob", float(v[0]), "d/dx", float(gx[0]), "parameter gradients finite", bool(pfin[0]), "->", err or "holds")
        ok = err is None
        if rep.get("kind") != "input":
            ltok, stok, atok, _ = chain_model_args(c["chain"], l["W"].unwrap(dist))
            t = ctx.model([f"chain {int(c['chain']['base'] is not None)} {int(c['chain']['outer_inverted'])} {ltok} {stok} {atok} {fhex(x)}"])[0].split()
            amb = not (fparse(t[4]) >= 1e-9)
            same = cls(fparse(t[1])) == cls(v[0]) and cls(fparse(t[2])) == cls(gx[0]) and (amb or (close(fparse(t[1]), v[0], 1e-9) and (cls(v[0]) != "fin" or close(fparse(t[2]), gx[0], 1e-6))))
            print("model", fparse(t[1]), fparse(t[2]), "margin", fparse(t[4]), "agree" if same else "DISAGREE")
            ok = ok and same
        return ok
    if c.get("unit") == "method":
        u = ctx.unit("method-tie", "replay")
        n0 = len(ctx.violations)
        run_methods(ctx, u, c["leaf"], 0)
        bad = [v for v in ctx.violations[n0:] if v["sig"].startswith(f"method:{c['leaf']['kind']}.{c['method']}")]
        print("method-tie on this leaf:", u.cases, "cases,", len(bad), "disagreement signature(s) for", c["method"])
        return not bad
    print("obligation / self-test replay: rebuild and re-run the check", c)
    return False
