"""Entry point:  ./check <PROPERTY> [--tier quick|thorough] [--replay file] [--seed n]"""

import argparse
import importlib
import json
import os
import sys
import traceback

from harness import common


def _argcov(ctx, prop):
    """Argument-coverage units (harness/argcov.py, table harness/ARGCOV.md): every documented constructor / function parameter with
    non-default values and the documented type variants, under the property's own oracle.  Its random stream is separate from the
    module's (derived from the seed), so adding cases here never shifts the cases of the property's own units."""
    import numpy as np

    from harness import argcov

    if prop not in argcov.PROPS:
        return
    rng, ctx.rng = ctx.rng, np.random.default_rng(np.random.PCG64(ctx.seed + 104729))
    try:
        argcov.run_units(ctx, prop)
    finally:
        ctx.rng = rng


def main():
    ap = argparse.ArgumentParser()
    ap.add_argument("prop")
    ap.add_argument("--tier", default=os.environ.get("VERIF_TIER", "quick"), choices=["quick", "thorough"])
    ap.add_argument("--seed", type=int, default=int(os.environ.get("VERIF_SEED", "0")))
    ap.add_argument("--replay", default=None)
    ap.add_argument("--no-build", action="store_true")
    a = ap.parse_args()
    prop = a.prop.upper()
    mod = importlib.import_module(f"harness.{prop.lower()}")
    ctx = common.Ctx(prop, a.tier, a.seed)
    ctx.groups = list(getattr(mod, 'GROUPS', ()))
    if a.replay:
        case = json.load(open(a.replay))
        if not a.no_build:
            ctx.build(getattr(mod, 'GROUPS', ()), getattr(mod, 'EXTRA_PROPS', ()))
        common.init_jax()
        if str(case.get("sig", "")).startswith("argcov:"):
            # a case of the argument-coverage units (harness/argcov.py): re-run them with the recorded seed and look for the same signature
            import numpy as np

            from harness import argcov

            ctx.seed = int(case.get("seed", 0))
            ctx.rng = np.random.default_rng(np.random.PCG64(ctx.seed))
            argcov.run_units(ctx, prop)
            hits = [v for v in ctx.violations if v["sig"] == case["sig"]]
            for v in hits:
                print("still failing:", v["what"][:300])
            ok = not hits
        else:
            ok = mod.replay(ctx, case)
        print("REPLAY", "property holds on this case" if ok else "property FAILS on this case")
        sys.exit(0 if ok else 1)
    # watchdog: a change that makes the implementation hang or allocate without bound (seeded change C15e did, with a huge
    # max_patience) must end as a reported violation, not as a check that never returns
    import threading

    limit = float(os.environ.get("VERIF_WATCHDOG", "2700" if a.tier == "quick" else "28800"))

    def _expired():
        try:
            ctx.violation(sig="watchdog", what=f"the check did not finish within {limit:.0f} s (the implementation hangs or the run is far slower than on the "
                          f"unchanged tree); units started so far: {list(ctx.units)}", case={"limit_seconds": limit}, found_input=False, broken="termination of the check")
            ctx.finish(level="proof")
        finally:
            os._exit(1)

    wd = threading.Timer(limit, _expired)
    wd.daemon = True
    wd.start()
    try:
        built = True if a.no_build else ctx.build(getattr(mod, 'GROUPS', ()), getattr(mod, 'EXTRA_PROPS', ()))
        ctx.scan_forbidden()
        if built:
            ctx.theorems()
            for extra in getattr(mod, 'EXTRA_PROPS', ()):  # further property files that count for this property
                ctx.theorems(extra)
        common.init_jax()
        if built:
            mod.run(ctx)
            _argcov(ctx, prop)
            changed = ctx.changed_anchor_files() if ctx.quick and not ctx.violations else []
            if changed:
                # the anchored source differs from the fingerprinted tree: second pass with a fresh seed (more cases, the other
                # half of every rotating grid).  Never an alarm by itself.
                import numpy as np

                ctx.notes.append(f"anchored source changed ({', '.join(changed)}): quick tier ran a second pass with seed {a.seed + 7919}")
                ctx.seed = a.seed + 7919
                ctx.rng = np.random.default_rng(np.random.PCG64(ctx.seed))
                mod.run(ctx)
                _argcov(ctx, prop)
        level = getattr(mod, "LEVEL", "proof")
        rc = ctx.finish(level=level, explanation=getattr(mod, "EXPLANATION", None))
    except Exception:
        traceback.print_exc()
        ctx.violation(sig="harness-crash", what="the check itself crashed: " + traceback.format_exc()[-600:],
                      case={"traceback": traceback.format_exc()}, found_input=False, broken="harness")
        rc = ctx.finish(level="proof")
        rc = 1
    sys.exit(rc)


if __name__ == "__main__":
    main()
