"""C07 -- elementary bijections compute their documented functions.

Proof side: Props/C07.v (code-shaped Model/Leaves.v = documentation-shaped Model/Spec.v, all reals).
Tie: the forward map of every leaf, real object vs extracted Model/Leaves.v.
Oracle: an independent float64 NumPy implementation written from the docstrings / cited papers, fed with the CONSTRUCTOR
arguments (so a constructor that stores the wrong triangle, the inverse permutation, x*scale-loc ... disagrees).
"""

import math

import numpy as np

from harness import leaves as lv
from harness.common import fhex, fparse

PROPERTY = "C07"
GROUPS = ["leaves"]
MANIFEST = {
    "design_ref": "DESIGN.md 4.7",
    "technique": "Coq proofs over R that the code-shaped model equals an independent documentation-shaped specification for all arguments + executed correspondence model/implementation + NumPy reference from the docs as search oracle",
    "text": "38 theorems (Props/C07.v) over the reals: the code-shaped Gallina model of each elementary bijection (Model/Leaves.v) equals a second, "
            "documentation-shaped specification (Model/Spec.v) for ALL real inputs and all valid parameters: affine/loc/scale/exp/softplus/tanh, "
            "LeakyTanh = tanh inside +-max_val and its tangent line (value and slope, C1 at the switch) outside, the rational-quadratic spline "
            "= Durkan eq. 4 on every closed bin, interpolates every knot incl. both ends, strictly monotone on all of R, identity outside the "
            "interval and at initialisation, TriangularAffine = A x + b entrywise, Planar = x + u_hat*act(w.x+b). The model is tied to /repo by "
            "running its extraction next to the real transform on boundary-directed inputs; constructor conventions (requested triangle, "
            "permutation direction, flip, additive condition, broadcasting) are decided by the NumPy reference written from the documentation "
            "(search level, not a theorem). Exact over R; float rounding not modelled.",
    "note": "Trusted: Coq kernel + Reals/Coquelicot axioms (classic, sig_forall_dec, sig_not_dec, functional_extensionality_dep), extraction, "
            "OCaml libm, harness incl. the NumPy reference. Permute/Flip/AdditiveCondition are modelled in the combinator group (C08), here only "
            "checked against the reference.",
}


# ---------------------------------------------------------------- the documentation, in NumPy
def ref_softplus(x):
    return np.logaddexp(x, 0.0)


def ref_leaky_tanh(m, x):
    t = np.tanh(m)
    slope = 1.0 - t * t  # derivative of tanh at max_val
    return np.where(np.abs(x) < m, np.tanh(x), np.sign(x) * (t + slope * (np.abs(x) - m)))


def ref_rqs(xk, yk, d, lo, hi, x):
    """Durkan et al. 2019, eq. 4: monotone rational-quadratic interpolant through the knots; identity outside [lo, hi]."""
    x = float(x)
    if x < lo or x > hi:
        return x
    K = len(xk)
    k = K - 2
    for j in range(K - 1):  # the bin [x_j, x_{j+1}] containing x (shared knots give the same value from both sides)
        if xk[j] <= x <= xk[j + 1]:
            k = j
            break
    w, h = xk[k + 1] - xk[k], yk[k + 1] - yk[k]
    s = h / w
    xi = (x - xk[k]) / w
    return yk[k] + h * (s * xi * xi + d[k] * xi * (1 - xi)) / (s + (d[k + 1] + d[k] - 2 * s) * xi * (1 - xi))


def ref_planar(w, u0, b, ns, x):
    wtu = float(u0 @ w)
    m = -1.0 + math.log(1.0 + ref_softplus(wtu))  # the constraint as flowjax documents it in get_act_scale
    if ns is not None:
        m = m / max(1.0, ns)  # leaky relu: both slopes need 1 + slope * w.u > 0
    u = u0 + (m - wtu) * w / float(w @ w)
    z = float(w @ x + b)
    act = math.tanh(z) if ns is None else (z if z >= 0 else ns * z)
    return x + u * act


def _ctor_cases(rng, quick):
    """(description, constructor thunk, reference function(x[,c]), shape, cond_shape) built from public constructor arguments."""
    L = lv.lib()
    B, jnp, jr, eqx = L["B"], L["jnp"], L["jr"], L["eqx"]
    out = []
    for rep in range(3 if quick else 10):
        # Affine with broadcasting loc/scale
        for lshape, sshape in (((), ()), ((3,), ()), ((), (3,)), ((2, 1), (1, 3)), ((2, 3), (3,))):
            loc, sc = rng.normal(0, 2, lshape), np.exp(rng.normal(0, 1.5, sshape))
            shape = np.broadcast_shapes(lshape, sshape)
            out.append((f"Affine(loc{lshape},scale{sshape})", lambda loc=loc, sc=sc: B.Affine(jnp.asarray(loc), jnp.asarray(sc)),
                        lambda x, loc=loc, sc=sc: sc * x + loc, shape, None, dict(loc=loc.tolist(), scale=sc.tolist())))
        loc = rng.normal(0, 2, (2, 2))
        out.append(("Loc", lambda loc=loc: B.Loc(jnp.asarray(loc)), lambda x, loc=loc: x + loc, (2, 2), None, dict(loc=loc.tolist())))
        sc = np.exp(rng.normal(0, 2, (3,)))
        out.append(("Scale", lambda sc=sc: B.Scale(jnp.asarray(sc)), lambda x, sc=sc: sc * x, (3,), None, dict(scale=sc.tolist())))
        for d in (1, 3, 4):
            for lower in (True, False):
                a = rng.normal(0, 1.5, (d, d))
                a[np.diag_indices(d)] = np.exp(rng.normal(0, 1, d))
                loc = rng.normal(0, 1, d) if rep % 2 else float(rng.normal())
                A = np.tril(a) if lower else np.triu(a)
                out.append((f"TriangularAffine(dim={d},lower={lower})", lambda a=a, loc=loc, lower=lower: B.TriangularAffine(loc if np.ndim(loc) == 0 else jnp.asarray(loc), jnp.asarray(a), lower=lower),
                            lambda x, A=A, loc=loc: A @ x + loc, (d,), None, dict(arr=a.tolist(), loc=np.asarray(loc).tolist(), lower=lower)))
        # "the other triangle is ignored": whatever it holds - huge values, inf, nan (a matrix filled triangle by triangle from an
        # np.full(nan) / np.empty placeholder) - the map is triangle(arr) @ x + loc  (seeded change C07f selected by multiplying with a mask)
        for d in (2, 3):
            for lower in (True, False):
                for junk in (np.nan, np.inf, -np.inf, 1e300):
                    a = rng.normal(0, 1.5, (d, d))
                    a[np.diag_indices(d)] = np.exp(rng.normal(0, 1, d))
                    A = np.tril(a) if lower else np.triu(a)
                    dirty = np.where((np.tril(np.ones((d, d)), -1).T if lower else np.tril(np.ones((d, d)), -1)) > 0, junk, a)
                    loc = rng.normal(0, 1, d)
                    out.append((f"TriangularAffine(dim={d},lower={lower},ignored triangle={junk})", lambda dirty=dirty, loc=loc, lower=lower: B.TriangularAffine(jnp.asarray(loc), jnp.asarray(dirty), lower=lower),
                                lambda x, A=A, loc=loc: A @ x + loc, (d,), None, dict(arr=[[repr(float(v)) for v in row] for row in dirty], loc=loc.tolist(), lower=lower)))
        for shape in ((), (4,), (2, 3)):
            out.append((f"Exp{shape}", lambda shape=shape: B.Exp(shape), np.exp, shape, None, {}))
            out.append((f"SoftPlus{shape}", lambda shape=shape: B.SoftPlus(shape), ref_softplus, shape, None, {}))
            out.append((f"Tanh{shape}", lambda shape=shape: B.Tanh(shape), np.tanh, shape, None, {}))
            m = float(np.round(rng.uniform(0.2, 5), 2))
            out.append((f"LeakyTanh({m},{shape})", lambda m=m, shape=shape: B.LeakyTanh(m, shape), lambda x, m=m: ref_leaky_tanh(m, x), shape, None, dict(max_val=m)))
            out.append((f"Flip{shape}", lambda shape=shape: B.Flip(shape), lambda x: np.flip(x), shape, None, {}))
        for shape in ((5,), (2, 3), (2, 2, 2)):
            n = int(np.prod(shape))
            perm = rng.permutation(n).reshape(shape)
            out.append((f"Permute{shape}", lambda perm=perm: B.Permute(jnp.asarray(perm)),
                        lambda x, perm=perm: x.ravel()[perm.ravel()].reshape(perm.shape), shape, None, dict(permutation=perm.tolist())))
        Wm, bm = rng.normal(0, 1, (3, 2)), rng.normal(0, 1, 3)
        out.append(("AdditiveCondition", lambda Wm=Wm, bm=bm: B.AdditiveCondition(lambda c: jnp.asarray(Wm) @ c + jnp.asarray(bm), (3,), (2,)),
                    lambda x, c, Wm=Wm, bm=bm: x + (Wm @ c + bm), (3,), (2,), dict(W=Wm.tolist(), b=bm.tolist())))
        # "module: a callable whose output is broadcastable to shape": every broadcastable output shape, incl. column / row shaped
        # ones on square and non-square bijection shapes (seeded change C07e squeezed the module output)
        for bshape, oshapes in (((4, 4), [(4, 1), (1, 4), (4,), (), (1, 1), (4, 4)]), ((2, 3), [(2, 1), (1, 3), (3,), (), (2, 3)]), ((3,), [(1,), ()]), ((), [()]),
                                ((1, 3), [(1, 1), (3,)]), ((2, 1, 2), [(2, 1, 1), (1, 2), (2,)])):
            for oshape in oshapes:
                k = int(np.prod(oshape, dtype=int))
                Wo, bo = rng.normal(0, 1, (k, 2)), rng.normal(0, 1, k)
                out.append((f"AdditiveCondition(shape={bshape},module output {oshape})",
                            lambda Wo=Wo, bo=bo, oshape=oshape, bshape=bshape: B.AdditiveCondition(lambda c: (jnp.asarray(Wo) @ c + jnp.asarray(bo)).reshape(oshape), bshape, (2,)),
                            lambda x, c, Wo=Wo, bo=bo, oshape=oshape: x + (Wo @ c + bo).reshape(oshape), bshape, (2,), dict(W=Wo.tolist(), b=bo.tolist(), module_output_shape=list(oshape))))
        for d in (1, 2, 4):
            for ns in (None, 0.3, 2.5):
                p = rng.normal(0, 1.0, 2 * d + 1)
                out.append((f"Planar(dim={d},negative_slope={ns})", lambda d=d, ns=ns, p=p: eqx.tree_at(lambda o: o.params, B.Planar(jr.PRNGKey(0), dim=d, negative_slope=ns), jnp.asarray(p)),
                            lambda x, d=d, ns=ns, p=p: ref_planar(p[:d], p[d:2 * d], p[-1], ns, x), (d,), None, dict(params=p.tolist(), negative_slope=ns)))
    return out


def run(ctx):
    rng = ctx.rng
    jnp = lv.lib()["jnp"]
    unwrap = lv.lib()["unwrap"]
    # ---- U1: forward tie model/implementation
    u = ctx.unit("leaf-forward-tie", "real leaf transform vs extracted Model/Leaves.v (IEEE doubles); perturbed parameters, negative scales, "
                                     "boundary-directed inputs; non-trivial = all (no case uses identity-like parameters only)")
    specs = lv.gen_specs(rng, ctx.quick)
    jobs, reqs = [], []
    for spec in specs:
        obj = lv.make_obj(spec)
        params = lv.model_params(spec, obj)
        xs = lv.inputs_for(spec, obj, "fwd", rng, n_random=4 if ctx.quick else 16)
        for x in xs:
            jobs.append((spec, obj, x))
            reqs.append(lv.request(spec, obj, "fwd", x, params))
    outs = ctx.model(reqs, "leaves")
    for (spec, obj, x), line in zip(jobs, outs):
        imp = lv.run_impl(obj, "fwd", x)
        u.count((str(spec), [fhex(v) for v in np.ravel(x)]), tag=spec["kind"])
        if len(u.hashes) % 500 == 1:
            ctx.sample(dict(spec=spec, x=np.ravel(x).tolist(), model=line[:120], implementation=str(imp)[:120]))
        if not lv.same(lv.parse_model(line), imp):
            u.disagreements += 1
            errs = spline_doc_errors(spec, obj, x) if spec["kind"] == "rqs" else []
            cls = type(obj).__name__
            ctx.violation(sig=f"{cls}.transform:{'oracle' if errs else 'model-mismatch'}",
                          what=(f"{cls}: " + "; ".join(errs)) if errs else f"{cls}.transform: model {line[:100]} != implementation {str(imp)[:100]}",
                          case=dict(spec=spec, x=[fhex(v) for v in np.ravel(x)]), found_input=bool(errs), unit=u.name,
                          expected=line[:300], observed=str(imp)[:300], broken="correspondence leaf-forward-tie / Props/C07.v theorems of this leaf")
    # ---- U2: documentation reference through the public constructors
    ur = ctx.unit("constructor-doc-reference", "bijection built with its documented constructor arguments; transform vs an independent NumPy "
                                               "implementation of the documented function; non-trivial = all")
    for desc, mk, ref, shape, cshape, args in _ctor_cases(rng, ctx.quick):
        obj = mk()
        for i in range(4 if ctx.quick else 12):
            x = rng.normal(0, 2.0, shape)
            if "LeakyTanh" in desc and i == 0:
                x = np.full(shape, args["max_val"]) * rng.choice([-1.0, 1.0], shape)
            c = None if cshape is None else rng.normal(0, 1, cshape)
            got = np.asarray(obj.transform(jnp.asarray(x)) if c is None else obj.transform(jnp.asarray(x), jnp.asarray(c)), dtype=float)
            exp = np.asarray(ref(x) if c is None else ref(x, c), dtype=float)
            ur.count((desc, str(args), x.tolist()), tag=desc.split("(")[0])
            if desc.startswith("AdditiveCondition") and got.shape == exp.shape:
                # the documented inverse is y - module(condition): subtracting the same shift from the reference image gives x back
                back = np.asarray(obj.inverse(jnp.asarray(exp), jnp.asarray(c)), dtype=float)
                if back.shape != x.shape or not np.allclose(back, x, rtol=1e-9, atol=1e-9):
                    ctx.violation(sig="AdditiveCondition:doc-reference-inverse", what=f"{desc}: inverse(x + module(c)) = {np.ravel(back).tolist()} instead of x = {np.ravel(x).tolist()}",
                                  case=dict(constructor=desc, args=args, x=x.tolist(), condition=c.tolist()), found_input=True, unit=ur.name,
                                  expected=np.ravel(x).tolist(), observed=np.ravel(back).tolist(), broken="documentation reference")
            if got.shape != exp.shape or not np.allclose(got, exp, rtol=1e-9, atol=1e-9):
                ctx.violation(sig=f"{desc.split('(')[0]}:doc-reference", what=f"{desc}: transform({np.ravel(x).tolist()}) = {np.ravel(got).tolist()}, documented function gives {np.ravel(exp).tolist()}",
                              case=dict(constructor=desc, args=args, x=x.tolist(), condition=None if c is None else c.tolist()), found_input=True, unit=ur.name,
                              expected=np.ravel(exp).tolist(), observed=np.ravel(got).tolist(), broken="documentation reference")
    # ---- U3: spline through its knots, monotone, identity outside and at initialisation (reference = eq. 4 written independently)
    us = ctx.unit("spline-doc-reference", "RationalQuadraticSpline (constructor grid: knots 1..8, scalar/tuple interval, min_derivative, softmax_adjust; "
                                          "initial and perturbed raw parameters) vs eq. 4 through unwrap(obj) knots; interpolation at knots, monotone "
                                          "on a sorted grid, identity outside and at init")
    for spec in [s for s in specs if s["kind"] == "rqs"]:
        obj = lv.make_obj(spec)
        pts = lv.critical_points(spec, obj, "fwd") + list(rng.uniform(-5, 5, 20))
        for x in pts:
            us.count((str(spec), fhex(x)), tag=f"knots={spec['knots']}")
            errs = spline_doc_errors(spec, obj, x)
            if errs:
                ctx.violation(sig="RationalQuadraticSpline:doc-reference", what="RationalQuadraticSpline: " + "; ".join(errs),
                              case=dict(spec=spec, x=[fhex(x)]), found_input=True, unit=us.name, broken="documentation reference (eq. 4)")
        grid = np.sort(np.asarray(pts, dtype=float))
        ys = np.array([float(obj.transform(jnp.asarray(v))) for v in grid])
        bad = np.where((np.diff(ys) <= 0) & (np.diff(grid) > 1e-9))[0]
        if len(bad):
            i = int(bad[0])
            ctx.violation(sig="RationalQuadraticSpline:monotone", what=f"RationalQuadraticSpline not increasing: f({grid[i]!r})={ys[i]!r} >= f({grid[i+1]!r})={ys[i+1]!r}",
                          case=dict(spec=spec, x=[fhex(grid[i]), fhex(grid[i + 1])]), found_input=True, unit=us.name, broken="monotone")
    ctx.assumptions += ["reference implementation written from docstrings and Durkan et al. 2019 eq. 4 / Rezende & Mohamed 2015 (with flowjax's documented act-scale constraint)"]


def spline_doc_errors(spec, obj, x):
    L = lv.lib()
    u = L["unwrap"](obj)
    xk, yk, d = (np.asarray(a, dtype=float) for a in (u.x_pos, u.y_pos, u.derivatives))
    lo, hi = float(u.interval[0]), float(u.interval[1])
    x = float(np.ravel(x)[0])
    got = float(obj.transform(L["jnp"].asarray(x)))
    exp = ref_rqs(xk, yk, d, lo, hi, x)
    errs = []
    if not abs(got - exp) <= 1e-9 * max(1.0, abs(exp)):
        errs.append(f"transform({x!r}) = {got!r}, eq. 4 through the knots gives {exp!r}")
    raw0 = all(fparse(v) == 0.0 for v in spec["x_raw"] + spec["y_raw"])
    md = fparse(spec["min_derivative"])
    if raw0 and all(abs(fparse(v) - math.log(math.exp(1 - md) - 1)) < 1e-12 for v in spec["d_raw"]) and not abs(got - x) <= 1e-9 * max(1, abs(x)):
        errs.append(f"not the identity at initialisation: transform({x!r}) = {got!r}")
    return errs


def replay(ctx, rep):
    c = rep["case"]
    if "spec" in c:
        spec = c["spec"]
        obj = lv.make_obj(spec)
        x = np.array([fparse(v) for v in c["x"]], dtype=float)
        if spec["kind"] == "rqs":
            errs = sum((spline_doc_errors(spec, obj, v) for v in x), [])
            print("oracle", errs)
            return not errs
        x = x.reshape(tuple(spec.get("shape", ())))
        line = ctx.model([lv.request(spec, obj, "fwd", x)], "leaves")[0]
        imp = lv.run_impl(obj, "fwd", x)
        print("model", line, "implementation", imp)
        return lv.same(lv.parse_model(line), imp)
    print("constructor-level replay: re-run ./check C07 (seeded)")
    return False
