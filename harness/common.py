"""Shared machinery for all checks: environment, build/proof obligations, model driver,
disagreement/violation bookkeeping, known findings, replays, evidence.

A check module (harness/cXX.py) defines

    PROPERTY = "C16"
    def run(ctx): ...          # uses ctx.unit(...), ctx.model(...), ctx.disagree(...), ctx.violation(...)
    def replay(ctx, case): ... # optional: re-run one stored case against the current tree

and harness/main.py drives it.
"""

from __future__ import annotations

import hashlib
import json
import os
import re
import subprocess
import sys
import time

VERIF = os.path.dirname(os.path.dirname(os.path.abspath(__file__)))
REPO = os.environ.get("VERIF_REPO", "/repo")
COQ = os.path.join(VERIF, "coq")
BIN = os.path.join(VERIF, "ocaml", "bin")

FORBIDDEN = re.compile(
    r"\b(Admitted|admit|Axiom|Axioms|Parameter|Parameters|Conjecture|Conjectures|Hypothesis|Hypotheses|"
    r"Variable|Variables|Context|Admit Obligations|bypass_check|native_compute)\b|Unset Guard|Unset Positivity|"
    r"Unset Universe|type-in-type|impredicative-set"
)

# axioms of the standard library that R-theorems are allowed to depend on (DESIGN section 3)
ALLOWED_AXIOMS = {
    "ClassicalDedekindReals.sig_forall_dec",
    "ClassicalDedekindReals.sig_not_dec",
    "FunctionalExtensionality.functional_extensionality_dep",
    "functional_extensionality_dep",
    "Classical_Prop.classic",
    "classic",
    "sig_forall_dec",
    "sig_not_dec",
    "Epsilon.epsilon_statement",
    "epsilon_statement",
    "ClassicalEpsilon.constructive_indefinite_description",
    "constructive_indefinite_description",
    "ProofIrrelevance.proof_irrelevance",
    "proof_irrelevance",
    "Eqdep.Eq_rect_eq.eq_rect_eq",
    "eq_rect_eq",
    "JMeq.JMeq_eq",
    "JMeq_eq",
    "PropExtensionality.propositional_extensionality",
    "propositional_extensionality",
}

TRUSTED_BASE_COMMON = [
    "Coq 8.16.1 kernel (coqc); vm_compute only for closed finite computations; no native_compute",
    "extraction with ExtrOcamlBasic only (Extract Inductive for bool, option, list, prod, unit, sumbool, sumor, as that file declares); no Extract Constant; nat/positive/Z/Q stay extracted inductives",
    "ocaml/driver.ml + conv.ml: request parser, conversions, float NumOps record (OCaml libm)",
    "harness (Python): case generators, serialiser flowjax-object -> model request, comparators, tolerances",
    "the model is hand written; it is tied to /repo only through the executed correspondence (behavioural, sampled)",
]


def init_jax():
    """Import jax/flowjax from /repo's working tree, x64, CPU, plus the equinox shim (DESIGN 1.6)."""
    os.environ.setdefault("JAX_PLATFORMS", "cpu")
    if REPO not in sys.path:
        sys.path.insert(0, REPO)
    import jax

    jax.config.update("jax_enable_x64", True)
    try:  # persistent XLA compilation cache (ignored build output): repeated runs skip most of the compile time
        if os.environ.get("VERIF_JAX_CACHE", "1") == "0":
            raise RuntimeError("persistent cache disabled")
        cache = os.path.join(VERIF, "harness", ".cache", "jax")
        os.makedirs(cache, exist_ok=True)
        jax.config.update("jax_compilation_cache_dir", cache)
        jax.config.update("jax_persistent_cache_min_compile_time_secs", 0.05)
        jax.config.update("jax_persistent_cache_min_entry_size_bytes", -1)
    except Exception:  # pragma: no cover
        pass
    try:  # equinox 0.13.8 x jax 0.11.2: Tracer.__jax_array__ is None inside filter_vmap'd constructors
        import equinox._module._module as _m

        _orig = _m.is_inexact_array_like

        def _tolerant(x):
            try:
                return _orig(x)
            except TypeError:
                return False

        _m.is_inexact_array_like = _tolerant
        import equinox._filters as _f

        _orig_f = _f.is_inexact_array_like

        def _tolerant_f(x):
            try:
                return _orig_f(x)
            except TypeError:
                return False

        _f.is_inexact_array_like = _tolerant_f
    except Exception:  # pragma: no cover
        pass
    import flowjax

    assert os.path.realpath(flowjax.__file__).startswith(os.path.realpath(REPO)), flowjax.__file__
    return jax


def fhex(x) -> str:
    x = float(x)
    if x != x:
        return "nan"
    if x == float("inf"):
        return "inf"
    if x == float("-inf"):
        return "-inf"
    return x.hex()


def fparse(s: str) -> float:
    if s == "nan":
        return float("nan")
    if s == "inf":
        return float("inf")
    if s == "-inf":
        return float("-inf")
    return float.fromhex(s)


def hexlist(xs) -> str:
    xs = list(xs)
    return ",".join(fhex(x) for x in xs) if xs else "-"


def intlist(xs) -> str:
    xs = list(xs)
    return ",".join(str(int(x)) for x in xs) if xs else "-"


def sha(obj) -> str:
    return hashlib.sha1(json.dumps(obj, sort_keys=True, default=str).encode()).hexdigest()[:12]


_GUARD = {"n": 0, "cleared": 0}


def _mapping_guard(every=200, limit=20000):
    """Every live XLA executable holds a few memory mappings; a long run that compiles tens of thousands of distinct small computations
    (eager ops on ever new shapes / static slices) exhausts the process's mappings (vm.max_map_count = 65530) and XLA then segfaults inside
    its compile or cache-read step (seen in the thorough tier of C01 and C09).  Every `every` counted cases: if the process has more than
    `limit` mappings, drop JAX's compilation caches."""
    _GUARD["n"] += 1
    if _GUARD["n"] % every:
        return
    try:
        with open("/proc/self/maps", "rb") as f:
            n = sum(1 for _ in f)
        if n > limit:
            import gc

            import jax

            jax.clear_caches()
            gc.collect()
            _GUARD["cleared"] += 1
    except Exception:  # noqa: BLE001
        pass


class Unit:
    def __init__(self, name, what):
        self.name, self.what = name, what
        self.cases = 0
        self.disagreements = 0
        self.hashes = set()
        self.nontrivial = set()
        self.hist = {}

    def count(self, case_key, nontrivial=True, tag=None):
        self.cases += 1
        _mapping_guard()
        h = case_key if isinstance(case_key, str) else sha(case_key)
        self.hashes.add(h)
        if nontrivial:
            self.nontrivial.add(h)
        if tag is not None:
            self.hist[tag] = self.hist.get(tag, 0) + 1


class Ctx:
    def __init__(self, prop, tier, seed):
        import numpy as np

        self.prop, self.tier, self.seed = prop, tier, seed
        self.seed_base = seed  # the seed the run was asked for (self.seed moves on in an escalated second pass)
        self.quick = tier == "quick"
        self.rng = np.random.default_rng(np.random.PCG64(seed))
        self.t0 = time.time()
        self.units: dict[str, Unit] = {}
        self.obligations: list[dict] = []
        self.violations: list[dict] = []
        self.known_hits: list[str] = []
        self.samples: list = []
        self.notes: list[str] = []
        self.assumptions: list[str] = []
        self.trusted = list(TRUSTED_BASE_COMMON)
        self.axioms_seen: set[str] = set()
        self.known = load_known()
        self.groups = []

    # ---------- anchored-source fingerprints (DESIGN 1.4b) ----------
    def changed_anchor_files(self):
        """Source files of the repository under test whose AST fingerprint differs from harness/fingerprints.json (taken on
        the unchanged tree) and that matter to this property: its anchor files (properties.jsonl), or files no property
        anchors.  Never an alarm by itself: it only makes the quick tier run a second pass with a fresh seed."""
        import fnmatch
        import importlib.util

        try:
            spec = importlib.util.spec_from_file_location("fingerprint", os.path.join(VERIF, "tools", "fingerprint.py"))
            fp = importlib.util.module_from_spec(spec)
            spec.loader.exec_module(fp)
            diff = fp.changed(REPO)
            anchors, mine = set(), []
            for line in open(os.path.join(VERIF, "properties.jsonl")):
                if line.strip():
                    d = json.loads(line)
                    anchors.update(d["anchors"]["files"])
                    if d["id"] == self.prop:
                        mine = d["anchors"]["files"]
            hit = [f for f in diff if any(fnmatch.fnmatch(f, a) for a in mine) or not any(fnmatch.fnmatch(f, a) for a in anchors)]
            return hit
        except Exception as e:  # pragma: no cover
            self.notes.append(f"fingerprint comparison failed: {type(e).__name__}: {e}")
            return []

    # ---------- proof side ----------
    def build(self, groups=(), extra_props=()):
        self.groups = list(groups)
        what = ",".join([self.prop, *[os.path.basename(e)[:-2] for e in extra_props]])
        r = subprocess.run([os.path.join(VERIF, "build.sh"), what, *groups], capture_output=True, text=True, timeout=3400)
        ok = "BUILD-OK" in r.stdout
        self.obligation("coq-build+extraction+driver", ok, (r.stdout + r.stderr)[-2000:] if not ok else "")
        return ok

    def scan_forbidden(self):
        bad = []
        for root, _, files in os.walk(COQ):
            for f in files:
                if f.endswith(".v"):
                    p = os.path.join(root, f)
                    txt = strip_coq_comments(open(p).read())
                    for m in FORBIDDEN.finditer(txt):
                        # Section-local Variable/Hypothesis are allowed (inside Section ... End)
                        if m.group(0) in ("Variable", "Variables", "Hypothesis", "Hypotheses", "Context") and in_section(txt, m.start()):
                            continue
                        bad.append(f"{os.path.relpath(p, VERIF)}: {m.group(0)}")
        self.obligation("no Admitted/admit/Axiom/Parameter/guard switches in coq/", not bad, "; ".join(bad[:10]))
        return not bad

    def theorems(self, props_file=None):
        """Recompile Props/<prop>.v, collect theorem names and Print Assumptions output."""
        props_file = props_file or f"Props/{self.prop}.v"
        src = open(os.path.join(COQ, props_file)).read()
        names = re.findall(r"^\s*(?:Theorem|Corollary)\s+(\w+)", src, re.M)
        examples = re.findall(r"^\s*Example\s+(\w+)", src, re.M)
        bad_close = check_props_discipline(src)
        r = subprocess.run(
            ["coqc", "-Q", ".", "FJ", "-w", "none", props_file], cwd=COQ, capture_output=True, text=True, timeout=1200
        )
        ok = r.returncode == 0
        blocks = parse_assumptions(r.stdout)
        if ok and len(blocks) != len(names):
            ok = False
            r.stderr += f"\nexpected one Print Assumptions per theorem: {len(names)} theorems, {len(blocks)} outputs"
        for i, n in enumerate(names):
            ax = blocks[i] if i < len(blocks) else None
            foreign = [a for a in (ax or []) if a not in ALLOWED_AXIOMS and a.split(".")[-1] not in ALLOWED_AXIOMS]
            self.axioms_seen.update(ax or [])
            self.obligation(
                f"theorem {n}", ok and ax is not None and not foreign,
                (r.stderr[-1500:] if not ok else "") + (f" foreign axioms: {foreign}" if foreign else ""),
                axioms=ax,
            )
        for n in examples:
            self.obligation(f"example (non-vacuity) {n}", ok, "")
        self.obligation("Props file discipline (theorems closed by exact, Print Assumptions beneath)", not bad_close, "; ".join(bad_close))
        return ok

    def obligation(self, name, ok, detail="", **extra):
        self.obligations.append({"name": name, "discharged": bool(ok), "detail": detail, **extra})

    # ---------- model side ----------
    def model(self, requests: list[str], group=None) -> list[str]:
        if not requests:
            return []
        group = group or self.groups[0]
        r = subprocess.run([os.path.join(BIN, group)], input="\n".join(requests) + "\n", capture_output=True, text=True, timeout=1800)
        out = r.stdout.split("\n")
        if out and out[-1] == "":
            out.pop()
        if len(out) != len(requests):
            raise RuntimeError(f"driver returned {len(out)} lines for {len(requests)} requests: {r.stderr[-500:]}")
        return out

    # ---------- bookkeeping ----------
    def unit(self, name, what="") -> Unit:
        if name not in self.units:
            self.units[name] = Unit(name, what)
        return self.units[name]

    def sample(self, s):
        if len(self.samples) < 12:
            self.samples.append(s)

    def violation(self, *, sig, what, case, found_input, unit=None, expected=None, observed=None, reproducer=None, broken=None):
        """Record a violation (or a known finding).  sig: stable identification of WHAT fails (class/method/
        input predicate) matched against known_findings.json."""
        for k in self.known:
            if k.get("status") == "known" and k["property"] == self.prop and re.fullmatch(k["match"], sig):
                msg = f"KNOWN-FINDING: property={self.prop} {k['text']}"
                if msg not in self.known_hits:
                    self.known_hits.append(msg)
                return
        # one replay per distinct sig
        if any(v["sig"] == sig for v in self.violations):
            for v in self.violations:
                if v["sig"] == sig:
                    v["count"] += 1
            return
        rep = {
            "property": self.prop, "unit": unit, "sig": sig, "what": what,
            "kind": "input" if found_input else "no-failing-input-found",
            "seed": self.seed, "tier": self.tier, "case": case, "expected": expected, "observed": observed,
            "theorem_or_unit_broken": broken or unit, "reproducer": reproducer,
        }
        path = os.path.join(VERIF, "replays", f"{self.prop}-{sha(rep)}.json")
        os.makedirs(os.path.dirname(path), exist_ok=True)
        with open(path, "w") as f:
            json.dump(rep, f, indent=1, default=str)
        self.violations.append({"sig": sig, "path": path, "found_input": found_input, "count": 1, "what": what})

    # ---------- finish ----------
    def finish(self, level="proof", extra_cov=None, explanation=None) -> int:
        evals = sum(u.cases for u in self.units.values())
        distinct = sum(len(u.nontrivial) for u in self.units.values())
        n_obl = len(self.obligations)
        n_dis = sum(1 for o in self.obligations if o["discharged"])
        for o in self.obligations:
            if not o["discharged"]:
                self.violation(
                    sig=f"obligation:{o['name']}", what=f"proof obligation no longer checks: {o['name']} {o['detail'][:300]}",
                    case={"obligation": o["name"], "detail": o["detail"]}, found_input=False, broken=o["name"],
                )
        cov = {
            "obligations": n_obl,
            "discharged": n_dis,
            "checker_cmd": f"cd /verif && ./build.sh && cd coq && coqc -Q . FJ Props/{self.prop}.v   # then ./check {self.prop} --tier {self.tier}",
            "trusted_base": self.trusted + ["axioms under Print Assumptions of this property's theorems: " + (", ".join(sorted(self.axioms_seen)) or "none (closed under the global context)")],
            "evaluations": evals,
            "distinct_nontrivial": distinct,
            "rule": "; ".join(f"{u.name}: {u.what}" for u in self.units.values()),
            "samples": self.samples or [o["name"] for o in self.obligations[:5]],
            "units": {u.name: {"cases": u.cases, "distinct": len(u.hashes), "distinct_nontrivial": len(u.nontrivial),
                               "disagreements": u.disagreements, "histogram": u.hist} for u in self.units.values()},
            "obligation_list": [{k: v for k, v in o.items() if k != "detail" or v} for o in self.obligations],
            "notes": self.notes,
            "known_findings_hit": self.known_hits,
        }
        if explanation:
            cov["explanation"] = explanation
        if extra_cov:
            cov.update(extra_cov)
        ev = {
            "property_id": self.prop, "tier": self.tier, "seed": int(self.seed_base), "level": level, "coverage": cov,
            "assumptions": self.assumptions, "wall_s": round(time.time() - self.t0, 2), "violations": len(self.violations),
        }
        evdir = os.environ.get("VERIF_EVIDENCE_DIR") or os.path.join(VERIF, "evidence")  # the override is for mutation trials only
        os.makedirs(evdir, exist_ok=True)
        with open(os.path.join(evdir, f"{self.prop}.json"), "w") as f:
            json.dump(ev, f, indent=1, default=str)
        for m in self.known_hits:
            print(m)
        for v in self.violations:
            tail = "" if v["found_input"] else " no-failing-input-found"
            print(f"VIOLATION property={self.prop} replay={v['path']}{tail}")
            print(f"  ({v['what'][:300]}; {v['count']} case(s))")
        print(f"[{self.prop}] tier={self.tier} seed={self.seed} obligations {n_dis}/{n_obl} cases {evals} "
              f"distinct-nontrivial {distinct} violations {len(self.violations)} wall {ev['wall_s']}s")
        return 1 if self.violations else 0


def load_known():
    p = os.path.join(VERIF, "known_findings.json")
    if not os.path.exists(p):
        return []
    return json.load(open(p))["findings"]


def strip_coq_comments(s: str) -> str:
    out, depth, i = [], 0, 0
    while i < len(s):
        if s.startswith("(*", i):
            depth += 1
            i += 2
        elif s.startswith("*)", i) and depth:
            depth -= 1
            i += 2
        else:
            if not depth:
                out.append(s[i])
            i += 1
    return "".join(out)


def in_section(txt: str, pos: int) -> bool:
    opened = len(re.findall(r"^\s*Section\s+\w+", txt[:pos], re.M))
    closed = 0
    for m in re.finditer(r"^\s*End\s+(\w+)\s*\.", txt[:pos], re.M):
        if re.search(r"^\s*Section\s+" + re.escape(m.group(1)) + r"\b", txt[: m.start()], re.M):
            closed += 1
    return opened > closed


def parse_assumptions(out: str):
    """Split coqc stdout into one list of axioms per Print Assumptions.  Inside an `Axioms:` block every line that starts
    in column 0 with an identifier names an axiom (its type follows after ` : ` or, for long types, on indented
    continuation lines); any other column-0 line ends the block."""
    blocks, cur = [], None
    for line in out.split("\n"):
        if line.startswith("Closed under the global context"):
            if cur is not None:
                blocks.append(cur)
                cur = None
            blocks.append([])
        elif line.startswith("Axioms:"):
            if cur is not None:
                blocks.append(cur)
            cur = []
        elif cur is not None:
            if line.strip() == "" or line[0] in " \t":
                continue
            m = re.match(r"^([A-Za-z_][\w.']*)\s*(:|$)", line)
            if m:
                cur.append(m.group(1))
            else:  # some other vernacular output: the block is over
                blocks.append(cur)
                cur = None
    if cur is not None:
        blocks.append(cur)
    return blocks


def check_props_discipline(src: str):
    """Every Theorem in a Props file must be `Proof. exact <lemma>. Qed.` followed by Print Assumptions."""
    bad = []
    body = strip_coq_comments(src)
    for m in re.finditer(r"(?:Theorem|Corollary)\s+(\w+)(.*?)Qed\.\s*(Print Assumptions\s+(\w+)\.)?", body, re.S):
        name, stmt, pa, pan = m.group(1), m.group(2), m.group(3), m.group(4)
        if not re.search(r"Proof\.\s*exact\s+[\w.@]+\.\s*$", stmt.strip() + "", re.S):
            bad.append(f"{name}: not closed by a single exact")
        if not pa or pan != name:
            bad.append(f"{name}: no Print Assumptions beneath")
    return bad
