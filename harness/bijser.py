"""Serialiser flowjax bijection object -> model term (S-expression understood by ocaml/drv_bij.ml), shared by
C08 and C13, plus the small exact modules the generators use and the parser of the driver's answers.

The serialiser walks the REAL object (class + fields, parameters after `unwrap`); nothing is remembered from
the way the object was generated.  Unknown classes raise `Unsupported` (C08) or become `(opaque shape cshape)`
(C13, where only shapes / raise-vs-ok are compared)."""

from __future__ import annotations

import numpy as np

from harness.common import fhex, fparse


class Unsupported(Exception):
    pass


_mods = {}


def enable_compile_cache():
    """Persistent XLA compilation cache (eager flowjax calls compile one tiny executable per primitive x shape;
    that dominates the run time of the tree units).  Keyed by HLO + jax version, so it cannot mask a change of /repo."""
    import os

    import jax

    d = os.path.join(os.path.dirname(os.path.abspath(__file__)), ".cache", "jax")
    try:
        os.makedirs(d, exist_ok=True)
        jax.config.update("jax_compilation_cache_dir", d)
        jax.config.update("jax_persistent_cache_min_compile_time_secs", 0)
        jax.config.update("jax_persistent_cache_min_entry_size_bytes", -1)
    except Exception:  # noqa: BLE001
        pass


def mods():
    """Exact helper modules (created lazily, after init_jax)."""
    if _mods:
        return _mods
    import equinox as eqx
    import jax
    import jax.numpy as jnp

    class WSum(eqx.Module):
        """AdditiveCondition module: c -> (c * w).sum()   (exact on small integers)"""
        w: jax.Array

        def __call__(self, c):
            return (c * self.w).sum()

    class EMulNet(eqx.Module):
        """EmbedCondition net: c -> c * z"""
        z: int = eqx.field(static=True)

        def __call__(self, c):
            return c * self.z

    class ETakeNet(eqx.Module):
        """EmbedCondition net: c -> c[:k]"""
        k: int = eqx.field(static=True)

        def __call__(self, c):
            return c[: self.k]

    _mods.update(WSum=WSum, EMulNet=EMulNet, ETakeNet=ETakeNet)
    return _mods


# ---------------------------------------------------------------- terms
def s_shape(s):
    return "(" + " ".join(str(int(n)) for n in s) + ")"


def s_oshape(s):
    return "none" if s is None else s_shape(s)


def s_tensor(a):
    a = np.asarray(a, dtype=np.float64)
    return f"(t {s_shape(a.shape)} ({' '.join(fhex(v) for v in a.ravel())}))"


def s_otensor(a):
    return "none" if a is None else s_tensor(a)


def s_oint(v):
    return "none" if v is None else str(int(v))


def _is_int(v):
    return isinstance(v, (int, np.integer)) and not isinstance(v, (bool, np.bool_))


def s_sel(i):
    if _is_int(i):
        return f"(int {int(i)})"
    if isinstance(i, slice):
        for v in (i.start, i.stop, i.step):
            if v is not None and not _is_int(v):
                raise Unsupported("slice with non-int bounds")
        return f"(slice {s_oint(i.start)} {s_oint(i.stop)} {s_oint(i.step)})"
    if hasattr(i, "dtype") and hasattr(i, "shape"):
        a = np.asarray(i)
        if a.ndim != 1:
            raise Unsupported(f"index array of rank {a.ndim}")
        if a.dtype == np.bool_:
            return "(mask" + "".join(" 1" if v else " 0" for v in a) + ")"
        if np.issubdtype(a.dtype, np.integer):
            return "(arr" + "".join(f" {int(v)}" for v in a) + ")"
    raise Unsupported(f"index of type {type(i).__name__}")


def s_idx(idxs):
    if isinstance(idxs, tuple):
        return "(" + " ".join(s_sel(i) for i in idxs) + ")"
    return "(" + s_sel(idxs) + ")"


# constructor terms from already serialised children (used for constructor-exception cases too)
def t_chain(ch): return "(chain" + "".join(" " + c for c in ch) + ")"
def t_scan(ch): return "(scan" + "".join(" " + c for c in ch) + ")"
def t_invert(c): return f"(invert {c})"
def t_concat(axis, ch): return f"(concat {int(axis)}" + "".join(" " + c for c in ch) + ")"
def t_stack(axis, ch): return f"(stack {int(axis)}" + "".join(" " + c for c in ch) + ")"
def t_vmap(n, mapped, cax, ch): return f"(vmap {int(n)} {int(bool(mapped))} {s_oint(cax)}" + "".join(" " + c for c in ch) + ")"
def t_partial(idxs, shape, c): return f"(partial {s_idx(idxs)} {s_shape(shape)} {c})"
def t_reshape(shape, cshape, c): return f"(reshape {s_oshape(shape)} {s_oshape(cshape)} {c})"
def t_opaque(shape, cshape): return f"(opaque {s_shape(shape)} {s_oshape(cshape)})"


def _slice_tree(tree, axes_fn, i):
    """tree with every array leaf that is mapped (axes_fn(leaf) -> axis or None) replaced by its i-th slice"""
    import jax
    import jax.numpy as jnp

    leaves, td = jax.tree_util.tree_flatten(tree)
    axes = axes_fn(leaves)
    out = [l if ax is None else jnp.take(l, i, axis=ax) for l, ax in zip(leaves, axes)]
    return jax.tree_util.tree_unflatten(td, out)


def vmap_children(b):
    """(mapped?, [child per slice] or [child]) of a Vmap object (after unwrap)"""
    import equinox as eqx
    import jax

    in_axes = b.in_axes[0]
    child = b.bijection
    if in_axes is None:
        return False, [child]

    def axes_fn(leaves):
        if callable(in_axes):
            return [in_axes(l) for l in leaves]
        if _is_int(in_axes):
            return [in_axes if eqx.is_array(l) else None for l in leaves]
        spec = jax.tree_util.tree_leaves(in_axes, is_leaf=lambda x: x is None)
        if len(spec) == len(leaves) and all(a is None or _is_int(a) for a in spec):
            return list(spec)
        raise Unsupported("in_axes form")

    leaves = jax.tree_util.tree_leaves(child)
    if all(a is None for a in axes_fn(leaves)):
        return False, [child]
    return True, [_slice_tree(child, axes_fn, i) for i in range(b.axis_size)]


def scan_children(b):
    import equinox as eqx
    import jax

    leaves = [l for l in jax.tree_util.tree_leaves(b.bijection) if eqx.is_array(l)]
    if not leaves:
        raise Unsupported("Scan without array leaves")
    n = leaves[0].shape[0]
    return [_slice_tree(b.bijection, lambda ls: [0 if eqx.is_array(l) else None for l in ls], i) for i in range(n)]


def ser(b, opaque_unknown=False):
    """model term of a flowjax bijection object"""
    import flowjax.bijections as fb
    from flowjax.wrappers import unwrap

    b = unwrap(b)
    return _ser(b, opaque_unknown, fb, mods())


def _ser(b, oq, fb, M):
    r = lambda x: _ser(x, oq, fb, M)  # noqa: E731
    t = type(b)
    if t is fb.Identity:
        return t_opaque(b.shape, None)
    if t is fb.Loc:
        return f"(loc {s_tensor(b.loc)})"
    if t is fb.Scale:
        return f"(scale {s_tensor(b.scale)})"
    if t is fb.Affine:
        return f"(affine {s_tensor(b.loc)} {s_tensor(b.scale)})"
    if t is fb.Flip:
        return f"(flip {s_shape(b.shape)})"
    if t is fb.Permute:
        if len(b.shape) == 0:
            p = [0]
        else:
            p = np.ravel_multi_index([np.asarray(i) for i in b.permutation], b.shape).ravel()
        return f"(perm {s_shape(b.shape)} ({' '.join(str(int(v)) for v in p)}))"
    if t is fb.AdditiveCondition and isinstance(b.module, M["WSum"]):
        if tuple(b.module.w.shape) != tuple(b.cond_shape):
            raise Unsupported("WSum weight shape differs from cond_shape")
        return f"(addcond {s_shape(b.shape)} {s_tensor(b.module.w)})"
    if t is fb.Chain:
        return t_chain([r(c) for c in b.bijections])
    if t is fb.Scan:
        return t_scan([r(c) for c in scan_children(b)])
    if t is fb.Invert:
        return t_invert(r(b.bijection))
    if t is fb.Concatenate:
        return t_concat(b.axis, [r(c) for c in b.bijections])
    if t is fb.Stack:
        return t_stack(b.axis, [r(c) for c in b.bijections])
    if t is fb.Vmap:
        mapped, ch = vmap_children(b)
        return t_vmap(b.axis_size, mapped, b.in_axes[2], [r(c) for c in ch])
    if t is fb.Partial:
        return t_partial(b.idxs, b.shape, r(b.bijection))
    if t is fb.Reshape:
        return t_reshape(b.shape, b.cond_shape, r(b.bijection))
    if t is fb.EmbedCondition:
        net = b.embedding_net
        if isinstance(net, M["EMulNet"]):
            e = f"(mul {int(net.z)})"
        elif isinstance(net, M["ETakeNet"]):
            e = f"(take {int(net.k)})"
        elif oq:
            return t_opaque(b.shape, b.cond_shape)
        else:
            raise Unsupported("embedding net")
        return f"(embed {e} {s_shape(b.cond_shape)} {r(b.bijection)})"
    if oq:
        return t_opaque(b.shape, b.cond_shape)
    raise Unsupported(t.__name__)


# ---------------------------------------------------------------- answers
def _tokens(s):
    return s.replace("(", " ( ").replace(")", " ) ").split()


def _parse(tokens, i):
    if tokens[i] == "(":
        out, i = [], i + 1
        while tokens[i] != ")":
            v, i = _parse(tokens, i)
            out.append(v)
        return out, i + 1
    return tokens[i], i + 1


def parse_terms(s):
    toks, i, out = _tokens(s), 0, []
    while i < len(toks):
        v, i = _parse(toks, i)
        out.append(v)
    return out


def to_array(term):
    assert term[0] == "t", term
    shape = tuple(int(n) for n in term[1])
    return np.array([fparse(v) for v in term[2]], dtype=np.float64).reshape(shape)


def parse_sig(line):
    """'ok (s) (cs)|none' -> ('ok', shape, cshape) ; 'err kind' -> ('err', kind)"""
    t = parse_terms(line)
    if t[0] == "ok":
        return ("ok", tuple(int(n) for n in t[1]), None if t[2] == "none" else tuple(int(n) for n in t[2]))
    if t[0] == "err":
        return ("err", t[1])
    raise RuntimeError("driver: " + line)


def parse_run(line):
    """-> ('ok', y, ld or None) | ('err', kind)"""
    t = parse_terms(line)
    if t[0] == "ok":
        return ("ok", to_array(t[1]), None if t[2] == "-" else to_array(t[2]))
    if t[0] == "err":
        return ("err", t[1])
    raise RuntimeError("driver: " + line)
