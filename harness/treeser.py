"""Serialiser real pytree -> model term (S-expression understood by ocaml/drv_tree.ml), its parser, comparison of
two terms, and a builder of real pytrees from JSON specs (so that every generated case is self-contained and can be
replayed).  Used by harness/c12.py and harness/c14.py.

Term grammar (blank separated tokens):
  ( A <F|I|B|PF|PI|PB> <shape d,d|-> <data hex,hex|-> )   array-like leaf (jax/numpy array; python float/int/bool)
  ( S <payload> )                                         any other leaf
  N                                                       None
  ( T <tag> child ... )                                   container / eqx.Module (children = tree_flatten_one_level)
  ( W <id> <NT|BR|WH|WN|LA> child ... )                   AbstractUnwrappable (dynamic fields in order, incl. _dummy)
"""

from __future__ import annotations

import re

import numpy as np

from harness.common import fhex, fparse

WK = {"NonTrainable": "NT", "BijectionReparam": "BR", "Where": "WH", "WeightNormalization": "WN", "Lambda": "LA"}
BIJ_WITH_SHAPE = ("Exp", "SoftPlus", "Tanh", "Loc", "Scale", "Affine", "Chain")

# ---- the functions the harness puts inside Lambda (model: fid in Model/Tree.v) ----
_calls = []  # trace of Lambda function calls (names), appended at call (= trace) time


def _mk_fns():
    import jax.numpy as jnp

    def exp(x):
        _calls.append("fn:exp")
        return jnp.exp(x)

    def add1(x):
        _calls.append("fn:add1")
        return x + 1

    def neg(x):
        _calls.append("fn:neg")
        return -x

    def add(x, y):
        _calls.append("fn:add")
        return x + y

    def sum_(x):
        _calls.append("fn:sum")
        return jnp.sum(x)

    def mul(x, *, s):
        _calls.append("fn:mul")
        return x * s

    def pair(x):
        _calls.append("fn:pair")
        return (x, -x)

    def zero():
        _calls.append("fn:zero")
        return jnp.zeros(())

    return {"fn:exp": exp, "fn:add1": add1, "fn:neg": neg, "fn:add": add, "fn:sum": sum_, "fn:mul": mul, "fn:pair": pair,
            "fn:zero": zero}


_FNS = {}


def fns():
    if not _FNS:
        _FNS.update(_mk_fns())
    return _FNS


def fn_name(f):
    for k, v in fns().items():
        if v is f:
            return k
    return None


def _san(s: str) -> str:
    return re.sub(r"[^A-Za-z0-9_.:@,+\-=\[\]]", "_", s) or "_"


_mods = {}


def mods():
    """Test eqx.Module classes of arity 1..3 with a static field (containers of the generated trees)."""
    if not _mods:
        import equinox as eqx
        from typing import Any

        class M1(eqx.Module):
            a: Any
            name: str = eqx.field(static=True, default="m")

        class M2(eqx.Module):
            a: Any
            b: Any
            name: str = eqx.field(static=True, default="m")

        class M3(eqx.Module):
            a: Any
            b: Any
            c: Any
            name: str = eqx.field(static=True, default="m")

        _mods.update({1: M1, 2: M2, 3: M3})
    return _mods


def _is_tracer(x):
    import jax

    return isinstance(x, jax.core.Tracer)


def ser(x, values=True, ids=True, _ctr=None) -> str:
    """Serialise a real pytree.  ids: number the wrappers in pre-order (1, 2, ...); otherwise every id is 0.
    values=False: array data is not written (shape and kind only) -- for traced values."""
    import equinox as eqx
    import jax
    import jax.tree_util as jtu
    from flowjax.wrappers import AbstractUnwrappable

    if _ctr is None:
        _ctr = [0]
    if x is None:
        return "N"
    if isinstance(x, AbstractUnwrappable):
        _ctr[0] += 1
        wid = _ctr[0] if ids else 0
        kind = WK.get(type(x).__name__)
        if kind is None:
            raise ValueError(f"unknown wrapper class {type(x).__name__}")
        children, _ = eqx.tree_flatten_one_level(x)
        return f"( W {wid} {kind} " + "".join(ser(c, values, ids, _ctr) + " " for c in children) + ")"
    if isinstance(x, (jax.Array, np.ndarray, np.generic)):
        dt = np.dtype(x.dtype)
        kind = "B" if dt == np.bool_ else ("I" if np.issubdtype(dt, np.integer) else "F")
        shape = ",".join(str(int(d)) for d in x.shape) or "-"
        if not values or _is_tracer(x):
            return f"( A {kind} {shape} - )"
        data = ",".join(fhex(v) for v in np.asarray(x, dtype=np.float64).ravel()) or "-"
        return f"( A {kind} {shape} {data} )"
    if isinstance(x, bool):
        return f"( A PB - {fhex(float(x)) if values else '-'} )"
    if isinstance(x, int):
        return f"( A PI - {fhex(float(x)) if values else '-'} )"
    if isinstance(x, float):
        return f"( A PF - {fhex(float(x)) if values else '-'} )"
    if jtu.all_leaves([x]):
        n = fn_name(x)
        if n is not None:
            return f"( S {n} )"
        if isinstance(x, str):
            return f"( S str:{_san(x)} )"
        return f"( S {_san(type(x).__name__)} )"
    children, _ = eqx.tree_flatten_one_level(x)
    if isinstance(x, dict):
        tag = "dict:" + ",".join(_san(str(k)) for k in sorted(x.keys()))
    else:
        tag = type(x).__name__
        if tag in BIJ_WITH_SHAPE:
            import dataclasses

            names = [f.name for f in dataclasses.fields(x) if not f.metadata.get("static", False)]
            want = {"Loc": ["loc"], "Scale": ["scale"], "Affine": ["loc", "scale"], "Chain": ["bijections"]}.get(tag, ["shape"])
            tag = tag + "@" + ",".join(str(names.index(w)) for w in want if w in names)
    return f"( T {_san(tag)} " + "".join(ser(c, values, ids, _ctr) + " " for c in children) + ")"


# ---------------- parsing and comparison of terms ----------------
def parse(s: str):
    toks = s.split()
    t, r = _parse(toks, 0)
    if r != len(toks):
        raise ValueError("trailing tokens")
    return t


def _parse(toks, i):
    if toks[i] == "N":
        return ("N",), i + 1
    assert toks[i] == "(", toks[i:i + 5]
    k = toks[i + 1]
    if k == "A":
        kind, sh, data = toks[i + 2], toks[i + 3], toks[i + 4]
        assert toks[i + 5] == ")"
        shape = [] if sh == "-" else [int(d) for d in sh.split(",")]
        vals = None if data == "-" and int(np.prod(shape)) != 0 else ([] if data == "-" else [fparse(v) for v in data.split(",")])
        return ("A", kind, shape, vals), i + 6
    if k == "S":
        assert toks[i + 3] == ")"
        return ("S", toks[i + 2]), i + 4
    if k == "T":
        tag, j, ch = toks[i + 2], i + 3, []
        while toks[j] != ")":
            c, j = _parse(toks, j)
            ch.append(c)
        return ("T", tag, ch), j + 1
    if k == "W":
        wid, kind, j, ch = int(toks[i + 2]), toks[i + 3], i + 4, []
        while toks[j] != ")":
            c, j = _parse(toks, j)
            ch.append(c)
        return ("W", wid, kind, ch), j + 1
    raise ValueError(f"bad token {k}")


def _close(a, b, rtol):
    if a != a or b != b:
        return a != a and b != b
    if a in (float("inf"), float("-inf")) or b in (float("inf"), float("-inf")):
        return a == b
    return a == b or abs(a - b) <= rtol * max(1.0, abs(a), abs(b))


def diff(a, b, rtol=0.0, ids=False, values=True, path=()):
    """First difference between two parsed terms (None if equal): structure, kinds, shapes exact; values to rtol
    (rtol=0: bit for bit).  Returns (path, description)."""
    if a[0] != b[0]:
        return path, f"node kind {a[0]} vs {b[0]}"
    if a[0] == "N":
        return None
    if a[0] == "A":
        if a[1] != b[1]:
            return path, f"array kind {a[1]} vs {b[1]}"
        if a[2] != b[2]:
            return path, f"shape {a[2]} vs {b[2]}"
        if values and a[3] is not None and b[3] is not None:
            if len(a[3]) != len(b[3]):
                return path, f"data length {len(a[3])} vs {len(b[3])}"
            for i, (u, v) in enumerate(zip(a[3], b[3])):
                if not _close(u, v, rtol):
                    return path, f"value[{i}] {u!r} vs {v!r}"
        return None
    if a[0] == "S":
        return None if a[1] == b[1] else (path, f"static {a[1]} vs {b[1]}")
    if a[0] == "T":
        if a[1] != b[1]:
            return path, f"tag {a[1]} vs {b[1]}"
        ca, cb = a[2], b[2]
    else:
        if ids and a[1] != b[1]:
            return path, f"wrapper id {a[1]} vs {b[1]}"
        if a[2] != b[2]:
            return path, f"wrapper class {a[2]} vs {b[2]}"
        ca, cb = a[3], b[3]
    if len(ca) != len(cb):
        return path, f"{len(ca)} vs {len(cb)} children"
    for i, (x, y) in enumerate(zip(ca, cb)):
        d = diff(x, y, rtol, ids, values, path + (i,))
        if d:
            return d
    return None


def leaf_paths(t, path=()):
    """[(path, node)] for every leaf (A / S) of a parsed term."""
    if t[0] in ("A", "S"):
        return [(path, t)]
    if t[0] == "N":
        return []
    ch = t[2] if t[0] == "T" else t[3]
    out = []
    for i, c in enumerate(ch):
        out += leaf_paths(c, path + (i,))
    return out


def count_wrappers(t):
    if t[0] == "W":
        return 1 + sum(count_wrappers(c) for c in t[3])
    if t[0] == "T":
        return sum(count_wrappers(c) for c in t[2])
    return 0


def depth_wrappers(t):
    if t[0] == "W":
        return 1 + max([depth_wrappers(c) for c in t[3]] + [0])
    if t[0] == "T":
        return max([depth_wrappers(c) for c in t[2]] + [0])
    return 0


# ---------------- building real pytrees from JSON specs ----------------
def build(spec, leaves=None):
    """spec (JSON) -> real pytree.  If [leaves] (an iterator of arrays) is given, every jax-array leaf of the spec takes
    its value from it (used to build under eqx.filter_vmap)."""
    import equinox as eqx
    import jax.numpy as jnp
    from flowjax import bijections as bij
    from flowjax import wrappers as w

    def arr(s):
        if s["a"] in ("PF", "PI", "PB"):
            v = s["data"][0]
            return float(v) if s["a"] == "PF" else (int(v) if s["a"] == "PI" else bool(v))
        if leaves is not None:
            return next(leaves)
        dt = {"F": jnp.float64, "I": jnp.int64, "B": jnp.bool_}[s["a"]]
        if s.get("np"):
            return np.array(s["data"], dtype=np.float64).reshape(s["shape"]).astype({"F": np.float64, "I": np.int64, "B": np.bool_}[s["a"]])
        return jnp.asarray(np.array(s["data"], dtype=np.float64).reshape(s["shape"]), dtype=dt)

    def go(s):
        if "a" in s:
            return arr(s)
        if "none" in s:
            return None
        if "s" in s:
            return fns()[s["s"]] if s["s"].startswith("fn:") else s["s"]
        if "t" in s:
            ch = [go(c) for c in s["c"]]
            if s["t"] == "tuple":
                return tuple(ch)
            if s["t"] == "list":
                return list(ch)
            if s["t"] == "dict":
                return dict(zip(s["keys"], ch))
            if s["t"] == "mod":
                return mods()[len(ch)](*ch)
            raise ValueError(s["t"])
        if "b" in s:
            return gobij(s)
        if "vmap" in s:
            return build_vmapped(s)
        k = s["w"]
        if k == "NT":
            return w.NonTrainable(go(s["c"][0]))
        if k == "WH":
            return w.Where(*[go(c) for c in s["c"]])
        if k == "WN":
            wn = w.WeightNormalization(go(s["c"][0]))
            if "scale_arr" in s:  # move the scale parameter away from its initial value
                wn = eqx.tree_at(lambda t: t.scale.arr, wn, go(s["scale_arr"]))
            return wn
        if k == "BR":
            return w.BijectionReparam(go(s["c"][0]), gobij(s["bij"]), invert_on_init=False)
        if k == "LA":
            return w.Lambda(fns()[s["fn"]], *[go(c) for c in s.get("args", [])], **{kk: go(v) for kk, v in s.get("kwargs", {}).items()})
        raise ValueError(k)

    def gobij(s):
        b = s["b"]
        if b in ("Exp", "SoftPlus", "Tanh"):
            r = getattr(bij, b)(tuple(s.get("shape", [])))
        elif b == "Loc":
            r = bij.Loc(go(s["loc"]))
        elif b == "Scale":
            r = bij.Scale(go(s["scale"]))
        elif b == "Affine":
            r = bij.Affine(go(s["loc"]), go(s["scale"]))
        elif b == "Chain":
            r = bij.Chain([gobij(x) for x in s["bs"]])
        else:
            raise ValueError(b)
        if s.get("nt"):
            r = w.non_trainable(r)
        return r

    return go(spec)


def spec_array_leaves(spec):
    """The jax-array leaves ('F','I','B') of a spec in build order."""
    out = []

    # order must match build(): replicate its traversal order
    def order(s):
        if "a" in s:
            if s["a"] in ("F", "I", "B"):
                out.append(s)
            return
        if "none" in s or "s" in s:
            return
        if "t" in s:
            for c in s["c"]:
                order(c)
            return
        if "b" in s:
            obij(s)
            return
        k = s["w"]
        if k in ("NT", "WH"):
            for c in s["c"]:
                order(c)
        elif k == "WN":
            order(s["c"][0])
            if "scale_arr" in s:
                order(s["scale_arr"])
        elif k == "BR":
            order(s["c"][0])
            obij(s["bij"])
        elif k == "LA":
            for c in s.get("args", []):
                order(c)
            for v in s.get("kwargs", {}).values():
                order(v)

    def obij(s):
        b = s["b"]
        if b == "Loc":
            order(s["loc"])
        elif b == "Scale":
            order(s["scale"])
        elif b == "Affine":
            order(s["loc"])
            order(s["scale"])
        elif b == "Chain":
            for x in s["bs"]:
                obij(x)

    order(spec)
    return out


def _flatten_variants(v):
    """variants: a spec (level 0) or a list of variants -> (batch shape, list of flat specs in C order)."""
    if isinstance(v, dict):
        return (), [v]
    shapes, flat = None, []
    for x in v:
        sh, fl = _flatten_variants(x)
        shapes = sh
        flat += fl
    return (len(v),) + shapes, flat


def build_vmapped(s):
    """{"vmap": levels, "variants": nested list of structurally identical specs}: the wrapper constructed under
    `levels` nested eqx.filter_vmap from the stacked array leaves of the variants."""
    import equinox as eqx
    import jax.numpy as jnp

    batch, flat = _flatten_variants(s["variants"])
    template = flat[0]
    per = [spec_array_leaves(f) for f in flat]
    n_leaves = len(per[0])
    dts = {"F": jnp.float64, "I": jnp.int64, "B": jnp.bool_}
    stacked = []
    for j in range(n_leaves):
        arrs = [np.array(p[j]["data"], dtype=np.float64).reshape(p[j]["shape"]) for p in per]
        a = np.stack(arrs).reshape(batch + tuple(per[0][j]["shape"]))
        stacked.append(jnp.asarray(a, dtype=dts[per[0][j]["a"]]))

    def ctor(ls):
        return build(template, iter(ls))

    f = ctor
    for _ in batch:
        f = eqx.filter_vmap(f)
    if n_leaves == 0:
        f = ctor
        for d in reversed(batch):
            f = eqx.filter_vmap(f, axis_size=d)
    return f(stacked)


def flat_variants(s):
    return _flatten_variants(s["variants"])
