"""C15 -- fit_to_data never loses, duplicates or misaligns data.

Tie (exact): the real fit_to_data is run with a user-supplied loss_fn (public extension point) that reports, through
an ordered host callback, the x rows, the condition rows, the key and the parameter counter of every call; rows are
tagged with their index (x[i,:] = i, condition[i,:] = 100+i), the optimiser is a counting one (+1 per update) and
patience is effectively infinite, so every epoch runs.  The extracted Coq model (Model/Data.v: fit_trace) is
instantiated with the ACTUAL permutations (the harness replays jr.split / jr.permutation along the key paths the
model asks for) and must reproduce the observed ordered call list exactly: kind (gradient step or not), key bits,
row lists of x and of condition.  Units below the loop: train_val_split and get_batches against their model
functions, and the n_train = n - round(val_prop*n) glue.
Oracle (independent of the model): the clauses of the property evaluated on the observed call list alone.
"""

import json
import os

import numpy as np

PROPERTY = "C15"
GROUPS = ["data"]
MANIFEST = {
    "design_ref": "DESIGN.md 4.15",
    "technique": "Coq proof (lists, Permutation, NoDup; induction over epochs and batches) about an executable model of the data path of "
                 "fit_to_data (Model/Data.v) + exact correspondence of the extracted model, fed with the permutations JAX really drew, "
                 "with the ordered list of loss_fn calls observed on the real fit_to_data",
    "text": "Theorems (closed under the global context; for EVERY dataset size n, every 0 < n_train < n, every batch_size >= 1, every number "
            "of epochs, with and without a condition array, and for EVERY permutation oracle of which only 'perm k n is a permutation of "
            "0..n-1' is assumed): the two halves returned by train_val_split partition the rows and every array is cut along the same rows; "
            "in every loss call x row i is paired with condition row i (through the split and every per-epoch shuffle); in one epoch the "
            "Train calls are the consecutive full batches (exactly min(bs, n_train) rows each) of a permutation of the training half, so "
            "each training row is used at most once and exactly the trailing n_train mod b < b rows of the shuffled order are skipped "
            "(same for validation); rows of Train calls are never validation rows, in any epoch; all keys handed to the loss and to "
            "jr.permutation are pairwise distinct split paths; nothing raises; determinism is trivial in the model. The model is tied to "
            "/repo on every run: the real fit_to_data, observed through a callback loss_fn with index-tagged rows and a counting "
            "optimiser, must give exactly the model's ordered call list (kind, key bits, x rows, condition rows) when the model is "
            "instantiated with the permutations JAX actually drew along the model's key paths; train_val_split, get_batches and the "
            "n_train rounding glue are compared separately; same-key reproducibility and the property's clauses are evaluated on the "
            "observation alone. Partial in this sense only: the float arithmetic n - round(val_prop*n) is glue (checked on a grid, not "
            "proved), the patience rule is C16's (the model runs a fixed number of epochs; an early stop is a prefix), and 'distinct "
            "keys' is proved for key PATHS under the assumption that jr.split yields distinct keys along distinct paths.",
    "note": "Trusted: Coq kernel; extraction (ExtrOcamlBasic); ocaml/drv_data.ml + conv.ml; this harness (row tagging, key replay, "
            "comparison). Assumed about JAX: jr.permutation(key, a) permutes axis 0 by a permutation depending only on (key, len a) "
            "(checked against jr.permutation(key, n) on every run), jr.split(key, m)[i] does not depend on m (checked at start-up) and "
            "yields distinct keys along distinct paths (observed keys are checked pairwise distinct). A call is classified as a gradient "
            "step iff the parameter counter of a counting optimiser advanced after it.",
}

_state = {}
_seen = []
BIG_PATIENCE = 1000  # far above any epoch count used here; not astronomically large, so that a change which allocates per unit of patience still terminates
XCOLS = 2  # x[i, :] = i ; condition[i, :] = 100 + i  (two columns: a row torn apart column-wise becomes visible)
COND_TAG = 100


def _setup():
    if _state:
        return _state
    import equinox as eqx
    import jax
    import jax.numpy as jnp
    import jax.random as jr
    import optax
    from flowjax.train import fit_to_data
    from flowjax.train.train_utils import get_batches, train_val_split

    class M(eqx.Module):
        p: jax.Array  # float counter: the only trainable leaf

    opt = optax.GradientTransformation(
        lambda params: (), lambda g, s, params=None: (jax.tree_util.tree_map(jnp.ones_like, g), s)
    )

    def cb(x, c, k, p):
        _seen.append((int(p), tuple(int(v) for v in np.asarray(k).ravel()), np.asarray(x), np.asarray(c)))

    def loss_fn(params, static, x, condition=None, key=None):
        kd = key if jnp.issubdtype(key.dtype, jnp.integer) else jr.key_data(key)
        cc = jnp.zeros((x.shape[0], 0)) if condition is None else condition
        jax.debug.callback(cb, x, cc, kd, params.p, ordered=True)
        # strictly decreasing in the number of updates made so far: no validation loss is ever fruitless, so the run is never stopped
        # early whatever max_patience is (seeded change C15e tied the per-epoch keys to max_patience)
        return 1.0 - 0.001 * params.p

    # the same loss as an instance of a SUBCLASS of the library's MaximumLikelihoodLoss that uses the documented `key` argument
    # (e.g. per-batch dequantisation noise): seeded change C15f stopped splitting keys for isinstance(loss_fn, MaximumLikelihoodLoss)
    from flowjax.train.losses import MaximumLikelihoodLoss

    class KeyedML(MaximumLikelihoodLoss):
        def __call__(self, params, static, x, condition=None, key=None):
            return loss_fn(params, static, x, condition, key)

    _state["loss_ml_subclass"] = KeyedML()
    # jr.split(k, 2)[i] == jr.split(k, 3)[i]: the model's key paths do not record the fan-out
    k = jr.PRNGKey(12345)
    fanout_free = bool((np.asarray(jr.split(k, 2)) == np.asarray(jr.split(k, 3))[:2]).all())
    _state.update(dict(eqx=eqx, jax=jax, jnp=jnp, jr=jr, M=M, opt=opt, loss_fn=loss_fn, fit_to_data=fit_to_data,
                       get_batches=get_batches, train_val_split=train_val_split, fanout_free=fanout_free))
    return _state


# ---------------------------------------------------------------- implementation side
def _decode(a, offset):
    """Row ids of an (rows, cols) array tagged with offset+i in every column; a torn / foreign row -> -1."""
    a = np.asarray(a)
    if a.ndim == 1:
        a = a[:, None]
    if a.shape[1] == 0:
        return None
    out = []
    for row in a:
        v = row[0]
        ok = np.all(row == v) and float(v).is_integer()
        out.append(int(v) - offset if ok else -1)
    return out


def _root_key(case):
    jr = _setup()["jr"]
    return jr.key(case["seed"]) if case.get("typed_key") else jr.PRNGKey(case["seed"])


def key_bits(k):
    s = _setup()
    kd = k if s["jnp"].issubdtype(k.dtype, s["jnp"].integer) else s["jr"].key_data(k)
    return tuple(int(v) for v in np.asarray(kd).ravel())


def run_impl(case):
    """Run the real fit_to_data on a case; returns dict(raised, calls=[(p, keybits, xrows, crows|None)], final_p)."""
    s = _setup()
    jnp = s["jnp"]
    n = case["n"]
    x = jnp.repeat(jnp.arange(n, dtype=float)[:, None], XCOLS, 1)
    c = (COND_TAG + x) if case["has_cond"] else None
    # array dtypes: the rows are data, whatever their dtype (float x with integer class labels as condition is ordinary usage;
    # seeded change C15c shuffled only the floating-point arrays)
    dts = case.get("dtypes") or ["float", "float"]
    x = x.astype(jnp.int32) if dts[0] == "int" else x
    if c is not None and dts[1] == "int":
        c = c.astype(jnp.int32)
    _seen.clear()
    raised, final_p = None, None
    try:
        d, _ = s["fit_to_data"](
            _root_key(case), s["M"](jnp.array(0.0)), x, condition=c, loss_fn=s["loss_ml_subclass"] if case.get("loss_kind") == "ml-subclass" else s["loss_fn"], max_epochs=case["epochs"],
            max_patience=case.get("patience", BIG_PATIENCE), batch_size=case["bs"], val_prop=case["val_prop"], optimizer=s["opt"],
            return_best=False, show_progress=False,
        )
        final_p = int(d.p)
    except ZeroDivisionError:
        raised = "ZeroDivisionError"
    except Exception as e:  # noqa: BLE001   anything else is a failure of a well-formed run (the oracle says so) / a model disagreement
        raised = type(e).__name__
    s["jax"].effects_barrier()
    calls = [(p, kb, _decode(xa, 0), _decode(ca, COND_TAG)) for (p, kb, xa, ca) in _seen]
    _seen.clear()
    return dict(raised=raised, calls=calls, final_p=final_p)


def kinds_of(obs):
    """'T' iff the counting optimiser advanced right after the call (a gradient step), else 'V'; '?' if unknowable
    (the last call before an exception)."""
    ps = [c[0] for c in obs["calls"]] + [obs["final_p"]]
    out = []
    for i in range(len(obs["calls"])):
        nxt = ps[i + 1]
        out.append("?" if nxt is None else ("T" if nxt == ps[i] + 1 else ("V" if nxt == ps[i] else "X")))
    return out


class KeyReplay:
    """path -> the key jr.split produces along it, starting from the case's root key."""

    def __init__(self, root):
        self.memo = {(): root}
        self.jr = _setup()["jr"]

    def get(self, path):
        path = tuple(path)
        if path in self.memo:
            return self.memo[path]
        parent = self.get(path[:-1])
        kids = self.jr.split(parent, max(3, path[-1] + 1))
        for i in range(kids.shape[0]):
            self.memo[path[:-1] + (i,)] = kids[i]
        return self.memo[path]


def parse_path(s):
    return () if s == "-" else tuple(int(t) for t in s.split("."))


def perm_table(case, queries, replay):
    """queries: 'path:n path:n ...' from the model -> table string 'path:n:perm;...' with JAX's actual permutations."""
    jr = _setup()["jr"]
    ents = []
    for q in queries.split():
        p, m = q.split(":")
        m = int(m)
        perm = [int(v) for v in np.asarray(jr.permutation(replay.get(parse_path(p)), m))] if m > 0 else []
        ents.append(f"{p}:{m}:{','.join(map(str, perm)) or '-'}")
    return ";".join(ents) or "-"


def n_train_of(n, val_prop):
    """The documented arithmetic (Python float product, round half to even)."""
    return n - round(val_prop * n)


def parse_model_fit(line):
    toks = line.split()
    raised, n_ep = toks[0] == "1", int(toks[1])
    calls = []
    for t in toks[2:]:
        parts = t.split("/")
        rows = [[] if r == "-" else [int(v) for v in r.split(",")] for r in parts[2:]]
        calls.append((parts[0], parse_path(parts[1]), rows[0], rows[1] if len(rows) > 1 else None))
    return raised, n_ep, calls


def compare(case, obs, mline, replay):
    """Exact comparison model trace vs observed call list; returns a list of differences (empty = agree)."""
    m_raised, m_ep, m_calls = parse_model_fit(mline)
    diffs = []
    if m_raised != (obs["raised"] is not None):
        diffs.append(f"model raises={m_raised}, implementation raised={obs['raised']}")
    if len(m_calls) != len(obs["calls"]):
        diffs.append(f"model makes {len(m_calls)} loss calls, implementation made {len(obs['calls'])}")
        return diffs
    kinds = kinds_of(obs)
    for i, (mc, oc, kd) in enumerate(zip(m_calls, obs["calls"], kinds)):
        if kd != "?" and kd != mc[0]:
            diffs.append(f"call {i}: model kind {mc[0]}, observed {kd}")
        if key_bits(replay.get(mc[1])) != oc[1]:
            diffs.append(f"call {i}: key differs from the key at path {mc[1]}")
        if mc[2] != oc[2]:
            diffs.append(f"call {i} ({mc[0]}): x rows model {mc[2]} observed {oc[2]}")
        if mc[3] != oc[3]:
            diffs.append(f"call {i} ({mc[0]}): condition rows model {mc[3]} observed {oc[3]}")
        if len(diffs) > 6:
            break
    return diffs


# ---------------------------------------------------------------- the property's own clauses (no model)
def impl_n_train(case):
    """The size of the training part the implementation itself chooses for (n, val_prop)."""
    s = _setup()
    x = s["jnp"].zeros((case["n"], 1))
    tr, _ = s["train_val_split"](s["jr"].PRNGKey(0), (x,), val_prop=case["val_prop"])
    return int(tr[0].shape[0])


def oracle(case, obs, obs2=None):
    """The statement of C15 on the observation.  The statement does not fix how val_prop*n is rounded: if the clauses fail
    with the documented n_train = n - round(val_prop*n) but hold with the split size the implementation itself uses, that is
    a glue disagreement (reported by the tie), not a failure of the property."""
    nt_doc = n_train_of(case["n"], case["val_prop"])
    errs = oracle_nt(case, obs, obs2, nt_doc)
    if errs:
        try:
            nt_i = impl_n_train(case)
        except Exception:
            return errs
        if nt_i != nt_doc and (not 0 < nt_i < case["n"] or not oracle_nt(case, obs, obs2, nt_i)):
            return []
    return errs


def oracle_nt(case, obs, obs2, nt):
    """The clauses of C15 evaluated on the observed call list alone, for a split of nt / n - nt rows."""
    n, bs, hc, ep = case["n"], case["bs"], case["has_cond"], case["epochs"]
    errs = []
    if not (0 < nt < n and bs >= 1):
        return errs  # outside the property's quantifier
    if obs["raised"]:
        return [f"raised {obs['raised']} although both parts are non-empty"]
    kinds = kinds_of(obs)
    if "X" in kinds:
        errs.append("parameter counter jumped by something other than 0 or 1 between two loss calls")
    calls = obs["calls"]
    # epochs = maximal runs T..T V..V
    epochs, cur = [], None
    for kd, c in zip(kinds, calls):
        if cur is None or (kd == "T" and cur["V"]):
            cur = {"T": [], "V": []}
            epochs.append(cur)
        cur["T" if kd == "T" else "V"].append(c)
    if ep > 0 and len(epochs) != ep:
        errs.append(f"{len(epochs)} epochs observed (runs of gradient calls followed by validation calls), {ep} requested")
    train_set, val_set = set(), set()
    bt, bv = min(bs, nt), min(bs, n - nt)
    for e, E in enumerate(epochs):
        for kd, b, half in (("T", bt, nt), ("V", bv, n - nt)):
            rows = [r for c in E[kd] for r in c[2]]
            name = "training" if kd == "T" else "validation"
            if not E[kd]:
                errs.append(f"epoch {e}: no {name} call")
            if len(set(rows)) != len(rows):
                dup = sorted({r for r in rows if rows.count(r) > 1})
                errs.append(f"epoch {e}: {name} rows {dup} used more than once")
            if any(r < 0 or r >= n for r in rows):
                errs.append(f"epoch {e}: a {name} call received a row that is not a row of the dataset (torn or foreign)")
            if any(len(c[2]) != b for c in E[kd]):
                errs.append(f"epoch {e}: a {name} batch does not have {b} rows")
            skipped = half - len(set(rows))
            if not (0 <= skipped < b) or skipped != half % b:
                errs.append(f"epoch {e}: {skipped} of {half} {name} rows skipped, expected {half % b} (< batch size {b})")
            (train_set if kd == "T" else val_set).update(rows)
    if train_set & val_set:
        errs.append(f"rows {sorted(train_set & val_set)} are used both in gradient steps and for validation")
    if len(train_set) > nt or len(val_set) > n - nt:
        errs.append(f"{len(train_set)} distinct rows trained on / {len(val_set)} validated on; the split is {nt} / {n - nt}")
    for i, c in enumerate(calls):
        if hc and c[3] != c[2]:
            errs.append(f"call {i}: x rows {c[2]} paired with condition rows {c[3]}")
            break
        if not hc and c[3] is not None:
            errs.append(f"call {i}: a condition was passed although none was given")
            break
    keys = [c[1] for c in calls]
    if len(set(keys)) != len(keys):
        errs.append("the same key was handed to two loss calls")
    if obs2 is not None and (obs2["calls"] != obs["calls"] or obs2["final_p"] != obs["final_p"]):
        errs.append("the same key did not reproduce the same run")
    return errs


# ---------------------------------------------------------------- case generation
VP_GRID = [0.05, 0.1, 0.15, 0.2, 0.25, 0.3, 1.0 / 3.0, 0.4, 0.5, 0.6, 2.0 / 3.0, 0.75, 0.8, 0.9, 0.95]


def gen_val_prop(r, n):
    """A val_prop that leaves both parts non-empty, about a third of them aimed at rounding ties of val_prop*n."""
    for _ in range(50):
        u = r.random()
        if u < 0.5:
            vp = float(VP_GRID[int(r.integers(len(VP_GRID)))])
        elif u < 0.85:
            v = int(r.integers(0, n)) + 0.5  # tie: val_prop*n == v (if the float product is exact)
            vp = float(np.nextafter(v / n, [0.0, 1.0, v / n][int(r.integers(3))]))
        else:
            vp = float(r.uniform(0.01, 0.99))
        if 0 <= vp <= 1 and 0 < n_train_of(n, vp) < n:
            return vp
    return 0.5


def gen_cases(ctx):
    r = ctx.rng
    nmax, emax = (30, 3) if ctx.quick else (60, 4)
    N = 180 if ctx.quick else 4000
    cases = []
    # few (batch size, has_cond) buckets dominate compile time: draw effective batch sizes from a per-run pool + free ones
    pool = sorted({1, 2, 3} | {int(v) for v in r.integers(1, nmax + 1, size=6 if ctx.quick else 40)})
    for i in range(N):
        n = int(r.integers(2, nmax + 1))
        u = r.random()
        vp = gen_val_prop(r, n)
        nt = n_train_of(n, vp)
        if u < 0.25:
            bs = int(pool[int(r.integers(len(pool)))])
        elif u < 0.7:
            bs = int(r.integers(1, max(1, nt // 2) + 1))  # several training batches per epoch
        elif u < 0.85:
            bs = int(r.integers(1, n + 6))
        else:  # around the lengths of the halves and of the data: the bs' = min(bs, len) branches
            bs = max(1, int([nt, n - nt, n][int(r.integers(3))] + r.integers(-2, 6)))
        cases.append(dict(n=n, bs=bs, val_prop=vp, has_cond=bool(r.integers(2)), epochs=int(r.integers(1, emax + 1)),
                          seed=int(r.integers(0, 2 ** 31 - 1)), typed_key=bool(r.random() < 0.06)))
    # boundary-directed: smallest datasets, bs = 1, bs just around n_train and n - n_train
    for n in (2, 3, 4, 5):
        for hc in (False, True):
            vp = gen_val_prop(r, n)
            nt = n_train_of(n, vp)
            for bs in sorted({1, nt, nt + 1, max(1, nt - 1), n - nt, n - nt + 1, n, n + 5}):
                if bs >= 1 and r.random() < (0.5 if ctx.quick else 1.0):
                    cases.append(dict(n=n, bs=int(bs), val_prop=vp, has_cond=hc, epochs=2, seed=int(r.integers(0, 2 ** 31 - 1)), typed_key=False))
    # malformed stream: an empty half or batch_size 0 -> ZeroDivisionError, after exactly the calls the model makes
    for _ in range(8 if ctx.quick else 40):
        n = int(r.integers(1, 9))
        vp, bs = [(0.0, int(r.integers(1, 4))), (1.0, int(r.integers(1, 4))), (gen_val_prop(r, max(n, 2)), 0)][int(r.integers(3))]
        cases.append(dict(n=n, bs=bs, val_prop=float(vp), has_cond=bool(r.integers(2)), epochs=int(r.integers(0, 3)),
                          seed=int(r.integers(0, 2 ** 31 - 1)), typed_key=False))
    # the loss as a key-consuming subclass instance of MaximumLikelihoodLoss instead of a plain function
    for c in cases:
        if r.random() < 0.25:
            c["loss_kind"] = "ml-subclass"
    # max_patience: the loss never stops improving, so every value must give the same run
    for c in cases:
        if r.random() < 0.5:
            c["patience"] = int([0, 1, 1, 2, 2, 3, 5, 10][int(r.integers(8))])
    # array dtypes: a fifth of the cases with integer x and/or integer condition (jit cache: one more bucket per combination)
    for c in cases:
        if r.random() < 0.2:
            c["dtypes"] = [["float", "int"], ["int", "float"], ["int", "int"]][int(r.integers(3))] if c["has_cond"] else ["int", "float"]
    return cases


def model_req_queries(case):
    nt = n_train_of(case["n"], case["val_prop"])
    return f"c15.queries {case['n']} {nt} {case['bs']} {case['epochs']} {int(case['has_cond'])}"


def model_req_fit(case, table):
    nt = n_train_of(case["n"], case["val_prop"])
    return f"c15.fit {case['n']} {nt} {case['bs']} {case['epochs']} {int(case['has_cond'])} {table}"


def check_case(ctx, case, with_repro=False):
    """Full check of one case: (diffs model-vs-implementation, oracle errors, obs, model line)."""
    obs = run_impl(case)
    obs2 = run_impl(case) if with_repro else None
    replay = KeyReplay(_root_key(case))
    q = ctx.model([model_req_queries(case)])[0]
    mline = ctx.model([model_req_fit(case, perm_table(case, q, replay))])[0]
    return compare(case, obs, mline, replay), oracle(case, obs, obs2), obs, mline


def neighbours(case):
    out = []
    for dn, db, de, flip in [(0, -1, 0, 0), (0, 1, 0, 0), (-1, 0, 0, 0), (1, 0, 0, 0), (0, 0, 1, 0), (0, 0, 0, 1), (1, 1, 1, 0)]:
        c = dict(case, n=case["n"] + dn, bs=case["bs"] + db, epochs=case["epochs"] + de, has_cond=case["has_cond"] ^ bool(flip))
        if c["n"] >= 2 and c["bs"] >= 1 and 0 < n_train_of(c["n"], c["val_prop"]) < c["n"]:
            out.append(c)
    return out


def shrink(ctx, case, fails, budget=40):
    """(n, bs, epochs) downward: the first smaller configuration that still fails."""
    cands = []
    for n in range(2, case["n"] + 1):
        for bs in sorted({1, 2, 3, case["bs"]}):
            for ep in sorted({1, 2, case["epochs"]}):
                c = dict(case, n=n, bs=bs, epochs=ep)
                if 0 < n_train_of(n, c["val_prop"]) < n and (n, bs, ep) < (case["n"], case["bs"], case["epochs"]) and bs <= case["bs"] and ep <= case["epochs"]:
                    cands.append(c)
    cands.sort(key=lambda c: (c["n"], c["epochs"], c["bs"]))
    for c in cands[:budget]:
        try:
            if fails(c):
                return c
        except Exception:
            pass
    return case


_reported = {}


def report(ctx, unit, case, diffs, errs, obs, mline):
    """A disagreement or an oracle failure: look for a concrete failing input at and around the case, shrink, record.
    The (costly) search and shrinking is done once per kind of failure; further cases of the same kind are only counted."""
    prelim = ("oracle:" if errs else "tie:") + _clause_id((errs or diffs)[0])
    if prelim in _reported:
        ctx.violation(sig=_reported[prelim], what="", case={}, found_input=bool(errs))
        return
    found, fcase, ferrs = bool(errs), case, errs
    if not found:
        for c in neighbours(case):
            _, e2, _, _ = check_case(ctx, c, with_repro=True)
            if e2:
                found, fcase, ferrs = True, c, e2
                break
    if found:
        fcase = shrink(ctx, fcase, lambda c: bool(oracle(c, run_impl(c))))
        d2, e2, obs, mline = check_case(ctx, fcase, with_repro=True)
        ferrs = e2 or ferrs
        diffs = d2 or diffs
    else:
        fcase = shrink(ctx, case, lambda c: bool(check_case(ctx, c)[0]))
        if fcase is not case:
            diffs, _, obs, mline = check_case(ctx, fcase)
    what = "; ".join(ferrs[:3]) if found else "model != implementation: " + "; ".join(diffs[:3])
    clause = (ferrs[0] if found else diffs[0]) if (ferrs or diffs) else "?"
    sig = "fit_to_data:" + ("oracle:" if found else "tie:") + _clause_id(clause)
    _reported[prelim] = sig
    ctx.violation(
        sig=sig, what=what, case=dict(fn="fit_to_data", **fcase), found_input=found, unit=unit.name,
        expected=dict(model=mline, oracle="no clause of C15 fails"),
        observed=dict(raised=obs["raised"], final_counter=obs["final_p"], kinds="".join(kinds_of(obs)),
                      calls=[dict(counter=c[0], key=list(c[1]), x_rows=c[2], cond_rows=c[3]) for c in obs["calls"][:40]],
                      differences=diffs[:8], oracle=ferrs[:8]),
        broken="correspondence fit-trace / theorems C15_rows_aligned, C15_epoch_batches, C15_val_never_trained, C15_fresh_keys",
        reproducer=_reproducer(fcase),
    )


def _reproducer(case):
    return ("cd /repo && JAX_PLATFORMS=cpu PYTHONPATH=/repo:/verif /venv/bin/python -c \"from harness import common, c15; common.init_jax(); "
            f"c = {case!r}; o = c15.run_impl(c); "
            "print(c15.kinds_of(o)); [print(k) for k in o['calls']]; print('failing clauses:', c15.oracle(c, o, c15.run_impl(c)))\""
            "   # or: cd /verif && ./check C15 --replay <this file>")


def _clause_id(msg):
    for key, name in [("paired with condition", "misaligned"), ("more than once", "duplicate"), ("skipped", "remainder"),
                      ("both in gradient", "val-trained"), ("same key was handed", "key-reuse"), ("did not reproduce", "not-reproducible"),
                      ("torn or foreign", "torn-row"), ("does not have", "batch-size"), ("epochs observed", "epochs"),
                      ("distinct rows trained", "split-size"), ("raised", "raise"), ("condition rows model", "cond-rows"),
                      ("x rows model", "x-rows"), ("key differs", "key"), ("kind", "kind"), ("loss calls", "n-calls"), ("raises", "raise")]:
        if key in msg:
            return name
    return "other"


# ---------------------------------------------------------------- units
def unit_fit(ctx):
    u = ctx.unit("fit-trace", "real fit_to_data (callback loss_fn, index-tagged rows, counting optimiser) vs Model.Data.fit_trace fed with "
                              "JAX's actual permutations: ordered (kind, key bits, x rows, condition rows) compared exactly; plus the "
                              "oracle on the observation; non-trivial = at least two training batches or a skipped remainder, "
                              "and both parts non-empty")
    ur = ctx.unit("same-key-reproducible", "fit_to_data run twice with the same key gives the identical observed call list")
    cases = gen_cases(ctx)
    queries = ctx.model([model_req_queries(c) for c in cases])
    r = ctx.rng
    work = []
    for case, q in zip(cases, queries):
        repro = r.random() < (0.08 if ctx.quick else 0.04)
        obs = run_impl(case)
        obs2 = run_impl(case) if repro else None
        replay = KeyReplay(_root_key(case))
        work.append((case, obs, obs2, replay, model_req_fit(case, perm_table(case, q, replay))))
    mlines = ctx.model([w[4] for w in work])
    for (case, obs, obs2, replay, _), mline in zip(work, mlines):
        nt = n_train_of(case["n"], case["val_prop"])
        inside = 0 < nt < case["n"] and case["bs"] >= 1
        bt = min(case["bs"], nt) if inside else 0
        nontriv = inside and (nt // bt >= 2 or nt % bt > 0)
        tag = ("malformed" if not inside else ("bs>n" if case["bs"] > case["n"] else ("bs>=half" if case["bs"] >= min(nt, case["n"] - nt) else "bs<half"))) \
            + (",cond" if case["has_cond"] else ",nocond") + f",ep{case['epochs']}"
        u.count(case, nontrivial=nontriv, tag=tag)
        if obs2 is not None:
            ur.count(case, nontrivial=nontriv, tag="typed" if case["typed_key"] else "legacy")
        if mline.startswith("ERR"):
            diffs = [f"driver: {mline}"]
        else:
            diffs = compare(case, obs, mline, replay)
        errs = oracle(case, obs, obs2)
        if len(u.hashes) % 60 == 1:
            ctx.sample(dict(case=case, n_train=nt, kinds="".join(kinds_of(obs)), first_calls=[dict(key=list(c[1]), x=c[2], cond=c[3]) for c in obs["calls"][:3]],
                            model=mline[:160]))
        if diffs or errs:
            u.disagreements += bool(diffs)
            report(ctx, u, case, diffs, errs, obs, mline)


def unit_split(ctx):
    """train_val_split alone: lengths (n_train glue) and contents against the model."""
    s = _setup()
    jnp, jr = s["jnp"], s["jr"]
    u = ctx.unit("train_val_split", "real train_val_split(key, (x[, condition]), val_prop) vs Model.Data.train_val_split with JAX's permutation: "
                                    "row ids of every returned array compared exactly; n_train glue: len(train) == n - round(val_prop*n) on a "
                                    "grid with rounding ties; non-trivial = both halves non-empty")
    r = ctx.rng
    nmax = 30 if ctx.quick else 60
    cases = []
    ns = range(1, nmax + 1) if not ctx.quick else sorted({1, 2, 3} | {int(v) for v in r.integers(4, nmax + 1, size=9)})
    for n in ns:
        vps = {0.0, 1.0, 0.5, 0.1}
        for _ in range(2 if ctx.quick else 10):
            v = int(r.integers(0, n)) + 0.5
            vps.add(float(v / n))
            vps.add(float(np.nextafter(v / n, 0.0)))
            vps.add(float(np.nextafter(v / n, 1.0)))
            vps.add(float(VP_GRID[int(r.integers(len(VP_GRID)))]))
        for vp in sorted(vps):
            if 0 <= vp <= 1:
                cases.append(dict(n=n, val_prop=vp, m=int(r.integers(1, 3)), seed=int(r.integers(0, 2 ** 31 - 1))))
    reqs, impl = [], []
    for c in cases:
        n, m = c["n"], c["m"]
        key = jr.PRNGKey(c["seed"])
        x = jnp.repeat(jnp.arange(n, dtype=float)[:, None], XCOLS, 1)
        arrays = (x,) if m == 1 else (x, COND_TAG + x[:, :1])
        tr, va = s["train_val_split"](key, arrays, val_prop=c["val_prop"])
        dec = lambda arrs: [_decode(a, 0 if i == 0 else COND_TAG) for i, a in enumerate(arrs)]
        impl.append((dec(tr), dec(va)))
        perm = [int(v) for v in np.asarray(jr.permutation(key, n))]
        nt = n_train_of(n, c["val_prop"])
        reqs.append(f"c15.tvsplit - {n} {nt} {m} -:{n}:{','.join(map(str, perm))}")
    outs = ctx.model(reqs)
    for c, (tr, va), out in zip(cases, impl, outs):
        n = c["n"]
        nt = n_train_of(n, c["val_prop"])
        prs = lambda t: [[] if v == "-" else [int(z) for z in v.split(",")] for v in t.strip().split("/")]
        mtr, mva = (prs(t) for t in out.split("|"))
        u.count(c, nontrivial=0 < nt < n, tag="tie" if (c["val_prop"] * n) % 1 == 0.5 else "other")
        errs = []
        glue = len(tr[0]) != nt
        if sorted(tr[0] + va[0]) != list(range(n)):
            errs.append(f"train ++ val is not a permutation of the rows: {tr[0]} ++ {va[0]}")
        if any(a != tr[0] for a in tr) or any(a != va[0] for a in va):
            errs.append(f"arrays are cut along different rows: train {tr} val {va}")
        if errs or tr != mtr or va != mva:
            u.disagreements += 1
            ctx.violation(sig="train_val_split:" + ("oracle" if errs else ("glue" if glue else "tie")),
                          what="; ".join(errs) or (f"n_train glue: len(train) = {len(tr[0])}, n - round(val_prop*n) = {nt}" if glue else
                                                   f"model train/val {mtr}/{mva} != implementation {tr}/{va}"),
                          case=dict(fn="train_val_split", **c), found_input=bool(errs), unit=u.name, expected=dict(train=mtr, val=mva),
                          observed=dict(train=tr, val=va), broken="correspondence train_val_split / theorem C15_split_partitions",
                          reproducer="cd /verif && ./check C15 --replay <this file>")


def unit_batches(ctx):
    s = _setup()
    jnp = s["jnp"]
    u = ctx.unit("get_batches", "real get_batches((x[, condition]), batch_size) vs Model.Data.get_batches + zip_batches on index-tagged rows, "
                                "ZeroDivisionError included; non-trivial = a remainder is dropped or batch_size > rows")
    r = ctx.rng
    cases = [dict(n=0, bs=3, m=1), dict(n=4, bs=0, m=2), dict(n=1, bs=1, m=1)]
    for _ in range(70 if ctx.quick else 700):
        n = int(r.integers(1, 31 if ctx.quick else 61))
        cases.append(dict(n=n, bs=int(r.integers(1, n + 6)), m=int(r.integers(1, 3))))
    outs = ctx.model([f"c15.batches {c['n']} {c['bs']} {c['m']}" for c in cases])
    for c, out in zip(cases, outs):
        n, bs, m = c["n"], c["bs"], c["m"]
        x = jnp.repeat(jnp.arange(n, dtype=float)[:, None], XCOLS, 1)
        arrays = (x,) if m == 1 else (x, COND_TAG + x)
        try:
            cols = s["get_batches"](arrays, bs)
            got = [[_decode(np.asarray(col)[j], 0 if i == 0 else COND_TAG) for i, col in enumerate(cols)] for j in range(np.asarray(cols[0]).shape[0])]
        except ZeroDivisionError:
            got = "RAISE"
        exp = "RAISE" if out == "RAISE" else [[[int(z) for z in v.split(",")] for v in t.split("/")] for t in out.split()]
        u.count(c, nontrivial=n > 0 and bs > 0 and (n % min(bs, n) > 0 or bs > n), tag="raise" if exp == "RAISE" else ("bs>n" if bs > n else "bs<=n"))
        errs = []
        if got != "RAISE" and n > 0 and bs > 0:
            b = min(bs, n)
            flat = [rr for bt in got for rr in bt[0]]
            if flat != list(range((n // b) * b)):
                errs.append(f"batches are not the leading {(n // b) * b} rows in order: {flat}")
            if any(any(a != bt[0] for a in bt) for bt in got):
                errs.append("arrays are batched along different rows")
        if errs or got != exp:
            u.disagreements += 1
            ctx.violation(sig="get_batches:" + ("oracle" if errs else "tie"), what="; ".join(errs) or f"model {exp} != implementation {got}",
                          case=dict(fn="get_batches", **c), found_input=bool(errs), unit=u.name, expected=exp, observed=got,
                          broken="correspondence get_batches / theorem C15_epoch_batches", reproducer="cd /verif && ./check C15 --replay <this file>")


def run(ctx):
    s = _setup()
    ctx.obligation("jr.split(k, 2)[i] == jr.split(k, 3)[i] (key paths need not record the fan-out)", s["fanout_free"],
                   "" if s["fanout_free"] else "jr.split depends on the fan-out: the key-path abstraction of Model/Data.v does not apply")
    import time
    for f in (unit_split, unit_batches, unit_fit):
        t = time.time()
        f(ctx)
        ctx.notes.append(f"{f.__name__}: {time.time() - t:.1f}s")
    ctx.assumptions += [
        "jr.permutation(key, a) permutes axis 0 of a by the permutation jr.permutation(key, len(a)) (the model is fed the latter; compared on every case)",
        "jr.split yields distinct keys along distinct paths (theorem C15_fresh_keys is about paths; observed keys are checked pairwise distinct)",
        "a loss call is a gradient step iff the counter of the counting optimiser advanced after it",
        "max_patience varies (0..10 and 1000) under a loss that improves with every update, so no run stops early: the stopping rule is property C16's; an early stop only truncates the trace",
        "n_train = n - round(val_prop*n) (float product, round-half-even) is glue: compared with the implementation on a grid incl. rounding ties, not proved",
    ]


def replay(ctx, rep):
    c = dict(rep["case"])
    fn = c.pop("fn", None)
    s = _setup()
    if fn == "fit_to_data":
        diffs, errs, obs, mline = check_case(ctx, c, with_repro=True)
        print("case", c, "\nkinds", "".join(kinds_of(obs)), "\nmodel", mline[:300], "\ndifferences", diffs, "\noracle", errs)
        return not diffs and not errs
    if fn in ("train_val_split", "get_batches"):
        jnp, jr = s["jnp"], s["jr"]
        if fn == "train_val_split":
            n, m = c["n"], c["m"]
            key = jr.PRNGKey(c["seed"])
            x = jnp.repeat(jnp.arange(n, dtype=float)[:, None], XCOLS, 1)
            arrays = (x,) if m == 1 else (x, COND_TAG + x[:, :1])
            tr, va = s["train_val_split"](key, arrays, val_prop=c["val_prop"])
            tr = [_decode(a, 0 if i == 0 else COND_TAG) for i, a in enumerate(tr)]
            va = [_decode(a, 0 if i == 0 else COND_TAG) for i, a in enumerate(va)]
            perm = [int(v) for v in np.asarray(jr.permutation(key, n))]
            nt = n_train_of(n, c["val_prop"])
            ok = (len(tr[0]) == nt and sorted(tr[0] + va[0]) == list(range(n)) and all(a == tr[0] for a in tr) and all(a == va[0] for a in va)
                  and tr[0] == perm[:nt] and va[0] == perm[nt:])
            print("train", tr, "val", va, "permutation", perm, "n_train", nt)
            return ok
        n, bs, m = c["n"], c["bs"], c["m"]
        x = jnp.repeat(jnp.arange(n, dtype=float)[:, None], XCOLS, 1)
        arrays = (x,) if m == 1 else (x, COND_TAG + x)
        out = ctx.model([f"c15.batches {n} {bs} {m}"])[0]
        try:
            cols = s["get_batches"](arrays, bs)
            got = " ".join("/".join(",".join(str(v) for v in _decode(np.asarray(col)[j], 0 if i == 0 else COND_TAG)) for i, col in enumerate(cols))
                           for j in range(np.asarray(cols[0]).shape[0]))
        except ZeroDivisionError:
            got = "RAISE"
        print("implementation", got, "model", out)
        return got == out
    print("obligation replay: rebuild and re-check", c)
    return False
