"""Combinator-level units for C01 / C02 (round trips and the inverse log-det law) on the same random trees as C08's
tree-unit.  Theorems: coq/Props/X01_bij.v (X01_run_inverse_law, X01_run_inverse_law_converse,
X01_and_log_det_same_point, X02_run_ldj_inverse_law) about Model/Bij.v.

    from harness import bijinv
    bijinv.run_units(ctx)            # from c01.py / c02.py; uses ctx.unit / ctx.violation / ctx.model(group="bij")

Exact: leaves are Identity / Loc / Scale / Affine (power-of-two scales) / Flip / Permute / AdditiveCondition with integer
data, so every round trip is exact in float64; log-dets are compared to 1e-9.  Oracle = the property itself on the real
objects (found_input=True); in addition the extracted model must reproduce the two calls of each round trip.
"""

import numpy as np

from harness import bijser as S
from harness import c08

REPRO = "rebuild case.spec with harness.c08.build; call the two methods named in `what`"


def _viol(ctx, u, prop, sig, what, spec, m, x, c, found=True):
    ctx.violation(sig=sig, what=what, case=c08.jcase(spec, m, x, c), found_input=found, unit=u.name,
                  broken=f"bijinv / X01_bij ({prop})", reproducer=REPRO)


def round_trip(ctx, u, spec, b, term, x, c, direction):
    """direction 'fwd': inverse(transform(x)) == x ; 'inv': transform(inverse(y)) == y ; plus the *_and_log_det variants"""
    m1, m2 = ("transform", "inverse") if direction == "fwd" else ("inverse", "transform")
    r1 = c08.call_impl(b, m1, x, c)
    if r1[0] != "ok":
        return  # C08 / C13 report calls that fail on well-formed inputs
    y = r1[1]
    r2 = c08.call_impl(b, m2, y, c)
    key = term + direction + str(x.tolist()) + str(None if c is None else c.tolist())
    u.count(key, nontrivial=not np.array_equal(y, x), tag=f"{direction}:{spec[0]}")
    if r2[0] != "ok" or not np.array_equal(r2[1], x):
        _viol(ctx, u, "C01", f"roundtrip:{m2}-of-{m1}", f"{m2}({m1}(x)) != x: x = {x.ravel().tolist()}, {m1}(x) = {y.ravel().tolist()}, "
              f"back = {str(r2[1].ravel().tolist()) if r2[0] == 'ok' else r2[1]}", spec, m1, x, c)
        return
    l1 = c08.call_impl(b, m1 + "_and_log_det", x, c)
    l2 = c08.call_impl(b, m2 + "_and_log_det", y, c)
    if l1[0] != "ok" or l2[0] != "ok":
        return
    if not np.array_equal(l1[1], y) or not np.array_equal(l2[1], x):
        _viol(ctx, u, "C01", f"same-point:{m1}", f"{m1}_and_log_det / {m2}_and_log_det return another point than {m1} / {m2}", spec, m1, x, c)
    if not c08.close_ld(l1[2], -np.asarray(l2[2])):
        _viol(ctx, u, "C02", f"ldj-inverse-law:{m1}", f"log-det of {m1}_and_log_det at x is {float(l1[2])}, of {m2}_and_log_det at the image "
              f"{float(l2[2])}: not opposite", spec, m1 + "_and_log_det", x, c)
    # the model reproduces both calls (so the theorems speak about these very computations)
    outs = ctx.model([f"run {m1}_and_log_det {term} {S.s_tensor(x)} {S.s_otensor(c)}",
                      f"run {m2}_and_log_det {term} {S.s_tensor(y)} {S.s_otensor(c)}"], group="bij")
    for (impl, line, m, inp) in ((l1, outs[0], m1, x), (l2, outs[1], m2, y)):
        if not c08.same(impl, S.parse_run(line)):
            u.disagreements += 1
            _viol(ctx, u, "C01/C02", f"model:{m}", f"model {line[:120]} != implementation {str(impl)[:120]} ({m}_and_log_det)", spec,
                  m + "_and_log_det", inp, c, found=False)


def run_units(ctx, n_trees=None):
    """round trips both ways + the inverse log-det law on random combinator trees (the generator of C08's tree-unit)"""
    c08.fj()
    rng = ctx.rng
    G = c08.Gen(rng)
    u = ctx.unit("combinator-roundtrip-unit", "random combinator trees over exact-integer leaves (C08's generator): inverse(transform(x)) == x, "
                                              "transform(inverse(y)) == y exactly; *_and_log_det return the same points; log-dets opposite (1e-9); "
                                              "model reproduces both calls; non-trivial = the image differs from the input")
    n = n_trees if n_trees is not None else (150 if ctx.quick else 3000)
    for i in range(n):
        sh = G.shape()
        cs = None if rng.random() < 0.4 else [[2], [3], [2, 3], [3, 2], [], [2, 2]][G.ri(0, 5)]
        spec = G.tree(sh, cs, 1 + i % 3)
        try:
            b = c08.build(spec)
            term = S.ser(b)
        except Exception as e:  # noqa: BLE001   (generator slip; C08 owns constructor behaviour)
            ctx.notes.append(f"bijinv generator: {type(e).__name__} {str(e)[:60]}")
            continue
        x, c = c08.inputs_for(rng, b.shape, b.cond_shape)
        round_trip(ctx, u, spec, b, term, x, c, "fwd")
        round_trip(ctx, u, spec, b, term, x, c, "inv")
    ctx.assumptions += [
        "combinator round trips: exact-integer leaves only (Loc/Scale/Affine with power-of-two scales, Flip, Permute, Identity, "
        "AdditiveCondition); Partial indices in range and pairwise distinct (hypothesis inv_ok of X01_bij)",
    ]
    return u
