"""C02 -- reported log-determinants equal the true log|det Jacobian|.

Proof side: Props/C02.v.  Tie: the log-det returned by transform_and_log_det / inverse_and_log_det of every leaf, real object
vs extracted Model/Leaves.v.  Oracle (independent of every hand-written log-det formula): autodiff Jacobian of the plain
transform (float64) -> slogdet; inverse log-det = minus the forward one at the corresponding point; log-det is a scalar.
At the two ends of a spline's interval jnp.clip ties and JAX splits the tie gradient 0.5/0.5 (autodiff returns half the inner
derivative even for the identity map): there the oracle uses the autodiff derivative one ulp inside the interval instead.
"""

import numpy as np

from harness import leaves as lv
from harness.common import fhex, fparse

PROPERTY = "C02"
GROUPS = ["leaves", "bij", "autoreg", "bnafld"]
EXTRA_PROPS = ["Props/X01_bij.v", "Props/X01_autoreg.v", "Props/X02_bnaf.v"]  # inverse / log-det laws for every combinator tree (Model/Bij.v)
MANIFEST = {
    "design_ref": "DESIGN.md 4.2",
    "technique": "Coq/Coquelicot proofs (is_derive) that each leaf's reported log-det is ln|f'(x)| of the map the model computes, inverse law, sums over chains/lifts, triangular determinant + executed correspondence + autodiff Jacobian as search oracle",
    "text": "Theorems over the reals (Coquelicot is_derive) about the executable models of the leaf bijections: the forward map is differentiable "
            "with the stated derivative at every real input (LeakyTanh incl. the switch points, the spline inside bins / at knots as listed in "
            "Props/C02.v), the reported log-det equals ln|derivative|, the inverse log-det equals minus the forward one at the corresponding "
            "point, the elementwise lift sums over all entries, a chain's log-det is the sum of the layers' log-dets at the running intermediate "
            "values (= ln|(f_n o ... o f_1)'| for rank 0), triangular maps report ln|prod diag|. The multivariate chain rule (Jacobian of a "
            "composite = product) is cited, not proved: the compositional statement for rank >= 1 is named _partial. The model is tied to /repo by "
            "running its extraction next to the real *_and_log_det methods; further property files: X01_bij.v (log-det laws for every combinator tree), X01_autoreg.v (real MaskedAutoregressive / Coupling layers with the concrete masked conditioner), X02_bnaf.v (the log-det BlockAutoregressiveNetwork reports = ln|det J| for every raw weight / depth / block size), InvFunP (rank-0 Invert law by a local inverse function theorem); whole flows are covered by the autodiff oracle only.",
    "note": "Trusted: Coq kernel + Reals/Coquelicot (+ MathComp choice if det_trig is used) axioms as printed in the evidence, extraction, OCaml libm, "
            "harness, jax autodiff as the oracle's reference. Exact over R; float rounding not modelled.",
}


_JAC = {}


def _flat_jac(f, x, owner=None, args=()):
    """Flattened autodiff Jacobian of f at x.  With `owner` (the bijection object) the jitted Jacobian is cached per object,
    which avoids re-tracing for every input."""
    jax, jnp = lv.lib()["jax"], lv.lib()["jnp"]
    if owner is not None:
        key = (id(owner), len(args))
        if key not in _JAC:
            if len(_JAC) > 64:
                _JAC.clear()
            _JAC[key] = (owner, jax.jit(jax.jacobian(lambda v, *a: owner.transform(v, *a))))
        J = np.asarray(_JAC[key][1](jnp.asarray(x, dtype=float), *args), dtype=float)
    else:
        J = np.asarray(jax.jacobian(f)(jnp.asarray(x)), dtype=float)
    n = int(np.prod(np.shape(x))) if np.ndim(x) else 1
    return J.reshape(n, n)


def autodiff_errors(spec, obj, x, cond=None, tol=1e-7):
    """log-det reported by transform_and_log_det vs slogdet of the autodiff Jacobian of transform; inverse law; scalar-ness."""
    jnp = lv.lib()["jnp"]
    errs = []
    x = np.asarray(x, dtype=float)
    if not np.all(np.isfinite(x)):
        return errs
    kind = spec["kind"] if spec else None
    args = () if cond is None else (jnp.asarray(cond),)
    try:
        y, ld = obj.transform_and_log_det(jnp.asarray(x), *args)
    except NotImplementedError:
        return errs
    y = np.asarray(y, dtype=float)
    if np.ndim(ld) != 0:
        return [f"log_det has shape {np.shape(ld)} (must be a scalar)"]
    ld = float(ld)
    if not np.all(np.isfinite(y)) or not np.isfinite(ld):
        return errs  # float saturation (exp(1e4) etc.) is outside the property
    if kind in ("exp", "softplus", "tanh", "leaky") and np.any(np.abs(x) > 15):
        return errs
    if kind == "rqs":
        u = lv.lib()["unwrap"](obj)
        lo, hi = float(u.interval[0]), float(u.interval[1])
        xv, yv = float(x), float(y)
        if xv in (np.nextafter(lo, -np.inf), np.nextafter(hi, np.inf)):
            return errs  # one ulp outside: the kink itself (identity branch), nothing to compare
        if lo <= xv <= hi and min(abs(yv - lo), abs(yv - hi)) <= 8 * np.spacing(max(abs(lo), abs(hi), 1.0)):
            # the image sits exactly on an interval end: jnp.clip ties there and autodiff halves the derivative (artefact of the
            # oracle).  Reference = the inner derivative, extrapolated linearly from two autodiff points further inside.
            pos = np.asarray(u.x_pos, dtype=float)
            left = abs(yv - lo) < abs(yv - hi)
            w = (pos[1] - pos[0]) if left else (pos[-1] - pos[-2])
            h = 1e-6 * w * (1 if left else -1)
            l1 = np.log(float(_flat_jac(None, np.asarray(xv + h), owner=obj)[0, 0]))
            l2 = np.log(float(_flat_jac(None, np.asarray(xv + 2 * h), owner=obj)[0, 0]))
            ref = 2 * l1 - l2
            if np.isfinite(ref) and not abs(ld - ref) <= 1e-5 * max(1.0, abs(ld)) + 4 * abs(l1 - l2) ** 2:
                errs.append(f"log_det {ld!r} at x = {xv!r} (image on the interval end) differs from ln|inner one-sided derivative| = {float(ref)!r}")
            return errs
    J = _flat_jac(None, x, owner=obj, args=args)
    sign, ref = np.linalg.slogdet(J)
    if sign == 0 or not np.isfinite(ref):
        return errs
    if not abs(ld - ref) <= tol * max(1.0, abs(ref)):
        # confirm with the EAGER Jacobian before reporting: under jit XLA may contract a*b+c, which can move a spline image onto an
        # interval end exactly (jnp.clip tie -> halved derivative), an artefact of the jitted oracle only
        Je = _flat_jac(lambda v: obj.transform(v, *args), x)
        sign, ref = np.linalg.slogdet(Je)
    if sign != 0 and np.isfinite(ref) and not abs(ld - ref) <= tol * max(1.0, abs(ref)):
        errs.append(f"transform_and_log_det log_det = {ld!r} but ln|det jacobian(transform)| = {float(ref)!r} at x = {np.ravel(x).tolist()}")
    # inverse law: the log-det returned with the inverse = minus the forward log-det AT THE INVERSE IMAGE x2 (evaluated there,
    # not at x: x2 equals x only up to the map's conditioning, and the log-det may vary quickly)
    try:
        x2, ldi = obj.inverse_and_log_det(jnp.asarray(y), *args)
        if np.ndim(ldi) != 0:
            errs.append(f"inverse log_det has shape {np.shape(ldi)}")
        elif np.all(np.isfinite(np.asarray(x2))) and np.isfinite(float(ldi)):
            y2, ld2 = obj.transform_and_log_det(x2, *args)
            if np.isfinite(float(ld2)) and np.allclose(np.asarray(y2), y, rtol=1e-6, atol=1e-6) and not abs(float(ldi) + float(ld2)) <= 1e-6 * max(1.0, abs(float(ld2))):
                errs.append(f"inverse_and_log_det log_det = {float(ldi)!r} is not minus the forward log_det {float(ld2)!r} at the corresponding point {np.ravel(np.asarray(x2)).tolist()}")
    except NotImplementedError:
        pass
    return errs


def run(ctx):
    rng = ctx.rng
    specs = lv.gen_specs(rng, ctx.quick)
    u = ctx.unit("leaf-logdet-tie", "log_det of transform_and_log_det / inverse_and_log_det: real leaf vs extracted Model/Leaves.v; non-trivial = |log_det| > 1e-3")
    uo = ctx.unit("autodiff-oracle-leaves", "reported log_det vs slogdet(jax.jacobian(transform)) in float64 + inverse law + scalar-ness on the same inputs; non-trivial = |log_det| > 1e-3")
    jobs, reqs = [], []
    for spec in specs:
        obj = lv.make_obj(spec)
        params = lv.model_params(spec, obj)
        for direction, m in (("fwd", "fwdld"), ("inv", "invld")):
            for x in lv.inputs_for(spec, obj, direction, rng, n_random=4 if ctx.quick else 12):
                jobs.append((spec, obj, m, x))
                reqs.append(lv.request(spec, obj, m, x, params))
    outs = ctx.model(reqs, "leaves")
    for (spec, obj, m, x), line in zip(jobs, outs):
        mod = lv.parse_model(line)
        imp = lv.run_impl(obj, m, x)
        ld = imp[1] if imp[0] != "ERR" else None
        nontriv = ld is not None and np.isfinite(ld) and abs(ld) > 1e-3
        key = (str(spec), m, [fhex(v) for v in np.ravel(x)])
        u.count(key, nontrivial=nontriv, tag=f"{spec['kind']}:{m}")
        if len(u.hashes) % 600 == 1:
            ctx.sample(dict(spec=spec, method=m, x=np.ravel(x).tolist(), model=line[:140], implementation=str(imp)[:140]))
        agree = lv.same(mod, imp)
        errs = []
        if m == "fwdld":
            errs = autodiff_errors(spec, obj, x)
            uo.count(key, nontrivial=nontriv, tag=spec["kind"])
        elif imp[0] != "ERR" and ld is not None and np.isfinite(ld) and np.all(np.isfinite(imp[0])):
            # inverse law on the implementation: log-det returned with the inverse = minus the forward one at the inverse image
            try:
                xi = np.asarray(imp[0], dtype=float).reshape(np.shape(x))
                yf, ldf = obj.transform_and_log_det(lv.lib()["jnp"].asarray(xi))
                if np.isfinite(float(ldf)) and np.allclose(np.asarray(yf), x, rtol=1e-6, atol=1e-6) and not abs(float(ldf) + ld) <= 1e-6 * max(1.0, abs(ld)):
                    errs = [f"inverse_and_log_det({np.ravel(x).tolist()}) log_det = {ld!r} is not minus the forward log_det {float(ldf)!r} at the inverse image {np.ravel(xi).tolist()}"]
            except NotImplementedError:
                pass
        if not agree or errs:
            u.disagreements += (not agree)
            cls = type(obj).__name__
            ctx.violation(sig=f"{cls}.{m}:{'oracle' if errs else 'model-mismatch'}",
                          what=(f"{cls}: " + "; ".join(errs)) if errs else f"{cls}.{m}: model {line[:120]} != implementation {str(imp)[:120]}",
                          case=dict(spec=spec, method=m, x=[fhex(v) for v in np.ravel(x)]), found_input=bool(errs), unit=u.name,
                          expected=line[:300], observed=str(imp)[:300], broken="correspondence leaf-logdet-tie / Props/C02.v theorems of this leaf")
    float32_pass(ctx, jobs, outs)
    flows_oracle(ctx)
    from harness import autoreg
    autoreg.run_units(ctx, theorems=False)  # real MaskedAutoregressive / Coupling layers vs Model/AutoregNet.v (log-dets, autodiff oracle)
    from harness import bnafld

    bnafld.run_units(ctx, theorems=False)  # BlockAutoregressiveNetwork.transform_and_log_det (value + reported log-det) vs Model/BnafLd.v
    ctx.assumptions += ["autodiff (jax.jacobian in float64) is the reference of the search oracle", "float saturation excluded (non-finite outputs skipped)"]


def float32_pass(ctx, jobs, outs):
    """The same leaf log-dets in JAX's default float32 mode (separate process) against the float64 model values: a formula that is
    algebraically right but loses precision or overflows in single precision (seeded change C02d) shows here.  Splines are left
    out (ill-conditioned bins amplify float32 rounding beyond any fixed tolerance)."""
    import json as _json
    import os
    import subprocess
    import sys as _sys

    from harness import common

    u = ctx.unit("leaf-logdet-float32", "transform_and_log_det / inverse_and_log_det of the non-spline leaves in float32 (jax_enable_x64 off, separate process) vs the "
                                        "float64 model: values and log-det within 5e-4*max(1,|v|) (+ float32 input rounding), same inf/nan classes; |x| <= 40")
    sel = [(i, j) for i, j in enumerate(jobs) if j[0]["kind"] != "rqs" and np.all(np.abs(np.asarray(j[3], dtype=float)) <= 40.0)
           and np.all(np.isfinite(np.asarray(j[3], dtype=float)))]
    if ctx.quick:
        sel = sel[:: max(1, len(sel) // 400)]
    env = dict(os.environ, VERIF_REPO=common.REPO, JAX_PLATFORMS="cpu")
    env.pop("JAX_ENABLE_X64", None)
    inp = "\n".join(_json.dumps(dict(spec=j[0], method=j[2], x=[fhex(v) for v in np.ravel(j[3])])) for _, j in sel) + "\n"
    r = subprocess.run([_sys.executable, os.path.join(common.VERIF, "harness", "leaves_f32.py")], input=inp, capture_output=True, text=True, timeout=1200, env=env, cwd=common.REPO)
    rows = [_json.loads(l) for l in r.stdout.splitlines() if l.startswith("{")]
    if len(rows) != len(sel):
        ctx.violation(sig="float32-pass:crashed", what=f"float32 process returned {len(rows)} of {len(sel)} results: {r.stderr[-300:]}", case=dict(unit=u.name), found_input=False,
                      unit=u.name, broken="leaf-logdet-float32")
        return

    def ok(a, b, scale):
        if a is None or b is None:
            return a is None and b is None
        if np.isnan(a) or np.isnan(b):
            return bool(np.isnan(a) and np.isnan(b))
        if np.isinf(a) or np.isinf(b):
            return a == b or abs(b) > 1e37  # float32 overflows where float64 does not
        return abs(a - b) <= 5e-4 * max(1.0, abs(b)) * scale

    for (i, (spec, obj, m, x)), row in zip(sel, rows):
        u.count((str(spec), m, [fhex(v) for v in np.ravel(x)]), tag=f"{spec['kind']}:{m}")
        mod = lv.parse_model(outs[i])
        if "err" in row or mod[0] == "ERR":
            continue
        # the float32 input differs from x by rounding: allow for the map's sensitivity through a generous factor on ill-scaled leaves
        scale = 1.0 + (40.0 if spec["kind"] in ("tri", "planar") else 0.0)
        x32 = np.asarray(np.asarray(x, dtype=np.float32), dtype=float)
        if not np.allclose(x32, np.asarray(x, dtype=float), rtol=1e-6, atol=1e-30):
            continue
        bad = (len(row["y"]) != len(mod[0])) or not all(ok(a, b, scale) for a, b in zip(row["y"], mod[0])) or not ok(row["ld"], mod[1], scale)
        if bad and m == "fwdld" and row["ld"] is not None and mod[1] is not None and np.isfinite(mod[1]):
            cls = type(obj).__name__
            ctx.violation(sig=f"{cls}.{m}:float32", what=f"{cls}.{m} in float32 at x = {np.ravel(x).tolist()}: value/log_det {str(row)[:120]} but the exact (float64 model) result is {outs[i][:120]}: "
                          f"off by more than 5e-4 relative (float32 resolution is 1e-7)", case=dict(spec=spec, method=m, x=[fhex(v) for v in np.ravel(x)], mode="float32"),
                          found_input=True, unit=u.name, expected=outs[i][:200], observed=str(row)[:200], broken="leaf-logdet-float32")
        elif bad:
            ctx.notes.append(f"float32 pass: {type(obj).__name__}.{m} differs from the float64 model beyond 5e-4 at x = {np.ravel(x).tolist()[:3]} (inverse direction / conditioning; not reported)")


def flows_oracle(ctx):
    from harness import flowcases as fc

    jnp = lv.lib()["jnp"]
    uf = ctx.unit("autodiff-oracle-flows", "flow.bijection of every factory + combinator nestings (ranks 1-2, Vmap/Stack/Concatenate/Partial/Reshape/Scan, "
                                           "with/without condition, perturbed parameters): log_det vs slogdet(jacobian), inverse law, scalar; implementation only")
    rng = ctx.rng
    for name, dim, cond, bij, tol in fc.flow_bijections(ctx):
        if name == "bnaf" and bij.__class__.__name__ == "Invert":
            pass
        for _ in range(2 if ctx.quick else 6):
            x = rng.normal(0, 1.2, bij.shape)
            c = None if cond is None else rng.normal(0, 1, cond)
            uf.count((name, str(dim), str(cond), x.tolist()), tag=name)
            # the forward direction of an inverted numerically-inverted flow is expensive under jacobian: use inverse_and_log_det side
            target = bij
            if name == "bnaf":
                from flowjax.bijections import Invert
                target = Invert(bij)  # analytic direction
            try:
                errs = autodiff_errors(None, target, x, c, tol=1e-6)
            except Exception as e:
                errs = [f"raised {type(e).__name__}: {str(e)[:120]} on a valid input"]
            if errs:
                ctx.violation(sig=f"flow:{name}:logdet", what=f"{name} (shape {bij.shape}, cond {cond}): " + "; ".join(errs),
                              case=dict(flow=name, dim=str(dim), cond=cond, x=x.tolist(), condition=None if c is None else c.tolist()),
                              found_input=True, unit=uf.name, broken="autodiff oracle on flow.bijection")


def replay(ctx, rep):
    c = rep["case"]
    if str(c.get("kind", "")).startswith("bnafld"):
        from harness import bnafld

        return bnafld.replay_case(ctx, rep)
    if "layer" in c:   # a real MaskedAutoregressive / Coupling layer case of harness/autoreg.py
        from harness import autoreg

        return autoreg.replay_case(ctx, rep)
    if "spec" not in c:
        print("flow-level replay: re-run ./check C02 (seeded)")
        return False
    spec, m = c["spec"], c["method"]
    obj = lv.make_obj(spec)
    x = np.array([fparse(v) for v in c["x"]], dtype=float).reshape(tuple(spec.get("shape", ())))
    line = ctx.model([lv.request(spec, obj, m, x)], "leaves")[0]
    imp = lv.run_impl(obj, m, x)
    errs = autodiff_errors(spec, obj, x) if m == "fwdld" else []
    print("model", line, "\nimplementation", imp, "\noracle", errs)
    return lv.same(lv.parse_model(line), imp) and not errs
