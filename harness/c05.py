"""C05 -- named distribution families match their textbook densities and samplers.

Tie (model = coq/Model/Dens.v extracted, run with OCaml floats; implementation = the real flowjax classes):
  U1  dist.log_prob(x) vs the model, (a) from the raw constructor arguments (Gallina broadcasting included) and
      (b) from the parameters as stored in the object after unwrap (bit-comparable at support edges);
  U2  accessors loc/scale/df/rate/minval/maxval/shape vs the model's functions of the constructor arguments;
  U3  samplers: unwrap(dist)._sample(key) vs the model's push-forward of the jax.random primitive the model names,
      at the same key (exact, 1e-12 where exp is involved); key handling of dist.sample;
  U4  VmapMixture: log_prob vs the model (>= 2..5 components, unnormalised and rescaled weights), sampler structure;
  U5  MultivariateNormal: log_prob / covariance / loc / sampler vs the model with the object's Cholesky factor.
Search oracle (independent of the model and of jax.scipy): scipy.stats in float64 for log-densities (1e-9) and a
fixed-seed Kolmogorov-Smirnov test of N = 20000 samples against the scipy CDF.
"""

import math

import numpy as np

PROPERTY = "C05"
GROUPS = ["dens"]
MANIFEST = {
    "design_ref": "DESIGN.md 4.5",
    "technique": "Coq proofs over R (ext R = finite | +inf | -inf | nan as values) about an executable Gallina model of each "
                 "family as the code composes it + executed correspondence of the extracted model (OCaml floats) with the real "
                 "classes + scipy.stats / Kolmogorov-Smirnov search oracle",
    "text": "Theorems: for Normal, LogNormal, Uniform, Gumbel, Cauchy, Laplace, Logistic, Exponential and StudentT (lgamma an "
            "abstract function shared by model and specification) the model of log_prob -- jax.scipy.stats' standard logpdf in "
            "jax's operation order, pushed through Affine / Chain[Affine,Exp] / Scale(1/rate), summed over the event, NaN mapped to "
            "-inf -- equals the SUM over independent dimensions of the textbook log-density for EVERY real point, every dimension and "
            "all valid parameters, with -inf exactly outside the support (edges inclusive for Uniform, x <= 0 for LogNormal, x < 0 for "
            "Exponential); log_prob never returns NaN for any input class; the mixture log-density is ln sum_i (w_i/sum w) exp lp_i for "
            "any number of components and invariant under rescaling the weights; MultivariateNormal's log-density is the textbook "
            "-1/2 (x-mu)^T Sigma^-1 (x-mu) - 1/2 ln det Sigma - d/2 ln 2 pi for Sigma = L L^T in any dimension (forward substitution solves L z = x - mu; "
            "det Sigma = (prod L_ii)^2 > 0 by MathComp's determinant; |z|^2 = (x-mu)^T M (x-mu) for every M with Sigma M = I); covariance accessor = L L^T; "
            "samplers: the push-forward map used for sampling is inverted by the map log_prob uses; accessors return the constructor values; the class "
            "called with raw arguments of any broadcastable shapes is the family on arrays broadcast by NumPy's index rule. NOT proved: that the constructor's "
            "jnp.linalg.cholesky returns L with L L^T = covariance (tied by U5: covariance accessor vs constructor argument); that a jax.random primitive follows its law is "
            "assumed (KS-tested only); float rounding/overflow is not modelled. The model is tied to /repo on every run by U1-U5.",
    "note": "Trusted: Coq kernel; extraction (ExtrOcamlBasic); ocaml/drv_dens.ml + fops.ml (libm, Lanczos lgamma); harness; numpy "
            "broadcasting only for building scipy references. Guards: 0 < scale, 0 < df, 0 < rate, minval < maxval, positive weights, "
            "positive Cholesky diagonal. Theorems are about the model; the code is tied by sampled correspondence (1e-9 rel, classes exact).",
}

TOL = 1e-9
S = {}


def _setup():
    if S:
        return S
    import equinox as eqx
    import jax
    import jax.numpy as jnp
    import jax.random as jr
    import scipy.special
    import scipy.stats as st
    import flowjax.distributions as fd
    from flowjax.wrappers import unwrap

    S.update(eqx=eqx, jax=jax, jnp=jnp, jr=jr, st=st, fd=fd, unwrap=unwrap, sps=scipy.special)
    S["prims"] = {
        "normal": lambda k, sh, df=None: jr.normal(k, sh),
        "uniform": lambda k, sh, df=None: jr.uniform(k, sh),
        "gumbel": lambda k, sh, df=None: jr.gumbel(k, sh),
        "cauchy": lambda k, sh, df=None: jr.cauchy(k, sh),
        "laplace": lambda k, sh, df=None: jr.laplace(k, sh),
        "exponential": lambda k, sh, df=None: jr.exponential(k, sh),
        "logistic": lambda k, sh, df=None: jr.logistic(k, sh),
        "t": lambda k, sh, df=None: jr.t(k, df, sh),
    }
    return S


# model argument order (a, b, d) per family; python constructor built from the same dict
FAMS = {
    "normal": ("Normal", ("loc", "scale")),
    "lognormal": ("LogNormal", ("loc", "scale")),
    "uniform": ("Uniform", ("minval", "maxval")),
    "gumbel": ("Gumbel", ("loc", "scale")),
    "cauchy": ("Cauchy", ("loc", "scale")),
    "studentt": ("StudentT", ("loc", "scale", "df")),
    "laplace": ("Laplace", ("loc", "scale")),
    "exponential": ("Exponential", ("rate",)),
    "logistic": ("Logistic", ("loc", "scale")),
}
ACCESSORS = {
    "normal": ("loc", "scale"), "gumbel": ("loc", "scale"), "cauchy": ("loc", "scale"), "laplace": ("loc", "scale"),
    "logistic": ("loc", "scale"), "studentt": ("loc", "scale", "df"), "uniform": ("loc", "scale", "minval", "maxval"),
    "exponential": ("rate",), "lognormal": (),
}


def build(fam, P):
    s = _setup()
    cls = getattr(s["fd"], FAMS[fam][0])
    return cls(**{k: s["jnp"].asarray(v) for k, v in P.items()})


def obj_params(fam, dist):
    """(locs, scales, dfs) flat, as the object stores them after unwrap."""
    ud = _setup()["unwrap"](dist)
    f = lambda a: [float(v) for v in np.asarray(a, dtype=np.float64).ravel()]
    if fam == "lognormal":
        aff = ud.bijection.bijections[0]
        return f(aff.loc), f(aff.scale), []
    if fam == "exponential":
        return [], f(ud.bijection.scale), []
    if fam == "studentt":
        return f(ud.bijection.loc), f(ud.bijection.scale), f(ud.base_dist.df)
    return f(ud.bijection.loc), f(ud.bijection.scale), []


def bparams(fam, P):
    """numpy-broadcast parameters (only used for the scipy reference and for generating points)."""
    names = FAMS[fam][1]
    arrs = np.broadcast_arrays(*[np.asarray(P[n], dtype=np.float64) for n in names])
    return dict(zip(names, arrs))


def scipy_frozen(fam, B):
    st = _setup()["st"]
    if fam == "normal":
        return st.norm(B["loc"], B["scale"])
    if fam == "lognormal":
        return st.lognorm(s=B["scale"], scale=np.exp(B["loc"]))
    if fam == "uniform":
        return st.uniform(B["minval"], B["maxval"] - B["minval"])
    if fam == "gumbel":
        return st.gumbel_r(B["loc"], B["scale"])
    if fam == "cauchy":
        return st.cauchy(B["loc"], B["scale"])
    if fam == "studentt":
        return st.t(B["df"], B["loc"], B["scale"])
    if fam == "laplace":
        return st.laplace(B["loc"], B["scale"])
    if fam == "exponential":
        return st.expon(scale=1.0 / B["rate"])
    if fam == "logistic":
        return st.logistic(B["loc"], B["scale"])
    raise KeyError(fam)


def textbook_logpdf(fam, B, x):
    """Log-space transcription of the textbook densities; consulted ONLY where scipy.stats underflows to -inf/nan at a
    finite point inside the support (scipy 1.18 takes log(pdf) for laplace, overflows for t, ...)."""
    sps = _setup()["sps"]
    with np.errstate(all="ignore"):
        if fam == "uniform":
            return np.where((x >= B["minval"]) & (x <= B["maxval"]), -np.log(B["maxval"] - B["minval"]), -np.inf)
        if fam == "exponential":
            return np.where(x >= 0, np.log(B["rate"]) - B["rate"] * x, -np.inf)
        mu, sg = B["loc"], B["scale"]
        if fam == "lognormal":
            return np.where(x > 0, -0.5 * ((np.log(x) - mu) / sg) ** 2 - np.log(x) - np.log(sg) - 0.5 * np.log(2 * np.pi), -np.inf)
        z = (x - mu) / sg
        if fam == "normal":
            return -0.5 * z**2 - np.log(sg) - 0.5 * np.log(2 * np.pi)
        if fam == "gumbel":
            return -(z + np.exp(-z)) - np.log(sg)
        if fam == "cauchy":
            return -np.log(np.pi * sg) - np.log1p(z**2)
        if fam == "laplace":
            return -np.abs(z) - np.log(2 * sg)
        if fam == "logistic":
            return -np.abs(z) - np.log(sg) - 2 * np.log1p(np.exp(-np.abs(z)))
        if fam == "studentt":
            nu = B["df"]
            return sps.gammaln((nu + 1) / 2) - sps.gammaln(nu / 2) - 0.5 * np.log(nu * np.pi) - np.log(sg) - (nu + 1) / 2 * np.log1p(z**2 / nu)
    raise KeyError(fam)


def reference_logpdf(fam, P, x):
    """scipy.stats log-density summed over the event; per coordinate the textbook fallback where scipy's pdf underflows."""
    B = bparams(fam, P)
    nd = next(iter(B.values())).ndim
    with np.errstate(all="ignore"):
        lp = scipy_frozen(fam, B).logpdf(x)
        # scipy 1.18 evaluates some logpdfs as log(pdf): -inf once the pdf underflows and only a few digits while it is subnormal
        # (laplace at -745: 2e-6 relative) -- below -650 the log-space transcription of the textbook formula takes over
        under = (~np.isfinite(lp) | (lp < -650.0)) & np.isfinite(x)
        if under.any():
            lp = np.where(under, textbook_logpdf(fam, B, x), lp)
        lp = np.where(np.isinf(x), -np.inf, lp)  # the density vanishes at +-infinity (scipy returns nan for some families)
        return lp.sum(axis=tuple(range(lp.ndim - nd, lp.ndim))) if nd else lp


def oracle_logp(v, rv, xrow):
    """The property's own statement at one point: never NaN; equals the reference (1e-9 rel, -inf by class).  NaN coordinates:
    only `never NaN`.  A class difference at |x| > 1e140 is IEEE overflow of z*z on one side, outside the property."""
    if v != v:
        return "log_prob returned NaN"
    if np.isnan(xrow).any():
        return ""
    if agree(rv, v):
        return ""
    xf = np.abs(xrow[np.isfinite(xrow)])
    if fclass(rv) != fclass(v) and xf.size and xf.max() > 1e140:
        return ""
    return f"reference (scipy.stats) log-density {rv!r} != log_prob {v!r}"


# ---------- comparison ----------
def fclass(v):
    return "nan" if v != v else "inf" if v == math.inf else "-inf" if v == -math.inf else "fin"


def agree(m, v, tol=TOL):
    cm, cv = fclass(m), fclass(v)
    if cm != cv:
        return False
    return cm != "fin" or abs(m - v) <= tol * max(1.0, abs(v))


def hx(a):
    from harness.common import hexlist
    return hexlist(np.asarray(a, dtype=np.float64).ravel())


def shp(a):
    sh = np.shape(a)
    return ",".join(map(str, sh)) if sh else "-"


def class_request(fam, P, x):
    names = FAMS[fam][1]
    parts = []
    for i in range(3):
        parts += [shp(P[names[i]]), hx(P[names[i]])] if i < len(names) else ["-", "-"]
    return f"dens.class {fam} " + " ".join(parts) + " " + hx(x)


def obj_request(fam, op, x, raw=False):
    locs, scales, dfs = op
    from harness.common import hexlist
    return f"dens.{'objraw' if raw else 'obj'} {fam} {hexlist(locs)} {hexlist(scales)} {hexlist(dfs)} {hx(x)}"


# ---------- generators ----------
SHAPES2 = [((), ()), ((3,), (3,)), ((3,), ()), ((), (3,)), ((2, 3), (2, 3)), ((2, 1), (3,)), ((3,), (2, 1)),
           ((2, 3), ()), ((1,), (1,)), ((2, 1), (1, 3)), ((), (2, 2)), ((2, 1, 2), (3, 1))]
SHAPES3 = [((), (), ()), ((3,), (3,), (3,)), ((), (), (3,)), ((3,), (), ()), ((2, 1), (3,), ()), ((), (2, 1), (3,)),
           ((3,), (2, 1), (2, 3)), ((2, 3), (), (1, 3)), ((1,), (), (2, 2))]
SHAPES1 = [(), (3,), (2, 3), (1,), (2, 1, 2)]


def draw_params(fam, shapes, r):
    n = lambda sh, sd=3.0: r.normal(0.0, sd, size=sh)
    pos = lambda sh, sd=1.5: np.exp(r.normal(0.0, sd, size=sh))
    if fam == "exponential":
        return {"rate": pos(shapes[0])}
    if fam == "uniform":
        lo = n(shapes[0])
        if r.random() < 0.15:
            lo = np.zeros(shapes[0])  # minval = 0 hides maxval-vs-(maxval-minval) mistakes; keep it rare
        width = pos(shapes[1], 1.2)
        hi_shape = np.broadcast_shapes(shapes[0], shapes[1])
        # maxval must have shape shapes[1] for the broadcasting test: maxval = max(minval) + width
        hi = (np.max(lo) if np.size(lo) else 0.0) + width
        return {"minval": lo, "maxval": hi}
    P = {"loc": n(shapes[0]), "scale": pos(shapes[1])}
    if fam == "lognormal":
        P = {"loc": n(shapes[0], 1.0), "scale": pos(shapes[1], 0.7)}
    if fam == "studentt":
        df = np.exp(r.normal(1.0, 1.3, size=shapes[2]))
        df = np.clip(df, 0.05, 1e4)
        if r.random() < 0.3:
            df = np.where(r.random(size=shapes[2]) < 0.5, np.round(df) + 1.0, df)
        P["df"] = df
    return P


def base_draw(fam, B, shape, r):
    if fam in ("normal", "lognormal"):
        return r.normal(size=shape)
    if fam == "uniform":
        return r.random(size=shape)
    if fam == "gumbel":
        return r.gumbel(size=shape)
    if fam == "cauchy":
        return r.standard_cauchy(size=shape)
    if fam == "studentt":
        return r.standard_t(np.broadcast_to(B["df"], shape))
    if fam == "laplace":
        return r.laplace(size=shape)
    if fam == "exponential":
        return r.exponential(size=shape)
    if fam == "logistic":
        return r.logistic(size=shape)


def loc_scale_of(fam, B):
    if fam == "uniform":
        return B["minval"], B["maxval"] - B["minval"]
    if fam == "exponential":
        return np.zeros_like(B["rate"]), 1.0 / B["rate"]
    return B["loc"], B["scale"]


def specials(fam, lo, sc, acc_hi):
    """Boundary-directed per-dimension values (value, tag) for one coordinate with location lo and scale sc."""
    def na(a, b):  # XLA flushes subnormals to zero: keep the neighbours of 0 normal
        v = float(np.nextafter(a, b))
        return v if v == 0.0 or abs(v) >= 2.3e-308 else math.copysign(1e-300, v)

    out = []
    if fam == "lognormal":
        out += [(0.0, "edge"), (-0.0, "edge"), (1e-300, "edge"), (1e-200, "tail"), (-1.0, "outside"), (-1e-300, "outside"),
                (-1e-200, "outside"), (math.exp(lo), "inside"), (math.exp(min(lo + 30 * sc, 700.0)), "tail"), (1e300, "tail"),
                (math.exp(lo - 30 * sc), "tail"), (1.0, "inside")]
    elif fam == "uniform":
        hi = lo + sc
        out += [(lo, "edge"), (hi, "edge"), (acc_hi, "edge"), (na(lo, -np.inf), "outside"), (na(lo, np.inf), "edge"),
                (na(hi, -np.inf), "edge"), (na(hi, np.inf), "edge"), (na(acc_hi, np.inf), "edge"), (lo - sc, "outside"),
                (hi + sc, "outside"), (lo + 0.5 * sc, "inside"), (lo - 1e8 * sc, "outside"), (hi + 1e200, "outside"), (0.0, "zero")]
    elif fam == "exponential":
        out += [(0.0, "edge"), (-0.0, "edge"), (1e-300, "edge"), (-1e-200, "outside"), (-1.0, "outside"), (-1e-300, "outside"),
                (30 * sc, "tail"), (1e3 * sc, "tail"), (1e300, "tail"), (-1e300, "outside"), (sc, "inside")]
    else:
        out += [(lo, "inside"), (0.0, "zero"), (lo + 30 * sc, "tail"), (lo - 30 * sc, "tail"), (lo + 1e3 * sc, "tail"),
                (lo - 1e3 * sc, "tail"), (lo + 1e8 * sc, "tail"), (lo - 1e8 * sc, "tail"), (1e160, "tail"), (-1e160, "tail"),
                (1e300, "tail"), (-1e300, "tail"), (lo + 1e-12 * sc, "inside"), (1.0, "inside"), (-1.0, "inside")]
    out += [(math.nan, "nonfinite"), (math.inf, "nonfinite"), (-math.inf, "nonfinite")]
    return out


def gen_points(fam, P, dist, nb, r):
    """nb event-shaped points + tags: interior draws, then one (or every) coordinate moved to a special value."""
    B = bparams(fam, P)
    shape = next(iter(B.values())).shape
    lo, sc = loc_scale_of(fam, B)
    acc_hi = np.asarray(dist.maxval, dtype=np.float64) if fam == "uniform" else lo
    z = np.stack([base_draw(fam, B, shape, r) for _ in range(nb)])
    x = lo + sc * z
    if fam == "lognormal":
        x = np.exp(x)
    tags = ["inside"] * nb
    n = int(np.prod(shape, dtype=int))
    flat = x.reshape(nb, n)
    lof, scf, hif = np.ravel(lo), np.ravel(sc), np.ravel(np.broadcast_to(acc_hi, shape))
    nsp = len(specials(fam, 0.0, 1.0, 1.0))
    start = nb // 4
    for b in range(start, nb):
        j = (b - start) % nsp
        if n == 0:
            break
        if r.random() < 0.25 and n > 1:
            dims = range(n)
            for i in dims:
                flat[b, i] = specials(fam, lof[i], scf[i], hif[i])[j][0]
            tags[b] = specials(fam, 0.0, 1.0, 1.0)[j][1] + "-all"
        else:
            i = int(r.integers(0, n))
            flat[b, i], tags[b] = specials(fam, lof[i], scf[i], hif[i])[j]
    return flat.reshape((nb,) + shape), tags


def fragile(fam, P, x):
    """True where some coordinate sits within a few ulps of Uniform's upper edge: there the class of the result depends on
    the last bit of the stored (softplus round-tripped) scale, so only the object-level model is compared."""
    if fam != "uniform":
        return np.zeros(len(x), dtype=bool)
    B = bparams(fam, P)
    nd = B["minval"].ndim
    with np.errstate(all="ignore"):
        z = (x - B["minval"]) / (B["maxval"] - B["minval"])
        bad = np.abs(z - 1.0) < 1e-12
    return bad.reshape(len(x), -1).any(axis=1) if nd else bad


def ptag(P):
    return "x".join("(" + ",".join(map(str, np.shape(v))) + ")" for v in P.values())


def case_json(fam, P, x):
    return {"kind": "logp", "family": fam, "params": {k: {"shape": list(np.shape(v)), "hex": hx(v)} for k, v in P.items()},
            "x": {"shape": list(np.shape(x)), "hex": hx(x)}}


def from_case(c):
    from harness.common import fparse
    dec = lambda d: np.array([fparse(t) for t in d["hex"].split(",")] if d["hex"] != "-" else [], dtype=np.float64).reshape(d["shape"])
    return c["family"], {k: dec(v) for k, v in c["params"].items()}, dec(c["x"])


def reproducer(fam, P, x):
    cls, names = FAMS[fam]
    args = ", ".join(f"{n}=np.array({np.asarray(P[n]).tolist()})" for n in names)
    return (f"cd /repo && JAX_PLATFORMS=cpu /venv/bin/python -c \"import jax, numpy as np; jax.config.update('jax_enable_x64', True); "
            f"from flowjax.distributions import {cls}; print({cls}({args}).log_prob(np.array({np.asarray(x).tolist()})))\"").replace("nan", "np.nan").replace("inf", "np.inf")


# ---------- U1 / U2 / U3 + scipy oracle for the nine families ----------
def check_family_dist(ctx, fam, P, r, nb, units, do_sample=True):
    s = _setup()
    jnp, jr, unwrap = s["jnp"], s["jr"], s["unwrap"]
    u1a, u1b, u2, u3, uo = units
    B = bparams(fam, P)
    shape = next(iter(B.values())).shape
    try:
        dist = build(fam, P)
    except Exception as e:  # valid parameters must be accepted
        units[0].count((fam, ptag(P), "ctor", hx(list(P.values())[0])), nontrivial=True, tag=f"{fam}:constructor-raised")
        ctx.violation(sig=f"{FAMS[fam][0]}.__init__:raised", what=f"{FAMS[fam][0]} rejects valid parameters {({k: np.asarray(v).tolist() for k, v in P.items()})}: {type(e).__name__}: {str(e)[:200]}",
                      case={"kind": "ctor", "family": fam, "params": case_json(fam, P, np.zeros(()))["params"]}, found_input=True, unit="U2-accessors",
                      expected="a distribution object", observed=f"{type(e).__name__}", broken="correspondence U2 (constructor)")
        return None
    x, tags = gen_points(fam, P, dist, nb, r)
    pt = ptag(P)
    try:
        lp = np.asarray(dist.log_prob(jnp.asarray(x)), dtype=np.float64)
        shape_err = None if lp.shape == (nb,) and tuple(dist.shape) == tuple(shape) else f"log_prob of {nb} points of shape {shape} has shape {lp.shape}; dist.shape = {dist.shape}"
    except Exception as e:  # a valid point of the event shape must be accepted
        shape_err = f"log_prob raised {type(e).__name__}: {str(e)[:200]}"
    if shape_err:
        units[0].count((fam, pt, "shape"), nontrivial=True, tag=f"{fam}:{pt}:shape")
        ctx.violation(sig=f"{FAMS[fam][0]}.log_prob:shape", what=f"{FAMS[fam][0]} with parameter shapes {pt} (event shape {shape} by NumPy broadcasting): {shape_err}",
                      case=case_json(fam, P, x[0]), found_input=True, unit="U1-log_prob", expected=f"one value per point, event shape {shape}", observed=shape_err,
                      broken="correspondence U1/U2 (shape)", reproducer=reproducer(fam, P, x[0]))
        return dist
    op = obj_params(fam, dist)
    reqs = []
    for b in range(nb):
        reqs.append(class_request(fam, P, x[b]))
        reqs.append(obj_request(fam, op, x[b]))
    # accessors
    names = FAMS[fam][1]
    parts = []
    for i in range(3):
        parts += [shp(P[names[i]]), hx(P[names[i]])] if i < len(names) else ["-", "-"]
    reqs.append(f"dens.acc {fam} " + " ".join(parts))
    reqs.append(f"dens.prim {fam}")
    out = ctx.model(reqs)
    frag = fragile(fam, P, x)
    ref = reference_logpdf(fam, P, x)
    rows = []
    for b in range(nb):
        ma, mb = common_fparse(out[2 * b]), common_fparse(out[2 * b + 1])
        v = float(lp[b])
        if frag[b]:
            # within a few ulps of Uniform's upper edge the class depends on the last bit of (x - loc) / scale; XLA evaluates a BATCHED
            # division by a broadcast operand as a multiplication by the reciprocal, so take the unbatched evaluation (correctly rounded
            # division, bit-comparable with the model at object level) and leave the oracle out
            v = float(dist.log_prob(jnp.asarray(x[b])))
        key = (fam, pt, hx(list(P.values())[0]), hx(x[b]), hx(list(P.values())[-1]))
        ora_msg = ("log_prob returned NaN" if v != v else "") if frag[b] else oracle_logp(v, float(ref[b]), x[b])
        uo.count(key, nontrivial=not np.isnan(x[b]).any() and not frag[b], tag=f"{fam}:{tags[b]}")
        oka = frag[b] or agree(ma, v)
        okb = agree(mb, v)
        if not frag[b]:
            u1a.count(key, nontrivial=True, tag=f"{fam}:{pt}:{tags[b]}")
        u1b.count(key, nontrivial=True, tag=f"{fam}:{tags[b]}" + (":ulp-of-upper-edge" if frag[b] else ""))
        u1a.disagreements += not oka
        u1b.disagreements += not okb
        rows.append((b, v, ma, mb, oka and okb, ora_msg))
        if b in (0, nb - 1) and len(ctx.samples) < 10 and r.random() < 0.1:
            ctx.sample({"case": case_json(fam, P, x[b]), "implementation": v, "model": mb, "reference": float(ref[b])})
    # a model disagreement without its own failing oracle is reported separately only if the oracle fails nowhere on this
    # distribution (otherwise the failing inputs of the same distribution are the concrete witnesses)
    any_oracle = any(row[5] for row in rows)
    for b, v, ma, mb, okm, ora_msg in rows:
        if ora_msg or (not okm and not any_oracle):
            what = (f"{FAMS[fam][0]}.log_prob: " + (ora_msg if ora_msg else f"model (constructor level {ma!r}, object level {mb!r}) != implementation {v!r}")
                    + f" at a point tagged {tags[b]}, parameter shapes {pt}")
            ctx.violation(sig=f"{FAMS[fam][0]}.log_prob:{'oracle' if ora_msg else 'model'}:{tags[b].split('-')[0]}", what=what, case=case_json(fam, P, x[b]),
                          found_input=bool(ora_msg), unit="U1-log_prob", expected={"model_ctor": ma, "model_obj": mb, "reference": float(ref[b])},
                          observed=v, broken=f"correspondence U1 / theorem C05_{fam}_spec", reproducer=reproducer(fam, P, x[b]))
    # ---- U2 accessors ----
    acc = out[2 * nb].split(" ")
    mshape = tuple(int(t) for t in acc[0].split(",")) if acc[0] != "-" else ()
    fields = dict(zip(("loc", "scale", "df", "minval", "maxval", "rate"), acc[1:]))
    ok_shape = tuple(dist.shape) == mshape == tuple(shape)
    u2.count((fam, pt, "shape", hx(list(P.values())[0])), nontrivial=len(shape) > 0, tag=f"{fam}:shape")
    bad = [] if ok_shape else [f"shape {tuple(dist.shape)} != model {mshape} / numpy {tuple(shape)}"]
    for a in ACCESSORS[fam]:
        got = np.asarray(getattr(dist, a), dtype=np.float64)
        exp = np.array([common_fparse(t) for t in fields[a].split(",")]).reshape(mshape)
        # ... and independently of the model: the constructor's value, NumPy-broadcast
        ctor = {"loc": B.get("loc", B.get("minval")), "scale": B.get("scale", None), "df": B.get("df"), "minval": B.get("minval"),
                "maxval": B.get("maxval"), "rate": B.get("rate")}[a]
        if a == "scale" and fam == "uniform":
            ctor = B["maxval"] - B["minval"]
        u2.count((fam, pt, a, hx(got)), nontrivial=True, tag=f"{fam}:{a}")
        tol = 0.0 if a in ("loc", "minval") else 1e-12
        scale_ref = np.maximum(np.abs(exp), 1e-300)
        if a == "maxval":
            scale_ref = np.maximum(np.abs(B["minval"]) + np.abs(B["maxval"]), 1e-300)
        if got.shape != exp.shape or not np.all(np.abs(got - exp) <= tol * scale_ref):
            bad.append(f"{a}: {got.tolist()} != model {exp.tolist()}")
        elif got.shape != np.shape(ctor) or not np.all(np.abs(got - ctor) <= max(tol, 1e-12) * scale_ref):
            bad.append(f"{a}: {got.tolist()} != constructor value {np.asarray(ctor).tolist()}")
    if bad:
        u2.disagreements += 1
        ctx.violation(sig=f"{FAMS[fam][0]}.accessor:{bad[0].split(':')[0].split(' ')[0]}", what=f"{FAMS[fam][0]} accessor does not return the constructor's value: " + "; ".join(bad)[:400],
                      case={"kind": "accessor", "family": fam, "params": case_json(fam, P, np.zeros(()))["params"]}, found_input=True,
                      unit="U2-accessors", expected="constructor values (broadcast)", observed=bad, broken="correspondence U2 / C05_accessors")
    # ---- U3 sampler ----
    if do_sample:
        prim = out[2 * nb + 1]
        ud = unwrap(dist)
        for kk in range(2):
            key = jr.PRNGKey(int(r.integers(0, 2**31 - 1)))
            dfu = ud.base_dist.df if fam == "studentt" else None
            draw = np.asarray(s["prims"][prim](key, shape, dfu), dtype=np.float64)
            base_s = np.asarray(ud.base_dist._sample(key), dtype=np.float64)
            got = np.asarray(ud._sample(key), dtype=np.float64)
            from harness.common import hexlist
            m = ctx.model([f"dens.sample {fam} {hexlist(op[0])} {hexlist(op[1])} {hx(draw)}"])[0]
            exp = np.array([common_fparse(t) for t in m.split(",")]).reshape(shape) if m != "-" else np.zeros(shape)
            pub = np.asarray(dist.sample(key), dtype=np.float64)
            pub_exp = np.asarray(ud._sample(jr.split(key, 1)[0]), dtype=np.float64)
            u3.count((fam, pt, hx(got)), nontrivial=True, tag=f"{fam}:{pt}")
            stol = 1e-12 if fam == "lognormal" else 0.0
            errs = []
            if not np.array_equal(base_s, draw):
                errs.append(f"base_dist._sample(key) is not jax.random.{prim} at the same key")
            if got.shape != exp.shape or not np.all(np.abs(got - exp) <= stol * np.abs(exp)):
                errs.append(f"_sample(key) {got.ravel()[:4].tolist()} != push-forward of jax.random.{prim}(key) through the stored map {exp.ravel()[:4].tolist()}")
            if not np.array_equal(pub, pub_exp):
                errs.append("sample(key) != _sample(split(key, 1)[0])")
            if errs:
                u3.disagreements += 1
                ks = ks_family(fam, P, dist, key)
                ctx.violation(sig=f"{FAMS[fam][0]}.sample:{'ks' if ks[0] else 'model'}", what=f"{FAMS[fam][0]} sampler: " + "; ".join(errs) + (f"; KS test against scipy fails: {ks[1]}" if ks[0] else "; KS test passes"),
                              case={"kind": "ks", "family": fam, "params": case_json(fam, P, np.zeros(()))["params"], "key": np.asarray(key).tolist()},
                              found_input=bool(ks[0]), unit="U3-sampler", expected=f"jax.random.{prim} pushed through the class's map", observed=errs,
                              broken="correspondence U3 / C05_sample_inverts")
    return dist


def common_fparse(t):
    from harness.common import fparse
    return fparse(t)


# ---------- KS oracle ----------
N_KS = 20000
KS_THRESHOLD = 0.0234  # P(D_N > d) ~ 2 exp(-2 N d^2) = 1e-9 at N = 20000


def ks_stat(samples, cdf):
    xs = np.sort(samples)
    n = len(xs)
    with np.errstate(all="ignore"):
        F = cdf(xs)
    return float(max(np.max(np.arange(1, n + 1) / n - F), np.max(F - np.arange(0, n) / n)))


_ks_cache = {}


def sampler_fn(dist, n):
    """jitted dist.sample(key, (n,)) -- cached per (class, shape)."""
    s = _setup()
    eqx = s["eqx"]
    k = (type(dist).__name__, tuple(dist.shape), n)
    if k not in _ks_cache:
        _ks_cache[k] = eqx.filter_jit(lambda d, key: d.sample(key, (n,)))
    return _ks_cache[k]


def ks_family(fam, P, dist, key, n=N_KS):
    """(failed?, message, worst statistic): per-coordinate KS of n samples against the scipy CDF."""
    B = bparams(fam, P)
    shape = next(iter(B.values())).shape
    smp = np.asarray(sampler_fn(dist, n)(dist, key), dtype=np.float64).reshape(n, -1)
    fro = scipy_frozen(fam, {k: v.reshape(-1) for k, v in B.items()})
    worst, wi = 0.0, 0
    for i in range(smp.shape[1]):
        Bi = {k: v.reshape(-1)[i] for k, v in B.items()}
        d = ks_stat(smp[:, i], scipy_frozen(fam, Bi).cdf)
        if d > worst:
            worst, wi = d, i
    if not np.all(np.isfinite(smp)):
        return True, "non-finite sample", 1.0
    return worst > KS_THRESHOLD, f"D={worst:.4f} > {KS_THRESHOLD} at coordinate {wi} (N={n})", worst


def run_families(ctx):
    r = ctx.rng
    nb = 36 if ctx.quick else 120
    reps = 1 if ctx.quick else 8
    units = (
        ctx.unit("U1a-log_prob-ctor", "dist.log_prob(x) vs Model.Dens.class_log_prob fed the RAW constructor arguments (Gallina broadcast); 9 families x "
                 "parameter-shape configurations (scalar/vector/matrix, loc vs scale vs df broadcasting) x points inside / on the edge / outside the support / "
                 "far tails / non-finite; non-trivial = parameters perturbed away from the defaults (always); points within 1e-12 of Uniform's upper edge "
                 "are compared at object level only"),
        ctx.unit("U1b-log_prob-object", "the same points vs Model.Dens.obj_log_prob fed the parameters stored in the object (after unwrap): class of the "
                 "result must agree at every edge, 1e-9 rel otherwise"),
        ctx.unit("U2-accessors", "shape/loc/scale/df/rate/minval/maxval of the object vs the model's accessor functions of the constructor arguments and vs "
                 "the NumPy-broadcast constructor values (loc exact, others 1e-12 rel)"),
        ctx.unit("U3-sampler", "unwrap(dist)._sample(key) vs the model's push-forward (obj_sample) of the jax.random primitive named by the model's "
                 "sampler_prim table at the same key, exact (1e-12 for LogNormal); base_dist._sample(key) bit-identical to the primitive; "
                 "sample(key) = _sample(split(key,1)[0])"),
        ctx.unit("O1-scipy", "search oracle: dist.log_prob vs scipy.stats (float64), 1e-9 rel, -inf by class, never NaN; every U1 point"),
    )
    for fam in FAMS:
        nargs = len(FAMS[fam][1])
        shapes = {1: [(sh,) for sh in SHAPES1], 2: SHAPES2, 3: SHAPES3}[nargs]
        if ctx.quick:  # scalar / vector / matrix / rank-3 and every broadcasting direction stay in the quick tier
            keep = {1: (0, 1, 2, 3), 2: (0, 1, 2, 3, 4, 5, 6, 11), 3: (0, 1, 2, 4, 5, 6, 7)}[nargs]
            shapes = [shapes[i] for i in keep]
        for shs in shapes:
            for _ in range(reps):
                P = draw_params(fam, shs, r)
                check_family_dist(ctx, fam, P, r, nb, units)
    # Uniform with exactly representable edge arithmetic, evaluated unbatched: BOTH edges are inside the support (inclusive, as scipy's)
    s = _setup()
    jnp = s["jnp"]
    from harness.common import hexlist
    for lo, hi in [(-1.0, 2.5), (0.0, 1.0), (0.5, 4.0), (-8.0, -2.0), (np.array([-1.0, 0.0]), np.array([3.0, 0.25])), (np.array([[0.0], [2.0]]), np.array([4.0, 6.0]))]:
        P = {"minval": np.asarray(lo, dtype=np.float64), "maxval": np.asarray(hi, dtype=np.float64)}
        d = build("uniform", P)
        B = bparams("uniform", P)
        op = obj_params("uniform", d)
        if not np.array_equal(np.asarray(op[1]), (B["maxval"] - B["minval"]).ravel()):
            ctx.notes.append(f"uniform exact-edge case {lo}, {hi} skipped: stored scale is not bit-equal to maxval - minval")
            continue
        expect = -float(np.sum(np.log(B["maxval"] - B["minval"])))
        for name, pt_ in (("minval", B["minval"]), ("maxval", B["maxval"]), ("above", np.nextafter(B["maxval"], np.inf)),
                          ("below", np.where(B["minval"] == 0, -1e-300, np.nextafter(B["minval"], -np.inf)))):
            v = float(d.log_prob(jnp.asarray(pt_)))
            mo = common_fparse(ctx.model([obj_request("uniform", op, pt_)])[0])
            units[1].count(("uniform-exact", hx(P["minval"]), hx(P["maxval"]), name), nontrivial=True, tag="uniform:exact-edge:" + name)
            units[4].count(("uniform-exact", hx(P["minval"]), hx(P["maxval"]), name), nontrivial=True, tag="uniform:exact-edge:" + name)
            # one ulp outside: x - minval may round back onto the edge, so only the (float-faithful) model is compared there
            want = expect if name in ("minval", "maxval") else v
            if not agree(mo, v) or not agree(want, v):
                ctx.violation(sig=f"Uniform.log_prob:{'oracle' if not agree(want, v) else 'model'}:edge", what=f"Uniform({lo}, {hi}).log_prob at {name} ({np.asarray(pt_).tolist()}) = {v!r}; "
                              f"textbook (edges inclusive) {want!r}, model {mo!r}", case=case_json("uniform", P, pt_), found_input=not agree(want, v), unit="U1-log_prob",
                              expected=want, observed=v, broken="correspondence U1 / theorem C05_uniform_spec", reproducer=reproducer("uniform", P, pt_))
    # StandardNormal (public standard base) through the same model with loc 0, scale 1
    for sh in [(), (3,), (2, 2)]:
        d = s["fd"].StandardNormal(sh)
        x = r.normal(size=(8,) + sh) * 3
        lp = np.asarray(d.log_prob(s["jnp"].asarray(x)))
        n = int(np.prod(sh, dtype=int))
        from harness.common import hexlist
        out = ctx.model([f"dens.obj normal {hexlist([0.0] * n)} {hexlist([1.0] * n)} - {hx(x[b])}" for b in range(8)])
        for b in range(8):
            units[1].count(("stdnormal", sh, hx(x[b])), nontrivial=False, tag="StandardNormal")
            rv = float(np.sum(s["st"].norm.logpdf(x[b])))
            if not agree(common_fparse(out[b]), float(lp[b])) or not agree(rv, float(lp[b])):
                ctx.violation(sig="StandardNormal.log_prob", what=f"StandardNormal{sh}.log_prob {float(lp[b])!r} != model {out[b]} / scipy {rv!r}",
                              case={"kind": "stdnormal", "shape": list(sh), "x": x[b].tolist()}, found_input=not agree(rv, float(lp[b])), unit="U1b")


def run_ks(ctx):
    r = ctx.rng
    u = ctx.unit("O2-KS", f"search oracle: fixed-seed Kolmogorov-Smirnov statistic of N={N_KS} samples of dist.sample against the scipy CDF, per coordinate, "
                          f"threshold {KS_THRESHOLD} (1e-9 false-alarm level); every family, scalar and broadcast vector parameters")
    s = _setup()
    cfgs = [((), (), ()), ((2,), (), (2,))] if ctx.quick else [((), (), ()), ((2,), (), (2,)), ((), (2,), ()), ((2,), (2,), (2,))]
    worst = 0.0
    for fam in FAMS:
        nargs = len(FAMS[fam][1])
        for cfg in cfgs:
            for _ in range(1 if ctx.quick else 3):
                P = draw_params(fam, cfg[:nargs], r)
                if fam == "studentt":
                    P["df"] = np.clip(P["df"], 0.3, 1e3)
                try:
                    dist = build(fam, P)
                except Exception:
                    continue  # reported by U1/U2
                key = s["jr"].PRNGKey(int(r.integers(0, 2**31 - 1)))
                failed, msg, d = ks_family(fam, P, dist, key)
                worst = max(worst, d)
                u.count((fam, ptag(P), hx(list(P.values())[0])), nontrivial=True, tag=fam)
                if failed:
                    ctx.violation(sig=f"{FAMS[fam][0]}.sample:ks", what=f"{FAMS[fam][0]} samples do not follow the textbook law: KS {msg}",
                                  case={"kind": "ks", "family": fam, "params": case_json(fam, P, np.zeros(()))["params"], "key": np.asarray(key).tolist()},
                                  found_input=True, unit="O2-KS", expected=f"D <= {KS_THRESHOLD}", observed=msg, broken="samples follow the density")
    ctx.notes.append(f"O2-KS worst statistic over families: {worst:.5f} (threshold {KS_THRESHOLD})")


# ---------- U4 mixtures ----------
def mix_obj_params(fam, m):
    """per component (locs, scales, dfs) from the unwrapped vmapped component distribution."""
    ud = _setup()["unwrap"](m).dist
    f = lambda a: np.asarray(a, dtype=np.float64)
    if fam == "lognormal":
        aff = ud.bijection.bijections[0]
        L, Sc, D = f(aff.loc), f(aff.scale), None
    elif fam == "exponential":
        L, Sc, D = None, f(ud.bijection.scale), None
    elif fam == "studentt":
        L, Sc, D = f(ud.bijection.loc), f(ud.bijection.scale), f(ud.base_dist.df)
    else:
        L, Sc, D = f(ud.bijection.loc), f(ud.bijection.scale), None
    n = len(Sc)
    g = lambda a, i: [] if a is None else [float(v) for v in a[i].ravel()]
    return [(g(L, i), g(Sc, i), g(D, i)) for i in range(n)]


def mixture_ref(fam, Ps, w, x):
    s = _setup()
    comps = np.stack([reference_logpdf(fam, P, x) for P in Ps], axis=-1)
    with np.errstate(all="ignore"):
        return s["sps"].logsumexp(comps + np.log(w / w.sum()), axis=-1)


def run_mixtures(ctx):
    s = _setup()
    jnp, jr, eqx, fd, unwrap = s["jnp"], s["jr"], s["eqx"], s["fd"], s["unwrap"]
    from harness.common import hexlist
    r = ctx.rng
    u4 = ctx.unit("U4-mixture", "VmapMixture(filter_vmap(Family)(params), weights).log_prob vs Model.Dens.fam_mixture_log_prob (component parameters as "
                                "stored, weights as given to the constructor); 2..5 components, unnormalised weights and the same weights rescaled by k; event "
                                "shapes () and (2,); non-trivial = weights not normalised (always)")
    u4s = ctx.unit("U4-mixture-sampler", "VmapMixture._sample(key) = component[categorical(key1, log_softmax(log w))]._sample(key2) with key1, key2 = split(key); "
                                         "KS of scalar mixtures against the weight-normalised scipy mixture CDF")
    u4o = ctx.unit("O1-mixture", "search oracle: mixture log_prob vs scipy logsumexp(log(w/sum w) + scipy component log-densities), 1e-9; invariance under "
                                 "rescaling of the weights 1e-9")
    nb = 24 if ctx.quick else 64
    reps = 1 if ctx.quick else 6
    for fam in FAMS:
        for (ncomp, eshape) in ([(2, ()), (3, ()), (4, (2,))] if ctx.quick else [(2, ()), (3, ()), (5, ()), (3, (2,)), (4, (2,))]):
            for _ in range(reps):
                nargs = len(FAMS[fam][1])
                Ps = [draw_params(fam, (eshape,) * nargs, r) for _ in range(ncomp)]
                if fam == "uniform":  # every component needs minval < maxval elementwise
                    for P in Ps:
                        P["maxval"] = P["minval"] + np.exp(r.normal(0, 1, size=eshape))
                names = FAMS[fam][1]
                stacked = {n: jnp.asarray(np.stack([P[n] for P in Ps])) for n in names}
                cls = getattr(fd, FAMS[fam][0])
                try:
                    comp = eqx.filter_vmap(lambda kw: cls(**kw))(stacked)
                    [build(fam, P) for P in Ps]
                except Exception:
                    continue  # constructor failures on valid parameters are reported by U1/U2
                w = np.exp(r.normal(0, 1.2, size=ncomp)) * float(np.exp(r.normal(0, 2)))
                kscale = float(np.exp(r.normal(0, 3)))
                m1 = fd.VmapMixture(comp, jnp.asarray(w))
                m2 = fd.VmapMixture(comp, jnp.asarray(kscale * w))
                # points: draws of random components + boundary-directed ones of component 0
                pts, tags = [], []
                for ci in range(ncomp):
                    d = build(fam, Ps[ci])
                    xx, tt = gen_points(fam, Ps[ci], d, max(4, nb // ncomp), r)
                    pts.append(xx)
                    tags += tt
                x = np.concatenate(pts)[:nb]
                tags = tags[:nb]
                while len(x) < nb:
                    x = np.concatenate([x, x[: nb - len(x)]])
                    tags = tags + tags[: nb - len(tags)]
                lp1 = np.asarray(m1.log_prob(jnp.asarray(x)), dtype=np.float64)
                lp2 = np.asarray(m2.log_prob(jnp.asarray(x)), dtype=np.float64)
                cps = mix_obj_params(fam, m1)
                cstr = " ".join(f"{hexlist(a)};{hexlist(b)};{hexlist(d)}" for a, b, d in cps)
                reqs = []
                for b in range(nb):
                    reqs.append(f"dens.mix {fam} {hexlist(w)} {hx(x[b])} {cstr}")
                    reqs.append(f"dens.mix {fam} {hexlist(kscale * w)} {hx(x[b])} {cstr}")
                out = ctx.model(reqs)
                ref = mixture_ref(fam, Ps, w, x)
                frag = np.zeros(nb, dtype=bool)
                for P in Ps:
                    frag |= fragile(fam, P, x)
                for b in range(nb):
                    if frag[b]:
                        continue
                    v1, v2 = float(lp1[b]), float(lp2[b])
                    a1, a2 = common_fparse(out[2 * b]), common_fparse(out[2 * b + 1])
                    key = (fam, ncomp, eshape, hexlist(w), hx(x[b]))
                    u4.count(key, nontrivial=True, tag=f"{fam}:{ncomp}:{tags[b]}")
                    u4o.count(key, nontrivial=not np.isnan(x[b]).any(), tag=fam)
                    errs = [e for e in (oracle_logp(v1, float(ref[b]), x[b]),) if e]
                    if v2 != v2:
                        errs.append("log_prob with rescaled weights returned NaN")
                    elif not agree(v1, v2):
                        errs.append(f"log_prob changes under rescaling the weights by {kscale!r}: {v1!r} -> {v2!r}")
                    okm = agree(a1, v1) and agree(a2, v2)
                    if errs or not okm:
                        u4.disagreements += not okm
                        cj = {"kind": "mixture", "family": fam, "weights": hexlist(w), "k": float(kscale).hex(),
                              "components": [case_json(fam, P, np.zeros(()))["params"] for P in Ps], "x": {"shape": list(np.shape(x[b])), "hex": hx(x[b])}}
                        ctx.violation(sig=f"VmapMixture[{FAMS[fam][0]}].log_prob:{'oracle' if errs else 'model'}",
                                      what=f"VmapMixture of {ncomp} {FAMS[fam][0]} components, weights {w.tolist()}: " + ("; ".join(errs) if errs else f"model ({a1!r}, rescaled {a2!r}) != implementation ({v1!r}, {v2!r})"),
                                      case=cj, found_input=bool(errs), unit="U4-mixture", expected={"model": a1, "model_rescaled": a2, "scipy": float(ref[b])},
                                      observed=[v1, v2], broken="correspondence U4 / C05_mixture_spec, C05_mixture_scale_invariant")
                # sampler structure
                um = unwrap(m1)
                key = jr.PRNGKey(int(r.integers(0, 2**31 - 1)))
                k1, k2 = jr.split(key)
                lnw = np.log(w) - np.log(w.sum())
                ci = int(jr.categorical(k1, jnp.asarray(lnw)))
                got = np.asarray(um._sample(key), dtype=np.float64)
                exp_s = np.asarray(unwrap(build(fam, Ps[ci]))._sample(k2), dtype=np.float64)
                u4s.count((fam, ncomp, eshape, hx(got)), nontrivial=True, tag=f"{fam}:{ncomp}")
                ok_s = got.shape == exp_s.shape and np.all(np.abs(got - exp_s) <= 1e-12 * np.maximum(1.0, np.abs(exp_s)))
                do_ks = eshape == () and (not ctx.quick or ncomp == 3)
                if do_ks or not ok_s:
                    if eshape == ():
                        n = N_KS
                        smp = np.asarray(sampler_fn(m1, n)(m1, key), dtype=np.float64)
                        wn = w / w.sum()
                        cdf = lambda t: sum(wn[i] * scipy_frozen(fam, bparams(fam, Ps[i])).cdf(t) for i in range(ncomp))
                        dks = ks_stat(smp, cdf)
                        u4s.count((fam, ncomp, "ks", hexlist(w)), nontrivial=True, tag=f"{fam}:ks")
                    else:
                        dks = 0.0
                    if dks > KS_THRESHOLD or not ok_s:
                        u4s.disagreements += 1
                        ctx.violation(sig=f"VmapMixture[{FAMS[fam][0]}].sample:{'ks' if dks > KS_THRESHOLD else 'model'}",
                                      what=f"VmapMixture sampler ({ncomp} {FAMS[fam][0]} components, weights {w.tolist()}): " + ("" if ok_s else f"_sample(key) {got.tolist()} != component[categorical]._sample(key2) {exp_s.tolist()}; ")
                                           + (f"KS statistic {dks:.4f} > {KS_THRESHOLD} against the weight-normalised mixture CDF" if dks > KS_THRESHOLD else "KS passes"),
                                      case={"kind": "mixture-ks", "family": fam, "weights": hexlist(w), "components": [case_json(fam, P, np.zeros(()))["params"] for P in Ps],
                                            "key": np.asarray(key).tolist()}, found_input=dks > KS_THRESHOLD, unit="U4-mixture-sampler")
    # the primitives on their own (arbitrary component log-probs incl. -inf): log_softmax / logsumexp
    reqs, cases = [], []
    for _ in range(60 if ctx.quick else 600):
        n = int(r.integers(1, 7))
        lps = r.normal(0, 30, size=n)
        lps[r.random(size=n) < 0.25] = -np.inf
        w = np.exp(r.normal(0, 2, size=n))
        cases.append((lps, w))
        reqs.append(f"dens.mixlp {hexlist(w)} {hexlist(lps)}")
    out = ctx.model(reqs)
    from jax.nn import log_softmax
    from jax.scipy.special import logsumexp
    for (lps, w), o in zip(cases, out):
        v = float(logsumexp(jnp.asarray(lps) + log_softmax(jnp.log(jnp.asarray(w)))))
        with np.errstate(all="ignore"):
            rv = float(s["sps"].logsumexp(lps + np.log(w / w.sum())))
        u4.count(("prim", hexlist(lps), hexlist(w)), nontrivial=True, tag="logsumexp+log_softmax")
        if not agree(common_fparse(o), v) or not agree(rv, v):
            ctx.violation(sig="VmapMixture.logsumexp-log_softmax", what=f"logsumexp(lps + log_softmax(log w)) = {v!r}, model {o}, scipy {rv!r} for lps {lps.tolist()} w {w.tolist()}",
                          case={"kind": "mixlp", "lps": hexlist(lps), "w": hexlist(w)}, found_input=not agree(rv, v), unit="U4-mixture")


def run_nested_mixtures(ctx):
    """A VmapMixture whose components are themselves VmapMixtures (scalar Normals): the law is the mixture with the products of the
    normalised weights; KS of N samples against that CDF, and log_prob against the scipy mixture density.  A sampler that reuses
    a key between the levels locks the inner choice to the outer one (seeded change C05e): each level alone still looks right."""
    s = _setup()
    jnp, jr, eqx, D, sps = s["jnp"], s["jr"], s["eqx"], s["fd"], s["sps"]
    from scipy import stats as st

    u = ctx.unit("O3-nested-mixture", f"search oracle: VmapMixture of VmapMixtures of scalar Normals, KS of N={N_KS} samples against the flat mixture CDF "
                                      f"(threshold {KS_THRESHOLD}) and log_prob against the scipy mixture density")
    r = ctx.rng
    for rep in range(2 if ctx.quick else 8):
        no, ni = int(r.integers(2, 4)), int(r.integers(2, 4))
        locs = np.sort(r.normal(0, 6, (no, ni)).ravel()).reshape(no, ni) if rep % 2 == 0 else r.normal(0, 6, (no, ni))
        scales = np.exp(r.normal(-0.5, 0.4, (no, ni)))
        w_in = np.exp(r.normal(0, 1.0, (no, ni)))
        w_out = np.exp(r.normal(0, 1.0, no))
        inner = eqx.filter_vmap(lambda lo, sc, w: D.VmapMixture(eqx.filter_vmap(D.Normal)(lo, sc), w))(jnp.asarray(locs), jnp.asarray(scales), jnp.asarray(w_in))
        dist = D.VmapMixture(inner, jnp.asarray(w_out))
        flat_w = ((w_out / w_out.sum())[:, None] * (w_in / w_in.sum(1, keepdims=True))).ravel()
        cdf = lambda x: sum(wk * st.norm.cdf(x, lk, sk) for wk, lk, sk in zip(flat_w, locs.ravel(), scales.ravel()))  # noqa: E731
        key = jr.PRNGKey(int(r.integers(0, 2**31 - 1)))
        smp = np.asarray(eqx.filter_jit(lambda d, k: d.sample(k, (N_KS,)))(dist, key), dtype=np.float64).ravel()
        d_ks = ks_stat(smp, cdf)
        xs = r.normal(0, 7, 6)
        lp = np.asarray(eqx.filter_jit(lambda d, x: d.log_prob(x))(dist, jnp.asarray(xs)), dtype=np.float64)
        ref = np.array([sps.logsumexp(np.log(flat_w) + st.norm.logpdf(x, locs.ravel(), scales.ravel())) for x in xs])
        u.count(("nested", no, ni, hx(locs.ravel()), hx(w_out)), nontrivial=True, tag=f"{no}x{ni}")
        case = {"kind": "nested-mixture", "locs": locs.tolist(), "scales": scales.tolist(), "inner_weights": w_in.tolist(), "outer_weights": w_out.tolist(), "key": np.asarray(key).tolist()}
        if not np.all(np.isfinite(smp)) or d_ks > KS_THRESHOLD:
            # which flat component each draw is nearest to (in units of its scale): observed frequencies next to the law's
            comp = np.argmin(np.abs(smp[:, None] - locs.ravel()[None, :]) / scales.ravel()[None, :], axis=1)
            freq = np.bincount(comp, minlength=no * ni) / len(smp)
            ctx.violation(sig="VmapMixture[VmapMixture].sample:ks", what=f"nested mixture ({no} x {ni} Normals): KS statistic {d_ks:.4f} > {KS_THRESHOLD} against the flat mixture CDF; "
                          f"nearest-component frequencies {np.round(freq, 3).tolist()} vs weights {np.round(flat_w, 3).tolist()}", case=case, found_input=True, unit=u.name,
                          expected=f"D <= {KS_THRESHOLD}", observed=f"D = {d_ks:.4f}", broken="samples follow the density (nested mixtures)")
        if not np.allclose(lp, ref, rtol=1e-9, atol=1e-9):
            j = int(np.argmax(np.abs(lp - ref)))
            ctx.violation(sig="VmapMixture[VmapMixture].log_prob", what=f"nested mixture log_prob({xs[j]!r}) = {lp[j]!r}, scipy mixture density gives {ref[j]!r}", case=dict(case, x=float(xs[j])),
                          found_input=True, unit=u.name, expected=float(ref[j]), observed=float(lp[j]), broken="mixture law (nested)")


def run_sample_shapes(ctx):
    """sample / sample_and_log_prob with sample_shapes of rank 2 and 3: the right shape and, the laws being continuous, pairwise distinct
    draws (independent randomness in every element), and the flattened draws still follow the law (KS).  (Seeded change C05h split the keys
    one axis at a time and repeated one row of draws along the leading axis.)"""
    s = _setup()
    jnp, jr, D = s["jnp"], s["jr"], s["fd"]
    from scipy import stats as st

    u = ctx.unit("O4-sample-shapes", "sample / sample_and_log_prob with sample_shape (50, 40), (7, 6, 5), (1, 300): shape, all draws distinct, KS of the flattened draws (threshold for N = 2000: 0.075)")
    r = ctx.rng
    for name, d, cdf in (("Normal(0.5, 2)", D.Normal(0.5, 2.0), lambda x: st.norm.cdf(x, 0.5, 2.0)), ("Gumbel(-1, 0.7)", D.Gumbel(-1.0, 0.7), lambda x: st.gumbel_r.cdf(x, -1.0, 0.7)),
                         ("StudentT(4, 0, 1.5)", D.StudentT(4.0, 0.0, 1.5), lambda x: st.t.cdf(x, 4.0, 0.0, 1.5))):
        for ss in ((50, 40), (7, 6, 5), (1, 300)):
            key = jr.PRNGKey(int(r.integers(0, 2**31 - 1)))
            for meth in ("sample", "sample_and_log_prob"):
                out = d.sample(key, ss) if meth == "sample" else d.sample_and_log_prob(key, ss)[0]
                out = np.asarray(out, dtype=float)
                u.count((name, ss, meth), nontrivial=True, tag=f"rank{len(ss)}")
                errs = []
                if out.shape != ss:
                    errs.append(f"shape {out.shape} instead of {ss}")
                else:
                    nd = len(np.unique(out))
                    if nd != out.size:
                        errs.append(f"only {nd} distinct values among {out.size} draws (a continuous law: elements share randomness)")
                    dks = ks_stat(out.ravel(), cdf)
                    thr = 0.075 if out.size >= 2000 else 0.2
                    if dks > thr:
                        errs.append(f"KS statistic {dks:.4f} > {thr} against the law's CDF")
                if errs:
                    ctx.violation(sig=f"sample-shape:{meth}:{'distinct' if 'distinct' in errs[0] else 'ks-or-shape'}", what=f"{name}.{meth}(key, {ss}): " + "; ".join(errs),
                                  case={"kind": "sample-shape", "dist": name, "sample_shape": list(ss), "key": np.asarray(key).tolist(), "method": meth}, found_input=True, unit=u.name,
                                  expected=f"{int(np.prod(ss))} independent draws", observed="; ".join(errs)[:200], broken="samples follow the density / independent randomness per element")


# ---------- U5 MultivariateNormal ----------
def run_mvn(ctx):
    s = _setup()
    jnp, jr, fd, unwrap, st = s["jnp"], s["jr"], s["fd"], s["unwrap"], s["st"]
    from harness.common import hexlist
    r = ctx.rng
    u5 = ctx.unit("U5-mvn", "MultivariateNormal(loc, random SPD covariance): log_prob vs Model.Dens.mvn_log_prob fed the object's unwrapped Cholesky factor; "
                            "covariance accessor vs the constructor's matrix and vs the model's L L^T; loc accessor (scalar loc broadcast); _sample vs L z + loc with "
                            "z = jax.random.normal at the same key; d in 1..6; non-trivial = covariance not diagonal (d >= 2)")
    u5o = ctx.unit("O1-mvn", "search oracle: log_prob vs scipy.stats.multivariate_normal.logpdf 1e-9 (condition number <= 1e4); KS of the marginals and of the "
                             "NumPy-Cholesky-whitened coordinates of N samples against the normal CDF")
    nb = 16 if ctx.quick else 48
    for d in ([1, 2, 3, 5] if ctx.quick else [1, 2, 3, 4, 5, 6]):
        for rep in range(2 if ctx.quick else 10):
            Aq, _ = np.linalg.qr(r.normal(size=(d, d)))
            ev = np.exp(r.uniform(-2.0, 2.0, size=d))
            cov = (Aq * ev) @ Aq.T
            cov = (cov + cov.T) / 2
            scalar_loc = rep % 2 == 1
            loc = float(r.normal(0, 3)) if scalar_loc else r.normal(0, 3, size=d)
            dist = fd.MultivariateNormal(jnp.asarray(loc), jnp.asarray(cov))
            ud = unwrap(dist)
            L = np.asarray(ud.bijection.triangular, dtype=np.float64)
            locb = np.broadcast_to(np.asarray(loc, dtype=np.float64), (d,))
            Lnp = np.linalg.cholesky(cov)
            z = r.normal(size=(nb, d))
            z[nb // 2:] *= np.array([1, 10, 1e3, 1e6])[r.integers(0, 4, size=(nb - nb // 2, 1))]
            x = locb + z @ Lnp.T
            lp = np.asarray(dist.log_prob(jnp.asarray(x)), dtype=np.float64)
            key = jr.PRNGKey(int(r.integers(0, 2**31 - 1)))
            zk = np.asarray(jr.normal(key, (d,)), dtype=np.float64)
            reqs = [f"dens.mvn {d} {hx(L)} {hx(np.asarray(ud.bijection.loc))} {hx(x[b])}" for b in range(nb)]
            reqs += [f"dens.mvncov {d} {hx(L)}", f"dens.mvnsample {d} {hx(L)} {hx(np.asarray(ud.bijection.loc))} {hx(zk)}"]
            out = ctx.model(reqs)
            ref = st.multivariate_normal(locb, cov).logpdf(x)
            ref = np.atleast_1d(ref)
            cjp = {"loc": hx(loc), "loc_shape": list(np.shape(loc)), "cov": hx(cov), "d": d}
            for b in range(nb):
                v = float(lp[b])
                u5.count((d, hx(cov), hx(x[b])), nontrivial=d >= 2, tag=f"d={d}")
                u5o.count((d, hx(cov), hx(x[b])), nontrivial=d >= 2, tag=f"d={d}")
                okm = agree(common_fparse(out[b]), v)
                oko = agree(float(ref[b]), v) and v == v
                if not (okm and oko):
                    u5.disagreements += not okm
                    ctx.violation(sig=f"MultivariateNormal.log_prob:{'oracle' if not oko else 'model'}",
                                  what=f"MultivariateNormal(d={d}).log_prob {v!r}: " + (f"scipy multivariate_normal.logpdf {float(ref[b])!r}" if not oko else f"model {out[b]}"),
                                  case={"kind": "mvn", **cjp, "x": hx(x[b])}, found_input=not oko, unit="U5-mvn", expected={"model": out[b], "scipy": float(ref[b])},
                                  observed=v, broken="correspondence U5 / C05_mvn_spec")
            # accessors
            covm = np.array([common_fparse(t) for t in out[nb].split(",")]).reshape(d, d)
            covg = np.asarray(dist.covariance, dtype=np.float64)
            locg = np.asarray(dist.loc, dtype=np.float64)
            u5.count((d, "acc", hx(cov)), nontrivial=d >= 2, tag="accessors")
            nrm = np.max(np.abs(cov))
            bad = []
            if covg.shape != (d, d) or np.max(np.abs(covg - cov)) > 1e-9 * nrm:
                bad.append(f"covariance {covg.tolist()} != constructor's {cov.tolist()}")
            if np.max(np.abs(covg - covm)) > 1e-12 * nrm:
                bad.append("covariance != model L L^T")
            if np.max(np.abs(L - Lnp)) > 1e-9 * np.max(np.abs(Lnp)):
                bad.append("stored triangular factor != numpy.linalg.cholesky(covariance)")
            if locg.shape != (d,) or not np.array_equal(locg, locb):
                bad.append(f"loc {locg.tolist()} != constructor's (broadcast) {locb.tolist()}")
            if tuple(dist.shape) != (d,):
                bad.append(f"shape {dist.shape}")
            # sampler
            got = np.asarray(ud._sample(key), dtype=np.float64)
            exps = np.array([common_fparse(t) for t in out[nb + 1].split(",")])
            u5.count((d, "sample", hx(got)), nontrivial=d >= 2, tag="sampler")
            if got.shape != exps.shape or np.max(np.abs(got - exps)) > 1e-12 * max(1.0, np.max(np.abs(exps))):
                bad.append(f"_sample(key) {got.tolist()} != L z + loc with z = jax.random.normal(key) {exps.tolist()}")
            do_ks = (not ctx.quick) or rep == 0
            dks = 0.0
            if do_ks or bad:
                n = N_KS
                smp = np.asarray(sampler_fn(dist, n)(dist, key), dtype=np.float64)
                wh = np.linalg.solve(Lnp, (smp - locb).T).T
                for i in range(d):
                    dks = max(dks, ks_stat(smp[:, i], st.norm(locb[i], math.sqrt(cov[i, i])).cdf), ks_stat(wh[:, i], st.norm.cdf))
                u5o.count((d, "ks", hx(cov)), nontrivial=d >= 2, tag="ks")
                if dks > KS_THRESHOLD:
                    bad.append(f"KS statistic {dks:.4f} > {KS_THRESHOLD} (marginals / whitened coordinates of {n} samples)")
            if bad:
                u5.disagreements += 1
                ctx.violation(sig=f"MultivariateNormal:{bad[0].split(' ')[0]}", what=f"MultivariateNormal(d={d}): " + "; ".join(bad)[:500],
                              case={"kind": "mvn-acc", **cjp, "key": np.asarray(key).tolist()}, found_input=True, unit="U5-mvn", observed=bad)


def run_large_events(ctx):
    """Independent dimensions in LARGE numbers (a 600-vector, a 28x28 matrix) with ordinary scales whose product leaves the double
    range: the joint log-density is the SUM of the marginals' (seeded change C05c computed log|prod scale|)."""
    r = ctx.rng
    jnp = S["jnp"]
    u = ctx.unit("O1-large-event", "search oracle: log_prob of every family with event shapes (600,) and (28,28), scales in [0.05,0.5] or [5,50], vs the "
                                   "summed scipy reference, 1e-9 rel; non-trivial = the product of the scales under/overflows in float64")
    for fam in FAMS:
        for shape in ((600,), (28, 28)):
            for lo_, hi_ in ((0.05, 0.5), (5.0, 50.0)):
                if fam == "exponential":
                    P = {"rate": r.uniform(lo_, hi_, shape)}
                elif fam == "uniform":
                    mn = r.normal(0, 1, shape)
                    P = {"minval": mn, "maxval": mn + r.uniform(lo_, hi_, shape)}
                else:
                    P = {"loc": r.normal(0, 1, shape), "scale": r.uniform(lo_, hi_, shape)}
                    if fam == "lognormal":
                        P["scale"] = r.uniform(0.05, 0.5, shape) if lo_ < 1 else r.uniform(1.5, 3.0, shape)
                    if fam == "studentt":
                        P["df"] = r.uniform(2.0, 9.0, shape)
                dist = build(fam, P)
                B = bparams(fam, P)
                z = base_draw(fam, B, shape, r)
                if fam == "exponential":
                    x = z / P["rate"]
                elif fam == "uniform":
                    x = P["minval"] + (P["maxval"] - P["minval"]) * z
                elif fam == "lognormal":
                    x = np.exp(P["loc"] + P["scale"] * z)
                else:
                    x = P["loc"] + P["scale"] * z
                v = float(dist.log_prob(jnp.asarray(x)))
                rv = float(reference_logpdf(fam, P, x))
                u.count((fam, shape, lo_, v), nontrivial=True, tag=fam)
                if not (np.isfinite(v) and np.isfinite(rv) and abs(v - rv) <= 1e-9 * max(1.0, abs(rv))):
                    ctx.violation(sig=f"{FAMS[fam][0]}.log_prob:oracle:large-event", what=f"{FAMS[fam][0]} with event shape {shape} and scales in [{lo_},{hi_}]: "
                                  f"log_prob = {v!r} but the sum of the marginal scipy log-densities is {rv!r}",
                                  case=dict(unit="large-event", fam=fam, shape=list(shape), scale_range=[lo_, hi_], seed=int(ctx.seed)), found_input=True,
                                  unit=u.name, expected=rv, observed=v, broken="O1-large-event / C05_joint_is_product")


def run(ctx):
    import time
    _setup()
    for name, fn in (("families", run_families), ("ks", run_ks), ("mixtures", run_mixtures), ("nested-mixtures", run_nested_mixtures), ("sample-shapes", run_sample_shapes), ("mvn", run_mvn), ("large-events", run_large_events)):
        t0 = time.time()
        fn(ctx)
        ctx.notes.append(f"phase {name}: {time.time() - t0:.1f}s")
    ctx.assumptions += [
        "valid parameters: 0 < scale, 0 < df, 0 < rate, minval < maxval, positive weights, SPD covariance (Cholesky diagonal > 0)",
        "jax.random.{normal,uniform,gumbel,cauchy,t,laplace,exponential,logistic,categorical} draw from the named law (assumed in Coq; KS-tested here)",
        "lgamma is an abstract function shared by model and textbook form in the StudentT theorem; in floats the driver's Lanczos lgamma vs XLA's agree to 1e-9 for df <= 1e4",
        "float rounding and overflow are not modelled (exact over R); at |z| > 1e150 classes follow IEEE overflow on both sides",
        "Uniform(…).log_prob(nan) returns -log(maxval-minval) (jax.scipy.stats.uniform compares nan false both ways): finite, not NaN; modelled as is",
    ]


def replay(ctx, rep):
    c = rep["case"]
    s = _setup()
    jnp = s["jnp"]
    kind = c.get("kind")
    if kind == "logp":
        fam, P, x = from_case(c)
        dist = build(fam, P)
        v = float(dist.log_prob(jnp.asarray(x)))
        rv = float(reference_logpdf(fam, P, x[None])[0])
        m = common_fparse(ctx.model([obj_request(fam, obj_params(fam, dist), x)])[0])
        print("log_prob", v, "reference (scipy.stats)", rv, "model(object level)", m)
        fr = bool(fragile(fam, P, x[None])[0])
        return (v == v if fr else not oracle_logp(v, rv, x)) and agree(m, v)
    if kind == "ks":
        fam, P, _ = from_case({**c, "x": {"shape": [], "hex": "0x0p+0"}})
        dist = build(fam, P)
        failed, msg, d = ks_family(fam, P, dist, jnp.asarray(c["key"], dtype=jnp.uint32))
        print("KS", msg)
        return not failed
    if kind == "ctor":
        fam, P, _ = from_case({**c, "x": {"shape": [], "hex": "0x0p+0"}})
        try:
            build(fam, P)
            return True
        except Exception as e:
            print("constructor raised", type(e).__name__, str(e)[:200])
            return False
    if kind == "accessor":
        fam, P, _ = from_case({**c, "x": {"shape": [], "hex": "0x0p+0"}})
        dist = build(fam, P)
        B = bparams(fam, P)
        ok = True
        for a in ACCESSORS[fam]:
            ctor = {"loc": B.get("loc", B.get("minval")), "scale": B.get("scale"), "df": B.get("df"), "minval": B.get("minval"), "maxval": B.get("maxval"), "rate": B.get("rate")}[a]
            if a == "scale" and fam == "uniform":
                ctor = B["maxval"] - B["minval"]
            got = np.asarray(getattr(dist, a))
            print(a, got.tolist(), "constructor", np.asarray(ctor).tolist())
            ok = ok and got.shape == np.shape(ctor) and bool(np.all(np.abs(got - ctor) <= 1e-12 * np.maximum(np.abs(ctor), np.abs(B.get("minval", 0)) + 1e-300)))
        return ok
    if kind == "mixture":
        from harness.common import fparse
        fam = c["family"]
        dec = lambda d: np.array([fparse(t) for t in d["hex"].split(",")], dtype=np.float64).reshape(d["shape"])
        Ps = [{k: dec(v) for k, v in comp.items()} for comp in c["components"]]
        w = np.array([fparse(t) for t in c["weights"].split(",")])
        k = float.fromhex(c["k"])
        x = dec(c["x"])
        names = FAMS[fam][1]
        cls = getattr(s["fd"], FAMS[fam][0])
        comp = s["eqx"].filter_vmap(lambda kw: cls(**kw))({n: jnp.asarray(np.stack([P[n] for P in Ps])) for n in names})
        v1 = float(s["fd"].VmapMixture(comp, jnp.asarray(w)).log_prob(jnp.asarray(x)))
        v2 = float(s["fd"].VmapMixture(comp, jnp.asarray(k * w)).log_prob(jnp.asarray(x)))
        rv = float(mixture_ref(fam, Ps, w, x[None])[0])
        print("mixture log_prob", v1, "with weights rescaled by", k, ":", v2, "reference (weight-normalised scipy mixture)", rv)
        return not oracle_logp(v1, rv, x) and v2 == v2 and agree(v1, v2)
    if kind == "mvn":
        from harness.common import fparse
        d = c["d"]
        cov = np.array([fparse(t) for t in c["cov"].split(",")]).reshape(d, d)
        loc = np.array([fparse(t) for t in c["loc"].split(",")]).reshape(c["loc_shape"])
        x = np.array([fparse(t) for t in c["x"].split(",")])
        v = float(s["fd"].MultivariateNormal(jnp.asarray(loc), jnp.asarray(cov)).log_prob(jnp.asarray(x)))
        rv = float(s["st"].multivariate_normal(np.broadcast_to(loc, (d,)), cov).logpdf(x))
        print("MultivariateNormal.log_prob", v, "scipy", rv)
        return v == v and agree(rv, v)
    print("replay of this case kind re-runs the whole unit: ./check C05", c.get("kind"))
    sub = Sub(ctx)
    {"mixture": run_mixtures, "mixture-ks": run_mixtures, "mixlp": run_mixtures, "mvn": run_mvn, "mvn-acc": run_mvn, "stdnormal": run_families}.get(kind, run_families)(sub)
    return not sub.failed


class Sub:
    """Ctx proxy for replays of unit-level cases: counts violations instead of writing replays."""

    def __init__(self, ctx):
        self._c, self.failed = ctx, 0

    def violation(self, **kw):
        print("  fails:", kw.get("what", "")[:300])
        self.failed += 1

    def __getattr__(self, n):
        return getattr(self._c, n)
