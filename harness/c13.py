"""C13 -- malformed inputs are rejected, never silently broadcast.

Tie: every concrete AbstractBijection subclass of the CURRENT tree (instances over a shape lattice where
constructible) and generated compositions x four methods x every wrong shape of the lattice x {condition right,
missing, wrong}: the implementation raises iff the extracted model (Model/Bij.v `run`) returns Err; on success the
output has the declared shape and the log-det is a scalar.  Plus: each of the four public methods of each concrete class
resolves through the MRO to a function carrying the check wrapper of bijection.py; constructor calls with incompatible
arguments raise iff `sig_of` is Err; distribution methods reject wrong trailing dimensions (oracle only).
Oracle: the statement itself -- a malformed input that is ACCEPTED (a value comes back) is a concrete failing input.
"""

import importlib
import pkgutil

import numpy as np

from harness import bijser as S
from harness import c08, common

PROPERTY = "C13"
GROUPS = ["bij"]
MANIFEST = {
    "design_ref": "DESIGN.md 4.13",
    "technique": "Coq theorems about the checked entry of every node of the bijection-tree model (Model/Bij.v) + exhaustive "
                 "correspondence over a shape lattice with the real flowjax classes and generated compositions",
    "text": "Theorems (closed under the global context; every node kind, every method, any tree): an x not of exactly the declared "
            "shape gives Err BadX, a missing condition Err NoCond, a wrongly shaped condition Err BadCond -- the shape test is strict "
            "equality (a tensor without zero-sized axes has exactly one shape: no broadcasting, no size-1 leniency); a call that "
            "succeeds returns the declared shape and a scalar log-det; a correctly shaped call on a well-constructed tree never "
            "raises; constructors (Chain, Stack, Concatenate, Reshape, Partial, merge_cond_shapes) raise exactly for the documented "
            "incompatibilities (iff-characterisations). Tie on every run: all concrete AbstractBijection subclasses found in the "
            "current tree (private ones included; one instance per lattice shape where constructible) and random compositions x 4 "
            "methods x all wrong lattice shapes x condition {right, missing, wrong}: raises iff model Err, output shapes, "
            "ndim(log_det)==0; each method of each class resolves to a function carrying the _unwrap_check_and_cast wrapper.",
    "note": "Trusted: Coq kernel; extraction; OCaml driver; serialiser (classes without a model leaf are opaque identity leaves: only "
            "shapes and raise-vs-ok are compared for them). That the class-creation hook wrapped every method is NOT a theorem "
            "(host-language metaprogramming): it is checked on the real classes by enumeration. Distribution methods (trailing "
            "dimensions) are covered by the oracle only, not by a model. Zero-sized axes are outside the model.",
}
LATTICE = [(), (1,), (2,), (3,), (1, 2), (2, 1), (2, 3), (3, 2), (1, 2, 3)]
METHODS = c08.METHODS
CS = (2,)  # condition shape of the conditional instances


def all_classes():
    import flowjax
    from flowjax.bijections.bijection import AbstractBijection

    for m in pkgutil.walk_packages(flowjax.__path__, "flowjax."):
        try:
            importlib.import_module(m.name)
        except Exception:  # noqa: BLE001  (optional dependencies, e.g. numpyro)
            pass

    def subs(c):
        for s in c.__subclasses__():
            yield s
            yield from subs(s)

    return sorted(set(subs(AbstractBijection)), key=lambda c: (c.__module__, c.__name__))


def factories():
    """class name (+ variant) -> f(shape) -> instance or None when not constructible for that shape"""
    f = c08.fj()
    fb, jnp, eqx, M = f["fb"], f["jnp"], f["eqx"], f["M"]
    import jax.random as jr
    from flowjax.bijections.block_autoregressive_network import _CallableToBijection
    from flowjax.bijections.planar import _UnconditionalPlanar

    key = jr.PRNGKey(7)
    ar = lambda s, lo=1.0: jnp.asarray(np.arange(int(np.prod(s)), dtype=np.float64).reshape(s) * 0.25 + lo)  # noqa: E731
    vec = lambda s: len(s) == 1  # noqa: E731
    addc = lambda s: fb.AdditiveCondition(M["WSum"](jnp.ones(CS)), s, CS)  # noqa: E731

    def concat(s):
        if not s:
            return None
        n = s[-1]
        parts = [n] if n == 1 else [1, n - 1]
        return fb.Concatenate([fb.Exp(s[:-1] + (p,)) for p in parts], axis=-1)

    F = {
        "Affine": lambda s: fb.Affine(ar(s, 0.0), ar(s)),
        "Loc": lambda s: fb.Loc(ar(s)),
        "Scale": lambda s: fb.Scale(ar(s)),
        "TriangularAffine": lambda s: fb.TriangularAffine(jnp.zeros(s), jnp.eye(s[0]) + jnp.tril(jnp.ones((s[0], s[0])), -1)) if vec(s) else None,
        "AdditiveCondition": addc,
        "Exp": lambda s: fb.Exp(s),
        "SoftPlus": lambda s: fb.SoftPlus(s),
        "Tanh": lambda s: fb.Tanh(s),
        "LeakyTanh": lambda s: fb.LeakyTanh(3.0, s),
        "RationalQuadraticSpline": lambda s: fb.RationalQuadraticSpline(knots=4, interval=3) if s == () else None,
        "Planar": lambda s: fb.Planar(key, dim=s[0], negative_slope=0.1) if vec(s) else None,
        "Planar[cond]": lambda s: fb.Planar(key, dim=s[0], cond_dim=CS[0], negative_slope=0.1, width_size=4, depth=1) if vec(s) else None,
        "_UnconditionalPlanar": lambda s: _UnconditionalPlanar(jnp.ones(s), jnp.zeros(s), jnp.array(0.1), 0.1) if vec(s) else None,
        "Coupling": lambda s: fb.Coupling(key, transformer=fb.Affine(), untransformed_dim=1, dim=s[0], nn_width=4, nn_depth=1)
        if vec(s) and s[0] >= 2 else None,
        "Coupling[cond]": lambda s: fb.Coupling(key, transformer=fb.Affine(), untransformed_dim=1, dim=s[0], cond_dim=CS[0], nn_width=4,
                                                nn_depth=1) if vec(s) and s[0] >= 2 else None,
        "MaskedAutoregressive": lambda s: fb.MaskedAutoregressive(key, transformer=fb.Affine(), dim=s[0], nn_width=4, nn_depth=1)
        if vec(s) else None,
        "MaskedAutoregressive[cond]": lambda s: fb.MaskedAutoregressive(key, transformer=fb.Affine(), dim=s[0], cond_dim=CS[0], nn_width=4,
                                                                        nn_depth=1) if vec(s) else None,
        "BlockAutoregressiveNetwork": lambda s: fb.BlockAutoregressiveNetwork(key, dim=s[0], depth=1, block_dim=2) if vec(s) else None,
        "BlockAutoregressiveNetwork[cond]": lambda s: fb.BlockAutoregressiveNetwork(key, dim=s[0], cond_dim=CS[0], depth=1, block_dim=2)
        if vec(s) else None,
        "Permute": lambda s: fb.Permute(jnp.asarray(np.arange(int(np.prod(s)))[::-1].reshape(s).copy())),
        "Flip": lambda s: fb.Flip(s),
        "Identity": lambda s: fb.Identity(s),
        "Partial": lambda s: fb.Partial(fb.Exp(s[1:]), 0, s) if s else None,
        "Partial[cond]": lambda s: fb.Partial(addc(s[1:]), -1, s) if s else None,
        "Invert": lambda s: fb.Invert(fb.Exp(s)),
        "Invert[cond]": lambda s: fb.Invert(addc(s)),
        "EmbedCondition": lambda s: fb.EmbedCondition(addc(s), M["ETakeNet"](CS[0]), (3,)),
        "Reshape": lambda s: fb.Reshape(fb.Exp((int(np.prod(s)),)), s),
        "Reshape[cond]": lambda s: fb.Reshape(addc((int(np.prod(s)),)), s, (1, 2)),
        "Chain": lambda s: fb.Chain([fb.Exp(s), fb.Loc(ar(s))]),
        "Chain[cond]": lambda s: fb.Chain([fb.Exp(s), addc(s)]),
        "Concatenate": concat,
        "Stack": lambda s: fb.Stack([fb.Exp(s[1:]) for _ in range(s[0])], axis=0) if s else None,
        "Stack[cond]": lambda s: fb.Stack([addc(s[:-1]) for _ in range(s[-1])], axis=-1) if s else None,
        "Scan": lambda s: fb.Scan(eqx.filter_vmap(fb.Loc)(jnp.ones((2, *s)))),
        "Vmap": lambda s: fb.Vmap(fb.Exp(s[1:]), axis_size=s[0]) if s else None,
        "Vmap[cond]": lambda s: fb.Vmap(addc(s[1:]), axis_size=s[0]) if s else None,
        "Vmap[cond-axis]": lambda s: fb.Vmap(addc(s[1:]), axis_size=s[0], in_axes_condition=-1) if s else None,
        "Vmap[mapped]": lambda s: fb.Vmap(eqx.filter_vmap(fb.Loc)(jnp.ones(s)), in_axes=eqx.if_array(0)) if s else None,
        "_CallableToBijection": lambda s: _CallableToBijection(jnp.tanh) if s == () else None,
    }
    return F


NO_VALID_INVERSE = {"BlockAutoregressiveNetwork"}  # numerical inversion: never called on valid inputs (can be slow / not return)


def wrong_cond_shapes(cs):
    return [w for w in [(), (1,), (3,), (1, 2), (2, 1), (2, 2)] if w != tuple(cs)]


def battery(b, full=True, rng=None):
    """[(method, x_shape, cond_shape or None, kind)] for an instance"""
    s = tuple(b.shape)
    cs = None if b.cond_shape is None else tuple(b.cond_shape)
    out = []
    wrongs = [w for w in LATTICE if w != s]
    for i, m in enumerate(METHODS):
        out.append((m, s, cs, "good"))
        ws = wrongs if full else [wrongs[(i + j) % len(wrongs)] for j in range(3)]
        for w in ws:
            out.append((m, w, cs, "wrong-x"))
        if cs is not None:
            out.append((m, s, None, "missing-cond"))
            wcs = wrong_cond_shapes(cs)
            for wc in (wcs if full else wcs[i % len(wcs): i % len(wcs) + 2]):
                out.append((m, s, wc, "wrong-cond"))
            out.append((m, wrongs[i % len(wrongs)], None, "wrong-x+missing-cond"))
    return out


def call(b, m, xs, cs):
    jnp = c08.fj()["jnp"]
    x = jnp.full(xs, 0.5)
    c = None if cs is None else jnp.full(cs, 0.25)
    try:
        out = getattr(b, m)(x, c)
    except NotImplementedError:
        return ("notimpl",)
    except Exception as e:  # noqa: BLE001
        return ("err", f"{type(e).__name__}: {str(e)[:140]}")
    if m.endswith("log_det"):
        return ("ok", tuple(np.shape(out[0])), tuple(np.shape(out[1])))
    return ("ok", tuple(np.shape(out)), None)


def wellformed(b, xs, cs):
    return tuple(xs) == tuple(b.shape) and (b.cond_shape is None or (cs is not None and tuple(cs) == tuple(b.cond_shape)))


def run_battery(ctx, u, name, b, term, cases, spec=None):
    reqs = [f"run {m} {term} {S.s_tensor(np.full(xs, 0.5))} {'none' if cs is None else S.s_tensor(np.full(cs, 0.25))}" for m, xs, cs, _ in cases]
    outs = ctx.model(reqs)
    tkey = "" if spec is None else common.sha(term)
    for (m, xs, cs, kind), line in zip(cases, outs):
        model = S.parse_run(line)
        wf = wellformed(b, xs, cs)
        if wf and m.startswith("inverse") and name.split("[")[0] in NO_VALID_INVERSE:
            continue
        impl = call(b, m, xs, cs)
        u.count(f"{name}|{tkey}|{tuple(b.shape)}|{m}|{xs}|{cs}", nontrivial=not wf, tag=f"{name.split('[')[0]}:{kind}")
        case = dict(cls=name, shape=list(b.shape), cond_shape=None if b.cond_shape is None else list(b.cond_shape), method=m,
                    x_shape=list(xs), c_shape=None if cs is None else list(cs), term=term[:2000])
        if spec is not None:
            case["tree_spec"] = spec
        if impl[0] == "notimpl":
            if wf:
                continue  # the method does not exist for this class; nothing to compare
            impl = ("err", "NotImplementedError")
        errs = []
        if not wf and impl[0] == "ok":
            errs.append(f"{name}{tuple(b.shape)}.{m} ACCEPTED a malformed input: x.shape {xs} (declared {tuple(b.shape)}), condition "
                        f"{'missing' if cs is None else cs} (declared {b.cond_shape}); returned shape {impl[1]}")
        if wf and impl[0] == "ok":
            if impl[1] != tuple(b.shape):
                errs.append(f"{name}.{m} returned shape {impl[1]}, declared {tuple(b.shape)}")
            if impl[2] is not None and impl[2] != ():
                errs.append(f"{name}.{m} returned a log-det of shape {impl[2]}, not a scalar")
        if wf and impl[0] == "err":
            errs.append(f"{name}{tuple(b.shape)}.{m} rejected a correctly shaped input x.shape {xs}, condition {cs}: {impl[1]}")
        agree = (impl[0] == "ok") == (model[0] == "ok")
        if agree and impl[0] == "err" and model[0] == "err":
            k = c08.err_kind(impl[1])
            if k != "other" and model[1] in ("badx", "nocond", "badcond") and k != model[1]:
                agree = False
        if agree and impl[0] == "ok" and model[0] == "ok" and impl[1] != tuple(model[1].shape):
            agree = False
        if len(u.hashes) % 1499 == 1:
            ctx.sample({"class": name, "shape": list(b.shape), "method": m, "x_shape": list(xs), "cond_shape": cs, "impl": impl[:2], "model": line[:60]})
        if errs or not agree:
            if not agree:
                u.disagreements += 1
            ctx.violation(
                sig=f"{name.split('[')[0]}:{m}:{kind}:{'oracle' if errs else 'model-mismatch'}",
                what="; ".join(errs) if errs else f"{name}{tuple(b.shape)}.{m}(x{xs}, c{cs}): implementation {impl[:2]} but model {line[:80]}",
                case=case, found_input=bool(errs), unit=u.name, expected=line[:200], observed=str(impl)[:300],
                broken="correspondence lattice-unit / C13_reject_* / C13_ok_shapes",
                reproducer="cd /verif && ./check C13 --replay <this file>")


def check_wrappers(ctx, u, classes, F):
    """each of the four public methods of each concrete class resolves through the MRO to the check wrapper"""
    import flowjax.bijections.bijection as bj

    wrapper_code = bj._unwrap_check_and_cast(lambda self, x, condition=None: x).__code__
    for cls in classes:
        if getattr(cls, "__abstractmethods__", None):
            continue
        for m in METHODS:
            fn = getattr(cls, m, None)
            ok = fn is not None and hasattr(fn, "__wrapped__") and getattr(fn, "__code__", None) is wrapper_code
            u.count(f"{cls.__module__}.{cls.__name__}.{m}", nontrivial=True, tag="wrapped" if ok else "UNWRAPPED")
            if ok:
                continue
            refactored = fn is not None and hasattr(fn, "__wrapped__")  # wrapped, but not by bijection.py's wrapper code object
            # exercise it: find an instance and a malformed input that is accepted
            found, what = False, f"{cls.__name__}.{m} does not resolve to a function carrying the check wrapper of bijection.py"
            case = dict(cls=cls.__name__, method=m, wrapper_missing=True)
            for name, fac in F.items():
                if name.split("[")[0] != cls.__name__:
                    continue
                for s in LATTICE:
                    try:
                        b = fac(s)
                    except Exception:  # noqa: BLE001
                        b = None
                    if b is None or type(b) is not cls:
                        continue
                    for w in LATTICE:
                        if w != s and call(b, m, w, b.cond_shape)[0] == "ok":
                            found, what = True, what + f"; {name}{s}.{m} accepts x of shape {w}"
                            case.update(shape=list(s), x_shape=list(w), cls=name, c_shape=None if b.cond_shape is None else list(b.cond_shape),
                                        cond_shape=None if b.cond_shape is None else list(b.cond_shape))
                            break
                    if found:
                        break
                if found:
                    break
            if refactored and not found:
                ctx.notes.append(f"{cls.__name__}.{m} carries a wrapper other than _unwrap_check_and_cast's (refactoring?); no malformed input was accepted")
                continue
            ctx.violation(sig=f"wrapper:{cls.__name__}:{m}", what=what, case=case, found_input=found, unit=u.name,
                          expected="method wrapped by _unwrap_check_and_cast", observed=repr(fn)[:120],
                          broken="wrapper-unit (class-creation hook coverage)", reproducer="cd /verif && ./check C13 --replay <this file>")


def dist_unit(ctx, u):
    """distribution methods raise when trailing dimensions do not match (oracle only; no model)"""
    f = c08.fj()
    fb, jnp, M = f["fb"], f["jnp"], f["M"]
    import jax.random as jr
    import flowjax.distributions as fd

    dists = []
    for s in [(), (2,), (3,), (2, 3)]:
        dists.append((f"StandardNormal{s}", fd.StandardNormal(s)))
        dists.append((f"Normal{s}", fd.Normal(jnp.zeros(s), jnp.ones(s))))
        dists.append((f"Transformed-Affine{s}", fd.Transformed(fd.StandardNormal(s), fb.Affine(jnp.ones(s), jnp.full(s, 2.0)))))
        dists.append((f"Transformed-AdditiveCondition{s}", fd.Transformed(fd.StandardNormal(s), fb.AdditiveCondition(M["WSum"](jnp.ones(CS)), s, CS))))
    for name, d in dists:
        s, cs = tuple(d.shape), d.cond_shape
        good_c = None if cs is None else jnp.full(cs, 0.25)
        for xs in LATTICE + [(4, 2), (5,)]:
            trailing_ok = len(xs) >= len(s) and tuple(xs[len(xs) - len(s):]) == s
            for cvar in (["right"] if cs is None else ["right", "missing", (3,), (2, 3), ()]):
                c = good_c if cvar == "right" else (None if cvar == "missing" else jnp.full(cvar, 0.25))
                cond_ok = cs is None or cvar == "right"
                try:
                    out = d.log_prob(jnp.full(xs, 0.5), c)
                    res = ("ok", tuple(out.shape))
                except Exception as e:  # noqa: BLE001
                    res = ("err", f"{type(e).__name__}: {str(e)[:100]}")
                wf = trailing_ok and cond_ok
                u.count(f"{name}|{xs}|{cvar}", nontrivial=not wf, tag=f"{name.split('(')[0]}:{'wellformed' if wf else 'malformed'}")
                bad = None
                if not trailing_ok and res[0] == "ok":
                    bad = f"{name}.log_prob accepted x of shape {xs} although the trailing dimensions are not {s}; returned shape {res[1]}"
                elif trailing_ok and cs is not None and cvar == "missing" and res[0] == "ok":
                    bad = f"{name}.log_prob accepted a missing condition"
                elif wf and res[0] == "err":
                    bad = f"{name}.log_prob rejected a well-formed x of shape {xs}: {res[1]}"
                elif wf and res[1] != tuple(xs[: len(xs) - len(s)]):
                    bad = f"{name}.log_prob returned shape {res[1]} for x of shape {xs}"
                if bad:
                    ctx.violation(sig=f"dist:{name.split('(')[0]}:{'malformed-accepted' if not wf else 'wellformed'}", what=bad,
                                  case=dict(dist=name, x_shape=list(xs), cond=str(cvar)), found_input=True, unit=u.name,
                                  expected="raise" if not wf else "value", observed=str(res), broken="dist-unit (oracle)",
                                  reproducer="cd /verif && ./check C13 --replay <this file>")
        # samples have the declared shape
        try:
            smp = d.sample(jr.PRNGKey(0), (2,), condition=good_c)
            if tuple(smp.shape) != (2, *s):
                ctx.violation(sig=f"dist:{name}:sample-shape", what=f"{name}.sample((2,)) has shape {smp.shape}", case=dict(dist=name),
                              found_input=True, unit=u.name)
        except Exception as e:  # noqa: BLE001
            ctx.notes.append(f"dist sample {name}: {type(e).__name__}")


def transformed_ctor_unit(ctx, u):
    """Transformed(base, bijection): constructing with a conditional base AND a conditional bijection whose cond_shapes differ must raise;
    equal cond_shapes (or one side unconditional) must construct and declare that cond_shape.  Oracle only (seeded change C13c)."""
    f = c08.fj()
    fb, jnp, M = f["fb"], f["jnp"], f["M"]
    import flowjax.distributions as fd

    def cond_base(cs, s=(2,)):  # a library-made conditional distribution: StandardNormal pushed through an AdditiveCondition
        return fd.Transformed(fd.StandardNormal(s), fb.AdditiveCondition(M["WSum"](jnp.ones(cs)), s, cs))

    def cond_bij(cs, s=(2,)):
        return fb.AdditiveCondition(M["WSum"](jnp.ones(cs)), s, cs)

    shapes = [None, (), (1,), (2,), (3,), (2, 3)]
    for cb in shapes:
        for cj in shapes:
            base = fd.StandardNormal((2,)) if cb is None else cond_base(cb)
            bij = fb.Affine(jnp.ones(2), jnp.full(2, 2.0)) if cj is None else cond_bij(cj)
            ok_expected = cb is None or cj is None or cb == cj
            u.count(f"transformed-ctor|{cb}|{cj}", nontrivial=not ok_expected, tag="transformed-ctor")
            try:
                d = fd.Transformed(base, bij)
                res = ("ok", d.cond_shape)
            except Exception as e:  # noqa: BLE001
                res = ("err", f"{type(e).__name__}: {str(e)[:80]}")
            bad = None
            if not ok_expected and res[0] == "ok":
                bad = f"Transformed(base with cond_shape {cb}, bijection with cond_shape {cj}) was constructed (declares cond_shape {res[1]}) although the condition shapes differ"
            elif ok_expected and res[0] == "err":
                bad = f"Transformed(base with cond_shape {cb}, bijection with cond_shape {cj}) raised {res[1]}"
            elif ok_expected and res[1] != (cb if cb is not None else cj):
                bad = f"Transformed(base cond_shape {cb}, bijection cond_shape {cj}) declares cond_shape {res[1]}"
            if bad:
                ctx.violation(sig=f"dist:Transformed-ctor:{'accepted' if not ok_expected else 'rejected'}", what=bad, case=dict(unit="transformed-ctor", base_cond=str(cb), bij_cond=str(cj)),
                              found_input=True, unit=u.name, expected="raise" if not ok_expected else "construct", observed=str(res), broken="dist-unit (oracle): Transformed constructor")


def documented_ctor_rejections_unit(ctx, u):
    """Constructor incompatibilities the docstrings name beyond Chain/Concatenate/Stack/Partial/Reshape (the lines no other unit reached,
    found with a line-coverage pass over all 18 checks): a transformer / activation bijection that is not an unconditional scalar one,
    a non-square TriangularAffine matrix, contradictory or missing Vmap axis arguments, in_axes containing unwrappables or matching no
    leaf.  Each call must raise; the neighbouring VALID call must construct.  Oracle only."""
    f = c08.fj()
    fb, jnp = f["fb"], f["jnp"]
    import jax.random as jr
    import flowjax.wrappers as fw

    k = jr.PRNGKey(0)
    aff0 = lambda: fb.Affine(0.0, 1.0)  # noqa: E731  shape ()
    aff2 = lambda: fb.Affine(jnp.zeros(2), jnp.ones(2))  # noqa: E731  shape (2,)
    condb = lambda: fb.AdditiveCondition(lambda c: c.sum(), (), (2,))  # noqa: E731  conditional, shape ()
    cases = [
        ("Coupling(transformer of shape (2,))", lambda: fb.Coupling(k, transformer=aff2(), untransformed_dim=1, dim=3, nn_width=4, nn_depth=1), False),
        ("Coupling(conditional transformer)", lambda: fb.Coupling(k, transformer=condb(), untransformed_dim=1, dim=3, nn_width=4, nn_depth=1), False),
        ("Coupling(scalar unconditional transformer)", lambda: fb.Coupling(k, transformer=aff0(), untransformed_dim=1, dim=3, nn_width=4, nn_depth=1), True),
        ("MaskedAutoregressive(transformer of shape (2,))", lambda: fb.MaskedAutoregressive(k, transformer=aff2(), dim=3, nn_width=4, nn_depth=1), False),
        ("MaskedAutoregressive(conditional transformer)", lambda: fb.MaskedAutoregressive(k, transformer=condb(), dim=3, nn_width=4, nn_depth=1), False),
        ("MaskedAutoregressive(scalar unconditional transformer)", lambda: fb.MaskedAutoregressive(k, transformer=aff0(), dim=3, nn_width=4, nn_depth=1), True),
        ("BlockAutoregressiveNetwork(activation bijection of shape (2,))", lambda: fb.BlockAutoregressiveNetwork(k, dim=2, depth=1, block_dim=2, activation=aff2()), False),
        ("BlockAutoregressiveNetwork(conditional activation bijection)", lambda: fb.BlockAutoregressiveNetwork(k, dim=2, depth=1, block_dim=2, activation=condb()), False),
        ("BlockAutoregressiveNetwork(scalar activation bijection)", lambda: fb.BlockAutoregressiveNetwork(k, dim=2, depth=1, block_dim=2, activation=fb.LeakyTanh(3.0)), True),
        ("TriangularAffine(arr of shape (2,3))", lambda: fb.TriangularAffine(jnp.zeros(2), jnp.ones((2, 3))), False),
        ("TriangularAffine(arr of shape (3,))", lambda: fb.TriangularAffine(jnp.zeros(3), jnp.ones(3)), False),
        ("TriangularAffine(arr of shape (2,2,2))", lambda: fb.TriangularAffine(jnp.zeros(2), jnp.ones((2, 2, 2))), False),
        ("TriangularAffine(arr of shape (2,2))", lambda: fb.TriangularAffine(jnp.zeros(2), jnp.eye(2) + 1.0), True),
        ("Vmap(in_axes and axis_size both given)", lambda: fb.Vmap(aff0(), in_axes=None, axis_size=3) if False else fb.Vmap(aff0(), in_axes=0, axis_size=3), False),
        ("Vmap(neither in_axes nor axis_size)", lambda: fb.Vmap(aff0()), False),
        ("Vmap(axis_size=3)", lambda: fb.Vmap(aff0(), axis_size=3), True),
        ("Vmap(in_axes matching no array leaf)", lambda: fb.Vmap(fb.Exp(()), in_axes=0), False),
        ("Vmap(in_axes containing an unwrappable)", lambda: fb.Vmap(aff0(), in_axes=fw.NonTrainable(0)), False),
        ("Vmap(in_axes of an unsupported type)", lambda: fb.Vmap(aff0(), in_axes="0"), False),
        # children given as whole wrapped bijections (Chain documents AbstractUnwrappable entries): the shape / condition-shape checks apply
        # to what they unwrap to (seeded change C13g skipped entries without a .shape attribute)
        ("Chain([shape (3,), NonTrainable(shape (2,))])", lambda: fb.Chain([fb.Affine(jnp.zeros(3), jnp.ones(3)), fw.NonTrainable(aff2())]), False),
        ("Chain([NonTrainable(shape ()), shape (3,)])", lambda: fb.Chain([fw.NonTrainable(aff0()), fb.Affine(jnp.zeros(3), jnp.ones(3))]), False),
        ("Chain([shape (3,), NonTrainable(shape (1, 3))])", lambda: fb.Chain([fb.Affine(jnp.zeros(3), jnp.ones(3)), fw.NonTrainable(fb.Affine(jnp.zeros((1, 3)), jnp.ones((1, 3))))]), False),
        ("Chain([shape (2,), NonTrainable(shape (2,))])", lambda: fb.Chain([aff2(), fw.NonTrainable(aff2())]), True),
        ("Chain([cond (2,), NonTrainable(cond (3,))])", lambda: fb.Chain([fb.AdditiveCondition(lambda c: c.sum(), (), (2,)), fw.NonTrainable(fb.AdditiveCondition(lambda c: c.sum(), (), (3,)))]), False),
    ]
    for name, mk, ok_expected in cases:
        u.count(f"doc-ctor|{name}", nontrivial=not ok_expected, tag="documented-ctor-rejections")
        try:
            b = mk()
            res = ("ok", f"shape {tuple(b.shape)}")
        except Exception as e:  # noqa: BLE001
            res = ("err", f"{type(e).__name__}: {str(e)[:80]}")
        bad = None
        if not ok_expected and res[0] == "ok":
            bad = f"{name} was constructed ({res[1]}) although the constructor documents this argument combination as unsupported"
        elif ok_expected and res[0] == "err":
            bad = f"{name} (valid) raised {res[1]}"
        if bad:
            ctx.violation(sig=f"ctor-doc:{name.split('(')[0]}:{'accepted' if not ok_expected else 'rejected'}", what=bad, case=dict(unit="documented-ctor-rejections", call=name),
                          found_input=True, unit=u.name, expected="raise" if not ok_expected else "construct", observed=str(res), broken="ctor-unit (oracle): documented constructor incompatibilities")


def run(ctx):
    import warnings

    warnings.filterwarnings("ignore")  # equinox warns about BNAF's WeightNormalization under filter_vmap (DESIGN 1.6)
    c08.fj()
    rng = ctx.rng
    classes = all_classes()
    F = factories()
    uw = ctx.unit("wrapper-unit", "every concrete AbstractBijection subclass in the current tree x 4 methods resolves through the MRO to a "
                                  "function carrying the _unwrap_check_and_cast wrapper")
    ul = ctx.unit("lattice-unit", "every class (one instance per lattice shape where constructible) x 4 methods x every wrong lattice shape x "
                                  "condition {right, missing, wrong}: raises iff model Err; output shape; scalar log-det; non-trivial = malformed input")
    uc = ctx.unit("composition-unit", "random combinator trees (depth 1-2, shapes from the lattice) x 4 methods x wrong shapes x condition variants")
    uk = ctx.unit("ctor-unit", "constructor calls with incompatible arguments over valid children: raises iff the model's sig_of is Err")
    ud = ctx.unit("dist-unit", "distribution log_prob with wrong trailing dimensions / missing / wrong condition raises (oracle only)")
    check_wrappers(ctx, uw, classes, F)
    concrete = {c.__name__ for c in classes if not getattr(c, "__abstractmethods__", None)}
    covered = {n.split("[")[0] for n in F}
    for n in sorted(concrete - covered):
        ctx.notes.append(f"no instance factory for class {n}: only its wrappers were checked")
    seen_cls = set()
    for name, fac in F.items():
        for s in LATTICE:
            try:
                b = fac(s)
            except Exception as e:  # noqa: BLE001
                ctx.notes.append(f"factory {name}{s}: {type(e).__name__} {str(e)[:60]}")
                continue
            if b is None:
                continue
            seen_cls.add(type(b).__name__)
            if tuple(b.shape) != tuple(s):
                ctx.violation(sig=f"factory-shape:{name}", what=f"{name} built for shape {s} declares shape {tuple(b.shape)}",
                              case=dict(cls=name, shape=list(s)), found_input=True, unit=ul.name)
                continue
            if tuple(s) != ():
                # python scalars / 0-d values are inputs of shape (): a bijection of another shape must reject them in every form
                # (python float, python int, NumPy scalar, 0-d NumPy / jax array) -- seeded change C13e broadcast python scalars
                import jax.numpy as _jnp

                c_ok = None if b.cond_shape is None else _jnp.full(tuple(b.cond_shape), 0.25)
                for form, val in (("python float", 0.5), ("python int", 1), ("numpy scalar", np.float64(0.5)), ("0-d numpy array", np.asarray(0.5)), ("0-d jax array", _jnp.asarray(0.5))):
                    for m in METHODS:
                        ul.count(f"{name}|{s}|{m}|{form}", nontrivial=True, tag="scalar-forms")
                        try:
                            out = getattr(b, m)(val, c_ok)
                        except NotImplementedError:
                            continue
                        except Exception:  # noqa: BLE001  rejected: fine
                            continue
                        shp = tuple(np.shape(out[0] if isinstance(out, tuple) else out))
                        ctx.violation(sig=f"lattice:{name.split('[')[0]}:{m}:scalar-accepted", what=f"{name}{s}.{m} ACCEPTED a {form} ({val!r}, shape ()) although its shape is {s}; returned shape {shp}",
                                      case=dict(cls=name, shape=list(s), method=m, form=form), found_input=True, unit=ul.name, expected="raise", observed=f"value of shape {shp}",
                                      broken="lattice-unit: strict shape check for scalar inputs / C13_reject_bad_x")
            try:
                term = S.ser(b, opaque_unknown=True)
            except S.Unsupported as e:
                ctx.notes.append(f"serialiser: {name}: {e}")
                continue
            full = ctx.quick is False or len(s) <= 1 or name.split("[")[0] in ("Stack", "Vmap", "Concatenate", "Partial", "Reshape", "Chain")
            run_battery(ctx, ul, name, b, term, battery(b, full=full or True))
    for n in sorted(concrete - seen_cls):
        ctx.notes.append(f"class {n} was never instantiated on the lattice")
    # ---- generated compositions
    G = c08.Gen(rng)
    n_comp = 50 if ctx.quick else 3000
    for i in range(n_comp):
        s = list(LATTICE[int(rng.integers(0, len(LATTICE)))])
        cs = None if rng.random() < 0.4 else [[2], [3], [2, 3], [1, 2]][int(rng.integers(0, 4))]
        spec = G.tree(s, cs, 1 + i % 2)
        try:
            b = c08.build(spec)
            term = S.ser(b)
        except Exception as e:  # noqa: BLE001
            ctx.notes.append(f"composition generator: {type(e).__name__} {str(e)[:60]}")
            continue
        cases = battery(b, full=not ctx.quick)
        run_battery(ctx, uc, f"tree:{spec[0]}", b, term, cases, spec=spec)
    # ---- constructors
    for spec, tag in c08.directed_ctor_specs(G, ctx.quick):
        c08.check_tree(ctx, uk, spec, rng, tag, with_oracle=True)
    for i in range(80 if ctx.quick else 3000):
        c08.check_tree(ctx, uk, G.bad_ctor(), rng, "ctor", with_oracle=True)
    dist_unit(ctx, ud)
    transformed_ctor_unit(ctx, ud)
    documented_ctor_rejections_unit(ctx, uk)
    ctx.assumptions += [
        "all axis sizes >= 1 (zero-sized axes are outside the model)",
        "classes without a model leaf (Exp, Tanh, splines, Planar, Coupling, MAF, BNAF, ...) are serialised as opaque identity leaves: "
        "only shapes and raise-vs-ok are compared for them",
        "valid-input calls of BlockAutoregressiveNetwork.inverse* (numerical inversion) are not made",
        "a NotImplementedError on a well-formed call (no analytic inverse) is not a rejection",
    ]


def replay(ctx, rep):
    c08.fj()
    c = rep["case"]
    if c.get("unit") in ("documented-ctor-rejections", "transformed-ctor"):   # oracle-only constructor units: re-run and look for the signature
        n0 = len(ctx.violations)
        (documented_ctor_rejections_unit if c["unit"] == "documented-ctor-rejections" else transformed_ctor_unit)(ctx, ctx.unit("ctor-unit", ""))
        hits = [v for v in ctx.violations[n0:] if v["sig"] == rep.get("sig") and (c.get("call") is None or v["what"].startswith(c["call"]))]
        for v in hits:
            print("still failing:", v["what"][:300])
        return not hits
    if "spec" in c:  # constructor-unit cases share C08's format
        return c08.replay(ctx, rep)
    if "cls" in c and "shape" in c and "x_shape" not in c and c["cls"] in factories():
        b = factories()[c["cls"]](tuple(c["shape"]))
        print("declared shape", tuple(b.shape), "requested", tuple(c["shape"]))
        return tuple(b.shape) == tuple(c["shape"])
    if "dist" in c or "cls" not in c or "x_shape" not in c:
        print("replay: re-run ./check C13 (enumeration cases are regenerated from the current tree)", c)
        return False
    name = c["cls"]
    F = factories()
    if "tree_spec" in c:
        b = c08.build(c["tree_spec"])
    elif name in F:
        b = F[name](tuple(c["shape"]))
    else:
        print("replay: unknown class", name)
        return False
    xs, cs = tuple(c["x_shape"]), None if c["c_shape"] is None else tuple(c["c_shape"])
    impl = call(b, c["method"], xs, cs)
    wf = wellformed(b, xs, cs)
    print("implementation", impl, "well-formed input" if wf else "malformed input")
    if not wf:
        return impl[0] != "ok"
    return impl[0] == "notimpl" or (impl[0] == "ok" and impl[1] == tuple(b.shape) and impl[2] in (None, ()))
