"""Runs leaf-bijection methods in JAX's DEFAULT float32 mode (no jax_enable_x64) in a separate process: reads JSON lines
{"spec":..., "method":..., "x":[hex...]} on stdin, prints one JSON line per request {"y":[...], "ld": float|null} or {"err": "..."}."""
import json
import os
import sys

sys.path.insert(0, os.environ.get("VERIF_REPO", "/repo"))
sys.path.insert(1, os.path.dirname(os.path.dirname(os.path.abspath(__file__))))
import jax

assert not jax.config.jax_enable_x64
import numpy as np

from harness import leaves as lv
from harness.common import fparse

cache = {}
for line in sys.stdin:
    line = line.strip()
    if not line:
        continue
    r = json.loads(line)
    key = json.dumps(r["spec"], sort_keys=True)
    try:
        if key not in cache:
            cache[key] = lv.make_obj(r["spec"])
        obj = cache[key]
        x = np.array([fparse(v) for v in r["x"]], dtype=np.float32).reshape(tuple(r["spec"].get("shape", ())))
        res = lv.run_impl(obj, r["method"], x)
        if res[0] == "ERR":
            print(json.dumps({"err": res[1]}))
        else:
            print(json.dumps({"y": [float(v) for v in res[0]], "ld": None if res[1] is None else float(res[1])}))
    except Exception as e:  # noqa: BLE001
        print(json.dumps({"err": f"{type(e).__name__}: {str(e)[:100]}"}))
    sys.stdout.flush()
