"""Shared by C01 / C02 / C07: leaf-bijection cases (real flowjax objects rebuilt from a JSON spec), the
implementation runner, the requests for the extracted model (ocaml/bin/leaves <- coq/Model/Leaves.v),
boundary-directed inputs and comparators."""

import math

import numpy as np

from harness.common import fhex, fparse, hexlist

METHODS = ("fwd", "inv", "fwdld", "invld")
_lib = {}


def lib():
    if _lib:
        return _lib
    import equinox as eqx
    import jax
    import jax.numpy as jnp
    import jax.random as jr
    from flowjax import bijections as B
    from flowjax.wrappers import unwrap

    _lib.update(eqx=eqx, jax=jax, jnp=jnp, jr=jr, B=B, unwrap=unwrap)
    return _lib


# ------------------------------------------------------------------ objects from specs
def make_obj(spec):
    """Rebuild the real flowjax object from a self-contained JSON-able spec (parameters as hex floats)."""
    L = lib()
    B, jnp, eqx = L["B"], L["jnp"], L["eqx"]
    k = spec["kind"]
    shape = tuple(spec.get("shape", ()))
    arr = lambda name: jnp.asarray(np.array([fparse(v) for v in spec[name]], dtype=float).reshape(spec.get(name + "_shape", shape)))
    if k == "affine":
        o = B.Affine(arr("loc"), jnp.ones(shape))
        return eqx.tree_at(lambda a: a.scale, o, arr("scale"))  # plain array: negative scales allowed
    if k == "loc":
        return B.Loc(arr("loc"))
    if k == "scale":
        o = B.Scale(jnp.ones(shape))
        return eqx.tree_at(lambda a: a.scale, o, arr("scale"))
    if k == "exp":
        return B.Exp(shape)
    if k == "softplus":
        return B.SoftPlus(shape)
    if k == "tanh":
        return B.Tanh(shape)
    if k == "leaky":
        return B.LeakyTanh(fparse(spec["max_val"]), shape)
    if k == "rqs":
        iv = spec["interval"]
        iv = tuple(fparse(v) for v in iv) if isinstance(iv, list) else fparse(iv)
        o = B.RationalQuadraticSpline(knots=spec["knots"], interval=iv, min_derivative=fparse(spec["min_derivative"]),
                                      softmax_adjust=fparse(spec["softmax_adjust"]))
        params, static = eqx.partition(o, eqx.is_inexact_array)
        leaves, treedef = L["jax"].tree_util.tree_flatten(params)
        raws = [arr1(spec["x_raw"]), arr1(spec["y_raw"]), arr1(spec["d_raw"])]
        assert len(leaves) == 3 and [l.shape for l in leaves] == [r.shape for r in raws], [l.shape for l in leaves]
        # leaf order = field order: x_pos, y_pos, derivatives
        return eqx.combine(L["jax"].tree_util.tree_unflatten(treedef, [jnp.asarray(r) for r in raws]), static)
    if k == "tri":
        d = spec["dim"]
        a = np.array([fparse(v) for v in spec["arr"]], dtype=float).reshape(d, d)
        return B.TriangularAffine(arr1(spec["loc"]), jnp.asarray(a), lower=spec["lower"])
    if k == "planar":
        d = spec["dim"]
        ns = None if spec["negative_slope"] is None else fparse(spec["negative_slope"])
        o = B.Planar(L["jr"].PRNGKey(0), dim=d, negative_slope=ns)
        return eqx.tree_at(lambda p: p.params, o, jnp.asarray(arr1(spec["params"])))
    raise ValueError(k)


def arr1(hexes):
    return np.array([fparse(v) for v in hexes], dtype=float)


def model_params(spec, obj):
    """Tokens (after kind and method) of the model request = the UNWRAPPED parameters of the real object."""
    L = lib()
    u = L["unwrap"](obj)
    k = spec["kind"]
    f = lambda a: hexlist(np.asarray(a, dtype=float).ravel())
    if k == "affine":
        return [f(u.loc), f(u.scale)]
    if k == "loc":
        return [f(u.loc)]
    if k == "scale":
        return [f(u.scale)]
    if k in ("exp", "softplus", "tanh"):
        return []
    if k == "leaky":
        return [fhex(u.max_val), fhex(u.linear_grad), fhex(u.intercept)]
    if k == "rqs":
        return [f(u.x_pos), f(u.y_pos), f(u.derivatives), fhex(u.interval[0]), fhex(u.interval[1])]
    if k == "tri":
        return [str(int(bool(u.lower))), f(u.triangular), f(u.loc)]
    if k == "planar":
        d = spec["dim"]
        p = np.asarray(u.params, dtype=float)
        ns = "none" if u.negative_slope is None else fhex(u.negative_slope)
        return [ns, hexlist(p[:d]), hexlist(p[d:2 * d]), fhex(p[-1])]
    raise ValueError(k)


def request(spec, obj, method, x, params=None):
    params = model_params(spec, obj) if params is None else params
    return " ".join([spec["kind"], method, *params, hexlist(np.asarray(x, dtype=float).ravel())])


def run_impl(obj, method, x):
    """Returns (flat list of floats, log_det or None) or ('ERR', exception name)."""
    L = lib()
    x = L["jnp"].asarray(x)
    try:
        if method == "fwd":
            return list(np.asarray(obj.transform(x), dtype=float).ravel()), None
        if method == "inv":
            return list(np.asarray(obj.inverse(x), dtype=float).ravel()), None
        if method == "fwdld":
            y, ld = obj.transform_and_log_det(x)
        else:
            y, ld = obj.inverse_and_log_det(x)
        if np.ndim(ld) != 0:
            return "ERR", f"log_det has shape {np.shape(ld)}"
        return list(np.asarray(y, dtype=float).ravel()), float(ld)
    except NotImplementedError:
        return "ERR", "notimplemented"


def parse_model(line):
    if line.startswith("ERR"):
        return "ERR", line[4:]
    ys, ld = line.split(" ")
    return ([] if ys == "-" else [fparse(v) for v in ys.split(",")]), (None if ld == "-" else fparse(ld))


def close(a, b, rel=1e-9):
    if a is None or b is None:
        return a is None and b is None
    if math.isnan(a) or math.isnan(b):
        return math.isnan(a) and math.isnan(b)
    if math.isinf(a) or math.isinf(b):
        return a == b
    return abs(a - b) <= rel * max(1.0, abs(a), abs(b))


def same(res_a, res_b, rel=1e-9):
    if res_a[0] == "ERR" or res_b[0] == "ERR":
        return res_a[0] == res_b[0]
    (ya, la), (yb, lb) = res_a, res_b
    return len(ya) == len(yb) and all(close(p, q, rel) for p, q in zip(ya, yb)) and close(la, lb, rel)


# ------------------------------------------------------------------ generators
SHAPES = [(), (3,), (2, 2)]


def _h(a):
    return [fhex(v) for v in np.asarray(a, dtype=float).ravel()]


def gen_specs(rng, quick=True):
    """Leaf specs with parameters away from initialisation (negative scales, perturbed raw parameters) + the
    initial ones."""
    specs = []
    for shape in SHAPES:
        n = int(np.prod(shape)) if shape else 1
        for rep in range(2):
            loc = rng.normal(0, 2, n)
            sc = np.exp(rng.normal(0, 1.2, n)) * rng.choice([-1.0, 1.0], n)
            specs.append(dict(kind="affine", shape=list(shape), loc=_h(loc), scale=_h(sc)))
            specs.append(dict(kind="scale", shape=list(shape), scale=_h(np.exp(rng.normal(0, 1.5, n)) * rng.choice([-1.0, 1.0], n))))
        specs.append(dict(kind="affine", shape=list(shape), loc=_h(np.arange(n) - 1.0), scale=_h(2.0 ** rng.integers(-3, 4, n))))
        specs.append(dict(kind="loc", shape=list(shape), loc=_h(rng.normal(0, 3, n))))
        for k in ("exp", "softplus", "tanh"):
            specs.append(dict(kind=k, shape=list(shape)))
        for m in ([3.0, 0.5] if shape == () else [float(np.round(rng.uniform(0.3, 4), 3))]):
            specs.append(dict(kind="leaky", shape=list(shape), max_val=fhex(m)))
    specs.append(dict(kind="leaky", shape=[], max_val=fhex(1.0)))
    specs.append(dict(kind="leaky", shape=[], max_val=fhex(8.0)))
    # splines: scalar and tuple intervals, 1..8 knots, initial and perturbed raw parameters
    ivs = [4.0, 1.0, (-2.0, 3.0), (-1.0, 0.5), 2.5]
    for i in range(10 if quick else 40):
        K = int(rng.integers(1, 9))
        iv = ivs[i % len(ivs)]
        md = [1e-3, 1e-2, 0.3][i % 3]
        sa = [1e-2, 0.0, 1.0][(i // 2) % 3]
        init = np.log(np.exp(1 - md) - 1)
        if i < 2:
            xr, yr, dr = np.zeros(K), np.zeros(K), np.full(K + 2, init)
        else:
            s = [0.7, 1.5, 3.0][i % 3]
            xr, yr, dr = rng.normal(0, s, K), rng.normal(0, s, K), init + rng.normal(0, s, K + 2)
        specs.append(dict(kind="rqs", shape=[], knots=K, interval=[fhex(iv[0]), fhex(iv[1])] if isinstance(iv, tuple) else fhex(iv),
                          min_derivative=fhex(md), softmax_adjust=fhex(sa), x_raw=_h(xr), y_raw=_h(yr), d_raw=_h(dr)))
    # many knots with sharply peaked bin parameters (|raw| up to 12, inside the property's |raw| <= 50 box): bins whose slope is 1e-8 .. 1e8
    for K in ((32,) if quick else (32, 64, 48)):
        md, init = 1e-3, np.log(np.exp(1 - 1e-3) - 1)
        xr, yr = rng.choice([-12.0, 0.0, 12.0], K, p=[0.15, 0.7, 0.15]) + rng.normal(0, 0.3, K), rng.choice([-12.0, 0.0, 12.0], K, p=[0.15, 0.7, 0.15]) + rng.normal(0, 0.3, K)
        specs.append(dict(kind="rqs", shape=[], knots=K, interval=fhex(4.0), min_derivative=fhex(md), softmax_adjust=fhex(1e-2), x_raw=_h(xr), y_raw=_h(yr),
                          d_raw=_h(init + rng.normal(0, 0.5, K + 2))))
    for d in (1, 2, 4):
        for lower in (True, False):
            a = rng.normal(0, 1.5, (d, d))
            a[np.diag_indices(d)] = np.exp(rng.normal(0, 1, d))
            specs.append(dict(kind="tri", shape=[d], dim=d, lower=lower, arr=_h(a), loc=_h(rng.normal(0, 2, d))))
    for d in (1, 2, 3):
        for ns in (None, 0.1, 1.0, 2.0, 4.5):
            p = rng.normal(0, 1.2, 2 * d + 1)
            specs.append(dict(kind="planar", shape=[d], dim=d, negative_slope=None if ns is None else fhex(ns), params=_h(p)))
    return specs


def nbrs(v):
    return [np.nextafter(v, -np.inf), v, np.nextafter(v, np.inf)]


def critical_points(spec, obj, direction):
    """Every constant the formulas compare their input against (for the given direction), with float neighbours."""
    L = lib()
    k = spec["kind"]
    pts = []
    if k == "leaky":
        m = fparse(spec["max_val"])
        base = [m, -m] if direction == "fwd" else [math.tanh(m), -math.tanh(m), 1.0, -1.0]
        for b in base:
            pts += nbrs(b)
    elif k == "rqs":
        u = L["unwrap"](obj)
        pos = np.asarray(u.x_pos if direction == "fwd" else u.y_pos, dtype=float)
        for b in pos:
            pts += nbrs(float(b))
        pts += [float(pos[0]) - 1.0, float(pos[-1]) + 2.5, 0.5 * (pos[0] + pos[1]), 0.5 * (pos[-2] + pos[-1])]
        # the middle of every bin (of the widest ones when there are many): the slope inside a bin is not bounded by the knot derivatives
        # (flat / steep bins of trained splines: seeded change C02f clamped small derivatives)
        w = np.diff(pos)
        for j in np.argsort(-w)[:12]:
            pts += [float(pos[j] + 0.5 * w[j]), float(pos[j] + 0.25 * w[j])]
    elif k == "tanh" and direction == "inv":
        pts += nbrs(1.0) + nbrs(-1.0)
    elif k in ("exp", "softplus") and direction == "inv":
        pts += [2.5e-308, 1e-300, 1e-12, 0.0, -1.0]  # no subnormals: XLA CPU treats them as zero (DAZ), a float artefact outside the model
    elif k == "planar":
        pass
    return pts


def inputs_for(spec, obj, direction, rng, n_random=6):
    """Arrays of the bijection's shape: critical points (each placed in one slot of an otherwise random array),
    0, +-1, large magnitudes, random interior points."""
    shape = tuple(spec.get("shape", ()))
    n = int(np.prod(shape)) if shape else 1
    k = spec["kind"]
    scalars = critical_points(spec, obj, direction) + [0.0, -0.0, 1.0, -1.0, 1e4, -1e4, 37.0, -37.0, 1e-8]
    # the range where float32-minded shortcuts of the transcendental leaves (softplus(x) ~ x, tanh(x) ~ 1, exp(-x) ~ 0) are still wrong
    # in float64: 15 .. 37 (seeded change C01g cut SoftPlus.inverse off at 20), both signs, seed-rotated
    scalars += [float(s * v) for v, s in zip(rng.uniform(15.0, 37.0, 3), rng.choice([-1.0, 1.0], 3))] + [20.125, 16.5]
    if direction == "inv" and k in ("exp", "softplus"):
        scalars += list(np.exp(rng.normal(0, 3, 4)))
    if direction == "inv" and k in ("tanh",):
        scalars += list(np.tanh(rng.normal(0, 2, 4)))
    scalars += list(rng.normal(0, 2.5, n_random))
    out = []
    for i, s in enumerate(scalars):
        if direction == "inv" and k in ("exp", "softplus"):
            base = np.exp(rng.normal(0, 1, n))
        elif direction == "inv" and k == "tanh":
            base = np.tanh(rng.normal(0, 1, n))
        else:
            base = rng.normal(0, 1.5, n)
        base[i % n] = s
        out.append(base.reshape(shape))
    return out
