"""C14 -- methods are pure and transparent to jit, vmap and serialisation (PARTIAL: see MANIFEST text).

Proof side (Props/C14.v): the pytree algebra -- flatten/unflatten and serialise/deserialise round trips, no array in a
static position of a well-formed module, vmap over a stacked batch = the Python loop.
Tie / oracle (this file): a set of real bijections, distributions and flows (parameters perturbed away from their
initial values), every method, inputs in PAIRS, executed in the modes
    eager (twice: purity)   eqx.filter_jit (one compiled function for both inputs)   jax.vmap over the stacked pair
    after jax.tree_util.tree_flatten / tree_unflatten      after eqx.tree_serialise_leaves -> tree_deserialise_leaves
    into a freshly constructed object with different parameter values
each compared with the eager result: bit for bit for purity / flatten / serialise (the same eager computation) and for
data-movement-only bijections, 1e-12 otherwise (XLA may fuse differently under jit / vmap).  Any exception raised in a
mode whose eager call succeeded (tracer errors in particular) is a failing input.  The two outputs of a pair must
differ (a memoised / baked-in result shows up on the second input).  Real modules are checked for well-formedness (no
array in a static field; every array reachable through the fields is a pytree leaf) and their serialisation round
trip is compared with the extracted model's (Tree.deserialise_num / serialise_num, Tree.unflatten_num).
"""

from __future__ import annotations

import dataclasses
import io

import numpy as np

from harness import treeser as ts

PROPERTY = "C14"
GROUPS = ["tree"]
MANIFEST = {
    "design_ref": "DESIGN.md 4.14",
    "technique": "Coq proofs about the pytree algebra (Model/Tree.v) + executed multi-mode correspondence (eager / filter_jit / vmap / "
                 "flatten-unflatten / serialise-deserialise) on real bijections, distributions and flows",
    "text": "PARTIAL. Proved (closed under the global context, all trees of any depth): tree_unflatten(treedef, leaves) rebuilds the flattened "
            "pytree exactly; deserialising the serialised leaves into ANY object of the same structure (same nodes and statics, arrays of the "
            "same kind/shape, arbitrary values) returns the original, with nothing left over; a well-formed module has no array in a static "
            "position; vmap over a stacked batch is the stack of the per-element results. NOT provable in a model (a Gallina function is pure "
            "and has no tracer): that the Python methods trace (no Python branch on a traced value, no NumPy call on a tracer), that jit bakes "
            "in no stale constant, that there is no hidden state. These clauses -- jit == eager, vmap == loop, repeated calls agree, behaviour "
            "after flatten/unflatten and after leaf serialisation into a fresh object -- are decided by correspondence only: every run "
            "executes ~45 real bijections/distributions/flows x all methods in five modes on input PAIRS and compares with the eager result "
            "(bit-for-bit for purity/flatten/serialise, 1e-12 for jit/vmap); a tracer exception in any mode is a failing input.",
    "note": "Trusted: Coq kernel; extraction; OCaml driver drv_tree.ml; harness (case list, comparators, treeser.py). jit/vmap transparency is "
            "sampled, not proved; the eager result is the reference (its correctness is the subject of C01-C08, not of C14). Closures of "
            "user callables are not inspected for hidden arrays. Numerical inversion (BNAF inverse) is exercised on the forward path only.",
}

_S = {}
RTOL = 1e-12


def _setup():
    if _S:
        return _S
    import warnings

    warnings.filterwarnings("ignore")
    import equinox as eqx
    import jax
    import jax.numpy as jnp
    import jax.random as jr
    import jax.tree_util as jtu
    from flowjax import wrappers

    _S.update(dict(eqx=eqx, jax=jax, jnp=jnp, jr=jr, jtu=jtu, wrappers=wrappers))
    return _S


def perturb(obj, seed, scale=0.3):
    s = _setup()
    eqx, jtu, jnp, w = s["eqx"], s["jtu"], s["jnp"], s["wrappers"]
    r = np.random.default_rng(seed)
    params, static = eqx.partition(obj, eqx.is_inexact_array, is_leaf=lambda l: isinstance(l, w.NonTrainable))
    leaves, td = jtu.tree_flatten(params)
    leaves = [l + scale * jnp.asarray(r.standard_normal(l.shape), dtype=l.dtype) for l in leaves]
    return eqx.combine(jtu.tree_unflatten(td, leaves), static)


def case_table():
    """name -> (constructor(key) , kind, cond_shape, flags).  Constructors must build the same STRUCTURE for every key."""
    s = _setup()
    jnp, jr, eqx, w = s["jnp"], s["jr"], s["eqx"], s["wrappers"]
    from flowjax import bijections as B
    from flowjax import distributions as D
    from flowjax import flows as F

    def lin(c):
        return c[:2] * 2.0

    T = {}
    bij = lambda name, f, cs=None, **fl: T.__setitem__(name, (f, "bij", cs, fl))
    dist = lambda name, f, cs=None, **fl: T.__setitem__(name, (f, "dist", cs, fl))
    bij("Affine", lambda k: B.Affine(jnp.array([0.5, -1.0, 2.0]), jnp.array([0.5, 2.0, 1.0])))
    bij("Loc", lambda k: B.Loc(jnp.array([0.5, -1.0, 2.0])))
    bij("Scale", lambda k: B.Scale(jnp.array([0.5, 2.0, 1.0])))
    bij("TriangularAffine", lambda k: B.TriangularAffine(jnp.arange(3.0), jnp.array([[1.0, 5, 5], [2, 1.5, 5], [-1, 0.3, 0.7]])))
    bij("Exp", lambda k: B.Exp((3,)), noperturb=True)
    bij("SoftPlus", lambda k: B.SoftPlus((3,)), noperturb=True)
    bij("Tanh", lambda k: B.Tanh((3,)), noperturb=True, unit=True)
    bij("LeakyTanh", lambda k: B.LeakyTanh(1.5, (3,)), noperturb=True)
    bij("RationalQuadraticSpline", lambda k: B.RationalQuadraticSpline(knots=5, interval=2), scalar=True)
    bij("Planar", lambda k: B.Planar(k, dim=3, negative_slope=0.1))
    bij("PlanarCond", lambda k: B.Planar(k, dim=3, cond_dim=2, negative_slope=0.3, width_size=4, depth=1), (2,))
    bij("Permute", lambda k: B.Permute(jnp.array([2, 0, 1])), exact=True)
    bij("Flip", lambda k: B.Flip((3,)), exact=True)
    bij("Identity", lambda k: B.Identity((3,)), exact=True)
    bij("Coupling", lambda k: B.Coupling(k, transformer=B.Affine(), untransformed_dim=1, dim=3, nn_width=5, nn_depth=1))
    bij("CouplingCondSpline", lambda k: B.Coupling(k, transformer=B.RationalQuadraticSpline(knots=3, interval=2), untransformed_dim=1, dim=3,
                                                 cond_dim=2, nn_width=5, nn_depth=1), (2,), slow=True)
    bij("MaskedAutoregressive", lambda k: B.MaskedAutoregressive(k, transformer=B.Affine(), dim=3, nn_width=5, nn_depth=2))
    bij("MaskedAutoregressiveCondSpline", lambda k: B.MaskedAutoregressive(k, transformer=B.RationalQuadraticSpline(knots=3, interval=2), dim=3,
                                                                         cond_dim=2, nn_width=6, nn_depth=1), (2,), slow=True)
    bij("BlockAutoregressiveNetwork", lambda k: B.BlockAutoregressiveNetwork(k, dim=3, depth=1, block_dim=3), forward_only=True)
    bij("Chain", lambda k: B.Chain([B.Affine(jnp.ones(3), jnp.array([0.5, 2.0, 1.5])), B.Tanh((3,)), B.Affine(jnp.zeros(3), jnp.full(3, 2.0))]))
    bij("Concatenate", lambda k: B.Concatenate([B.Affine(jnp.ones(1)), B.Exp((2,))]))
    bij("Stack", lambda k: B.Stack([B.Affine(jnp.asarray(1.0)), B.Exp(), B.SoftPlus()]))
    bij("Vmap", lambda k: B.Vmap(B.RationalQuadraticSpline(knots=3, interval=2), axis_size=3))
    # rarely used keywords of the combinators (seeded change C14d: numpy ints in a non-static shape field break jit)
    bij("VmapCondAxis1", lambda k: B.Vmap(B.MaskedAutoregressive(k, transformer=B.Affine(), dim=2, cond_dim=2, nn_width=4, nn_depth=1), axis_size=3,
                                          in_axes_condition=1), (2, 3))
    bij("VmapCondAxis0", lambda k: B.Vmap(B.AdditiveCondition(lin, (2,), (2,)), axis_size=3, in_axes_condition=0), (3, 2))
    bij("VmapCondBroadcast", lambda k: B.Vmap(B.AdditiveCondition(lin, (2,), (2,)), axis_size=3), (2,))
    bij("Scan", lambda k: B.Scan(eqx.filter_vmap(B.Affine)(jnp.array([[1.0, 0.5, -0.5], [0.25, 0.0, 1.0]]))))
    bij("Invert", lambda k: B.Invert(B.Affine(jnp.ones(3), jnp.array([0.5, 2.0, 1.5]))))
    bij("Partial", lambda k: B.Partial(B.Exp((2,)), jnp.array([0, 2]), (3,)), noperturb=True)
    bij("Reshape", lambda k: B.Reshape(B.Affine(jnp.ones(3), jnp.array([0.5, 2.0, 1.5])), (3,)))
    bij("EmbedCondition", lambda k: B.EmbedCondition(B.Planar(k, dim=3, cond_dim=2, negative_slope=0.3, width_size=4, depth=1), lin, (4,)), (4,))
    bij("AdditiveCondition", lambda k: B.AdditiveCondition(lambda c: c.sum(), (3,), (2,)), (2,), noperturb=True)
    bij("Chain+frozen-subtree", lambda k: B.Chain([w.NonTrainable(B.Affine(jnp.ones(3), jnp.array([0.5, 2.0, 1.5]))), B.Exp((3,))]))
    bij("Affine+non_trainable", lambda k: w.non_trainable(B.Affine(jnp.array([0.5, -1.0, 2.0]), jnp.array([0.5, 2.0, 1.0]))), noperturb=True)
    dist("Normal", lambda k: D.Normal(jnp.array([0.5, -0.25, 0.0]), jnp.array([1.5, 0.75, 1.0])))
    dist("StudentT", lambda k: D.StudentT(jnp.array([3.0, 4.0, 5.0]), jnp.array([0.5, -0.25, 0.0]), jnp.array([1.5, 0.75, 1.0])))
    dist("Uniform", lambda k: D.Uniform(jnp.full(3, -4.0), jnp.full(3, 4.0)), noperturb=True, const_lp=True)
    dist("Gumbel", lambda k: D.Gumbel(jnp.array([0.5, -0.25, 0.0]), jnp.array([1.5, 0.75, 1.0])))
    dist("Cauchy", lambda k: D.Cauchy(jnp.array([0.5, -0.25, 0.0]), jnp.array([1.5, 0.75, 1.0])))
    dist("Laplace", lambda k: D.Laplace(jnp.array([0.5, -0.25, 0.0]), jnp.array([1.5, 0.75, 1.0])))
    dist("Logistic", lambda k: D.Logistic(jnp.array([0.5, -0.25, 0.0]), jnp.array([1.5, 0.75, 1.0])))
    dist("Exponential", lambda k: D.Exponential(jnp.array([0.5, 1.25, 2.0])), positive=True)
    dist("LogNormal", lambda k: D.LogNormal(jnp.array([0.5, -0.25, 0.0]), jnp.array([0.5, 0.75, 1.0])), positive=True)
    dist("MultivariateNormal", lambda k: D.MultivariateNormal(jnp.array([0.5, -0.25, 0.0]), jnp.array([[2.0, 0.3, 0.1], [0.3, 1.0, 0.2], [0.1, 0.2, 1.5]])))
    dist("VmapMixture", lambda k: D.VmapMixture(eqx.filter_vmap(D.Normal)(jnp.array([[0.5, -0.25, 0.0], [1.0, 1.0, -1.0]])), jnp.array([0.3, 0.7])))
    dist("Transformed", lambda k: D.Transformed(D.StudentT(jnp.array([3.0, 4.0, 5.0])), B.Chain([B.Affine(jnp.ones(3), jnp.array([0.5, 2.0, 1.5])), B.Tanh((3,))])), unit=True)
    dist("Normal+frozen-subtree", lambda k: eqx.tree_at(lambda d: d.bijection, D.Normal(jnp.array([0.5, -0.25, 0.0]), jnp.array([1.5, 0.75, 1.0])),
                                                         replace_fn=w.NonTrainable))
    base = lambda: D.Normal(jnp.zeros(3))
    dist("masked_autoregressive_flow", lambda k: F.masked_autoregressive_flow(k, base_dist=base(), flow_layers=2, nn_width=4, nn_depth=1))
    dist("coupling_flow-cond", lambda k: F.coupling_flow(k, base_dist=base(), cond_dim=2, flow_layers=2, nn_width=4, nn_depth=1), (2,))
    dist("planar_flow", lambda k: F.planar_flow(k, base_dist=base(), flow_layers=2, invert=False))
    dist("triangular_spline_flow", lambda k: F.triangular_spline_flow(k, base_dist=base(), flow_layers=1, knots=3), logprob_only=False, slow=True)
    dist("block_neural_autoregressive_flow", lambda k: F.block_neural_autoregressive_flow(k, base_dist=base(), nn_depth=1, nn_block_dim=2, flow_layers=1),
         logprob_only=True, slow=True)
    return T


def methods_of(kind, flags):
    if kind == "bij":
        ms = ["transform", "transform_and_log_det"]
        if not flags.get("forward_only"):
            ms += ["inverse", "inverse_and_log_det"]
        return ms
    if flags.get("logprob_only"):
        return ["log_prob"]
    ms = ["log_prob", "sample"]
    if not flags.get("nosample_lp"):
        ms.append("sample_and_log_prob")
    return ms


def make_inputs(name, kind, cs, flags, obj, seed):
    """Two different inputs (x or key, condition)."""
    s = _setup()
    jnp, jr = s["jnp"], s["jr"]
    r = np.random.default_rng(seed)
    shape = obj.shape
    out = []
    for j in range(2):
        x = r.standard_normal(shape) * 0.8
        if flags.get("positive"):
            x = np.abs(x) + 0.1
        if flags.get("unit01"):
            x = 1 / (1 + np.exp(-x))
        if flags.get("unit"):
            x = np.tanh(x)
        c = None if cs is None else jnp.asarray(r.standard_normal(cs))
        out.append((jnp.asarray(x), jr.PRNGKey(int(r.integers(0, 10**6))), c))
    return out


def call(obj, m, x, key, c):
    if m == "sample":
        return obj.sample(key, condition=c) if c is not None else obj.sample(key)
    if m == "sample_and_log_prob":
        return obj.sample_and_log_prob(key, condition=c) if c is not None else obj.sample_and_log_prob(key)
    if m == "log_prob":
        return obj.log_prob(x, c) if c is not None else obj.log_prob(x)
    if "inverse" in m and m.startswith("inverse"):
        # feed the inverse methods a point of the image where that is cheap; otherwise any point of the right shape
        pass
    return getattr(obj, m)(x, c) if c is not None else getattr(obj, m)(x)


def flat(v):
    s = _setup()
    return [np.asarray(l) for l in s["jtu"].tree_leaves(v)]


def cmp(a, b, rtol):
    """None if equal (bit for bit when rtol == 0), else a description."""
    fa, fb = flat(a), flat(b)
    if len(fa) != len(fb):
        return f"{len(fa)} vs {len(fb)} outputs"
    for i, (u, v) in enumerate(zip(fa, fb)):
        if u.shape != v.shape:
            return f"output {i}: shape {u.shape} vs {v.shape}"
        if u.dtype != v.dtype:
            return f"output {i}: dtype {u.dtype} vs {v.dtype}"
        if rtol == 0:
            if u.tobytes() != v.tobytes() and not np.array_equal(u, v, equal_nan=True):
                j = int(np.argmax((u != v).ravel()))
                return f"output {i}[{j}]: {u.ravel()[j]!r} vs {v.ravel()[j]!r} (not bit-identical)"
        else:
            with np.errstate(invalid="ignore"):
                ok = np.isclose(u, v, rtol=rtol, atol=rtol, equal_nan=True) | (u == v)
            if not np.all(ok):
                j = int(np.argmax(~ok.ravel()))
                return f"output {i}[{j}]: {u.ravel()[j]!r} vs {v.ravel()[j]!r} (rel. tolerance {rtol})"
    return None


TRACER_ERRORS = ("TracerBoolConversionError", "TracerArrayConversionError", "TracerIntegerConversionError", "ConcretizationTypeError",
                 "UnexpectedTracerError", "NonConcreteBooleanIndexError")


def run_case(name, entry, seed, modes=("eager", "jit", "vmap", "flatten", "serialise")):
    """-> list of (mode, method, error string); and info dict."""
    s = _setup()
    eqx, jax, jnp, jr, jtu = s["eqx"], s["jax"], s["jnp"], s["jr"], s["jtu"]
    ctor, kind, cs, flags = entry
    obj = ctor(jr.PRNGKey(seed % 1000))
    like = ctor(jr.PRNGKey(seed % 1000 + 1))
    if not flags.get("noperturb"):
        obj = perturb(obj, seed)
        like = perturb(like, seed + 1, 0.5)
    inputs = make_inputs(name, kind, cs, flags, obj, seed)
    errs, n_eval = [], 0
    exact = bool(flags.get("exact"))
    # flatten / unflatten and serialise / deserialise once per object
    try:
        leaves, td = jtu.tree_flatten(obj)
        obj_flat = jtu.tree_unflatten(td, [l if not isinstance(l, jax.Array) else jnp.array(np.asarray(l), dtype=l.dtype) for l in leaves])
    except Exception as e:
        errs.append(("flatten", "-", f"tree_flatten/unflatten raises {type(e).__name__}: {str(e)[:100]}"))
        obj_flat = None
    try:
        buf = io.BytesIO()
        eqx.tree_serialise_leaves(buf, obj)
        buf.seek(0)
        obj_ser = eqx.tree_deserialise_leaves(buf, like)
    except Exception as e:
        errs.append(("serialise", "-", f"tree_serialise_leaves/tree_deserialise_leaves raises {type(e).__name__}: {str(e)[:100]}"))
        obj_ser = None
    try:  # NumPy-leaf copy of the model (writable arrays).  VmapMixture is left out: its vmapped component construction is only
        # mapped over jax arrays (eqx.filter_vmap's default), so with NumPy leaves sampling raises a shape error on the unchanged tree too
        # (loud, not silent; recorded as an observation in DESIGN section 2)
        obj_np = None if name == "VmapMixture" else jtu.tree_map(lambda l: np.array(l, copy=True) if isinstance(l, jax.Array) else l, obj)
    except Exception:  # noqa: BLE001
        obj_np = None
    for m in methods_of(kind, flags):
        f = lambda o, x, key, c, _m=m: call(o, _m, x, key, c)
        (x1, k1, c1), (x2, k2, c2) = inputs
        try:
            e1, e2 = f(obj, x1, k1, c1), f(obj, x2, k2, c2)
            if m.startswith("inverse") and not flags.get("forward_only"):
                pass
        except NotImplementedError:
            continue
        except Exception as e:
            errs.append(("eager", m, f"raises {type(e).__name__}: {str(e)[:100]}"))
            continue
        n_eval += 1
        if "eager" in modes:
            try:
                d = cmp(f(obj, x1, k1, c1), e1, 0.0)
                if d:
                    errs.append(("eager", m, f"a repeated call with the same arguments differs: {d}"))
                main1, main2 = flat(e1)[0], flat(e2)[0]
                if (main1.tobytes() == main2.tobytes() and main1.size and np.all(np.isfinite(main1))
                        and not (flags.get("const_lp") and m == "log_prob")):
                    errs.append(("eager", m, f"two different inputs give the identical result {main1.ravel()[:3]} (stale / memoised value?)"))
            except Exception as e:
                errs.append(("eager", m, f"repeated call raises {type(e).__name__}: {str(e)[:100]}"))
        if "eager" in modes and obj_np is not None:
            # the same model with NumPy array leaves (restored from an npz / pickle checkpoint, tree_map(np.asarray, model)): the
            # methods are pure there too -- same values, repeated calls agree, the leaves are not written to (seeded change C14e)
            try:
                before = [np.array(l, copy=True) for l in jtu.tree_leaves(obj_np) if isinstance(l, np.ndarray)]
                n1 = f(obj_np, x1, k1, c1)
                n2 = f(obj_np, x1, k1, c1)
                after = [l for l in jtu.tree_leaves(obj_np) if isinstance(l, np.ndarray)]
                d = cmp(n1, e1, 0.0 if exact else RTOL) or cmp(n2, n1, 0.0)
                if d:
                    errs.append(("numpy-leaves", m, f"with NumPy array leaves the method differs from the jax-leaf result / between two identical calls: {d}"))
                elif any(a.tobytes() != b.tobytes() for a, b in zip(before, after)):
                    errs.append(("numpy-leaves", m, "the call modified the model's own (NumPy) parameter arrays in place"))
            except Exception as e:  # noqa: BLE001
                errs.append(("numpy-leaves", m, f"raises {type(e).__name__} with NumPy array leaves: {str(e)[:100]}"))
        if "jit" in modes:
            try:
                jf = eqx.filter_jit(f)
                j1, j2 = jf(obj, x1, k1, c1), jf(obj, x2, k2, c2)
                for tag, j, e in (("first", j1, e1), ("second", j2, e2)):
                    d = cmp(j, e, 0.0 if exact else RTOL)
                    if d:
                        errs.append(("jit", m, f"eqx.filter_jit(method) != eager on the {tag} input of the pair: {d}"))
                        break
            except Exception as e:
                errs.append(("jit", m, f"raises {type(e).__name__} under eqx.filter_jit: {str(e)[:100]}"))
        if "vmap" in modes:
            try:
                xs, ks = jnp.stack([x1, x2]), jnp.stack([k1, k2])
                if c1 is not None:
                    v = jax.vmap(lambda x, k, c: f(obj, x, k, c))(xs, ks, jnp.stack([c1, c2]))
                else:
                    v = jax.vmap(lambda x, k: f(obj, x, k, None))(xs, ks)
                for i, e in enumerate((e1, e2)):
                    d = cmp(jtu.tree_map(lambda a: a[i], v), e, 0.0 if exact else RTOL)
                    if d:
                        errs.append(("vmap", m, f"jax.vmap(method) over the stacked pair != Python loop at element {i}: {d}"))
                        break
            except Exception as e:
                errs.append(("vmap", m, f"raises {type(e).__name__} under jax.vmap: {str(e)[:100]}"))
        for mode, o in (("flatten", obj_flat), ("serialise", obj_ser)):
            if mode in modes and o is not None:
                try:
                    d = cmp(f(o, x2, k2, c2), e2, 0.0)
                    if d:
                        errs.append((mode, m, f"behaviour after {mode} round trip differs: {d}"))
                except Exception as e:
                    errs.append((mode, m, f"raises {type(e).__name__} after {mode} round trip: {str(e)[:100]}"))
    return errs, dict(obj=obj, like=like, obj_ser=obj_ser, obj_flat=obj_flat, n_eval=n_eval)


# ---------------- well-formedness of real modules ----------------
def _is_arr(x):
    s = _setup()
    return isinstance(x, (s["jax"].Array, np.ndarray))


def wf_walk(obj, path="", out=None, seen_leaves=None):
    """-> (static_arrays: [path], dynamic_arrays: [(path, array)]) by walking dataclass fields (not the pytree machinery)."""
    s = _setup()
    eqx, jtu = s["eqx"], s["jtu"]
    if out is None:
        out = ([], [])
    if isinstance(obj, eqx.Module):
        for f in dataclasses.fields(obj):
            try:
                v = getattr(obj, f.name)
            except AttributeError:
                continue
            if f.metadata.get("static", False):
                for l in jtu.tree_leaves(v):
                    if _is_arr(l):
                        out[0].append(f"{path}.{f.name}")
            else:
                wf_walk(v, f"{path}.{f.name}", out)
    elif isinstance(obj, (tuple, list)):
        for i, v in enumerate(obj):
            wf_walk(v, f"{path}[{i}]", out)
    elif isinstance(obj, dict):
        for k, v in obj.items():
            wf_walk(v, f"{path}[{k!r}]", out)
    elif _is_arr(obj):
        out[1].append((path, obj))
    return out


def ser_wf(obj):
    """Term for the model's wf_module: module nodes get their static fields as Static leaves ('ARRAY:<name>' when one holds
    an array)."""
    s = _setup()
    eqx, jtu = s["eqx"], s["jtu"]
    if isinstance(obj, eqx.Module):
        ch = []
        for f in dataclasses.fields(obj):
            try:
                v = getattr(obj, f.name)
            except AttributeError:
                continue
            if f.metadata.get("static", False):
                has = any(_is_arr(l) for l in jtu.tree_leaves(v))
                ch.append(f"( S {'ARRAY:' if has else 'static:'}{ts._san(f.name)} )")
            else:
                ch.append(ser_wf(v))
        return f"( T {ts._san(type(obj).__name__)} " + "".join(c + " " for c in ch) + ")"
    if isinstance(obj, (tuple, list)):
        return "( T seq " + "".join(ser_wf(v) + " " for v in obj) + ")"
    if isinstance(obj, dict):
        return "( T dict " + "".join(ser_wf(obj[k]) + " " for k in sorted(obj, key=str)) + ")"
    if obj is None:
        return "N"
    if _is_arr(obj):
        return "( A F - - )"
    return "( S leaf )"


def check_wf(obj):
    s = _setup()
    jtu = s["jtu"]
    static_arrays, dyn = wf_walk(obj)
    errs = [f"array stored in the static field {p}" for p in static_arrays]
    leaf_ids = set(id(l) for l in jtu.tree_leaves(obj))
    for p, a in dyn:
        if id(a) not in leaf_ids:
            errs.append(f"array field {p} is not a pytree leaf")
    return errs


def numpy_typed_args_unit(ctx):
    """Objects built with NumPy-typed values of the documented argument types (np.float64 is a python float; boolean index arrays are
    documented for Partial): every method under eqx.filter_jit must return what the eager call returns.  NumPy scalars / boolean masks
    stored as pytree leaves become tracers under jit (defects D12-D14: TracerBoolConversionError / NonConcreteBooleanIndexError)."""
    s = _setup()
    jnp, jr, eqx, jax = s["jnp"], s["jr"], s["eqx"], s["jax"]
    import warnings

    from flowjax import bijections as B
    from flowjax import distributions as D
    from flowjax import flows as F
    from flowjax.bisection_search import AutoregressiveBisectionInverter

    warnings.filterwarnings("ignore")
    u = ctx.unit("numpy-typed-arguments", "objects constructed with np.float64 / np.int64 scalars and boolean index arrays where the documentation allows a "
                                          "float / int / bool array: each method eagerly and under eqx.filter_jit (same values, no tracer error)")
    k = jr.PRNGKey(int(ctx.rng.integers(0, 2**31 - 1)))
    x3 = jnp.asarray(ctx.rng.normal(0, 1.5, 3))
    x2 = jnp.asarray(ctx.rng.normal(0, 0.3, 2))
    BM = ("transform", "inverse", "transform_and_log_det", "inverse_and_log_det")
    mask_j = jnp.array([True, False, True])
    mask_n = np.array([False, True, True])
    mask_2d = jnp.array([[True, False, True], [False, False, True]])
    cases = [
        ("Planar(negative_slope=np.float64(0.3))", lambda: B.Planar(k, dim=3, negative_slope=np.float64(0.3)), BM, x3),
        ("LeakyTanh(np.float64(1.5))", lambda: B.LeakyTanh(np.float64(1.5), (3,)), BM, x3),
        ("Partial(jax bool mask)", lambda: B.Partial(B.Affine(jnp.ones(2), jnp.full(2, 2.0)), mask_j, (3,)), BM, x3),
        ("Partial(numpy bool mask)", lambda: B.Partial(B.Affine(jnp.ones(2), jnp.full(2, 2.0)), mask_n, (3,)), BM, x3),
        ("Partial(2-d bool mask)", lambda: B.Partial(B.Exp((3,)), mask_2d, (2, 3)), BM, jnp.asarray(ctx.rng.normal(0, 1, (2, 3)))),
        ("BlockAutoregressiveNetwork(inverter tol=np.float64(1e-8))", lambda: B.BlockAutoregressiveNetwork(
            k, dim=2, depth=1, block_dim=2, inverter=AutoregressiveBisectionInverter(tol=np.float64(1e-8))), BM, x2),
        ("BlockAutoregressiveNetwork(inverter max_iter=np.int64(150))", lambda: B.BlockAutoregressiveNetwork(
            k, dim=2, depth=1, block_dim=2, inverter=AutoregressiveBisectionInverter(max_iter=np.int64(150))), BM, x2),
        ("planar_flow(negative_slope=np.float64(0.5))", lambda: F.planar_flow(k, base_dist=D.StandardNormal((3,)), flow_layers=2, negative_slope=np.float64(0.5)), ("log_prob",), x3),
        ("triangular_spline_flow(tanh_max_val=np.float64(3.0))", lambda: F.triangular_spline_flow(
            k, base_dist=D.StandardNormal((3,)), flow_layers=1, knots=3, tanh_max_val=np.float64(3.0)), ("log_prob",), x3),
        ("block_neural_autoregressive_flow(inverter tol=np.float64)", lambda: F.block_neural_autoregressive_flow(
            k, base_dist=D.StandardNormal((2,)), flow_layers=1, nn_block_dim=2, invert=True, inverter=AutoregressiveBisectionInverter(tol=np.float64(1e-8))), ("sample",), None),
    ]
    for name, mk, methods, x in cases:
        try:
            obj = mk()
        except Exception as e:  # noqa: BLE001
            ctx.violation(sig=f"numpy-args:{name.split('(')[0]}:construct", what=f"{name} could not be constructed: {type(e).__name__}: {str(e)[:120]}", case={"kind": "numpy-args", "name": name},
                          found_input=True, unit=u.name, broken="numpy-typed-arguments (oracle)")
            continue
        tol = 1e-6 if "inverter" in name else 1e-9  # numerical inversion: the search tolerance, not rounding, bounds the difference
        for m in methods:
            u.count((name, m), nontrivial=True, tag=name.split("(")[0])
            call_ = (lambda o, a, m=m: getattr(o, m)(k)) if m == "sample" else (lambda o, a, m=m: getattr(o, m)(a))
            arg = jnp.zeros(()) if x is None else x
            try:
                eager = call_(obj, arg)
            except NotImplementedError:
                continue
            except Exception as e:  # noqa: BLE001
                eager = e
            try:
                jitted = eqx.filter_jit(call_)(obj, arg)
            except Exception as e:  # noqa: BLE001
                jitted = e
            err = None
            if isinstance(eager, Exception) and not isinstance(jitted, Exception):
                err = f"eager call raised {type(eager).__name__} but the jitted call returned"
            elif isinstance(eager, Exception):
                err = f"raises {type(eager).__name__} eagerly and {type(jitted).__name__} under jit although the argument is of the documented type"
            elif isinstance(jitted, Exception):
                err = f"under eqx.filter_jit raised {type(jitted).__name__}: {str(jitted)[:100]!r}; the eager call returned {[a.ravel()[:3].tolist() for a in flat(eager)[:2]]}"
            elif cmp(eager, jitted, tol):
                err = f"jit result differs from eager: {cmp(eager, jitted, tol)}"
            if err:
                ctx.violation(sig=f"numpy-args:{name.split('(')[0]}.{m}", what=f"{name}.{m}: {err}", case={"kind": "numpy-args", "name": name, "method": m},
                              found_input=True, unit=u.name, expected="same result as the eager call (no tracer error)", observed=err,
                              broken="mode transparency (jit) for NumPy-typed documented arguments")
        jax.clear_caches()


def numpy_layout_unit(ctx):
    """The same VALUES given as NumPy arrays in another memory layout (Fortran order, a transposed view, a strided or reversed view) are the
    same arguments: eager, jitted and jax-array calls must agree.  (Seeded change C14f converted non-C-contiguous NumPy inputs in memory
    order on the eager path only.)"""
    s = _setup()
    jnp, jr, eqx = s["jnp"], s["jr"], s["eqx"]
    from flowjax import bijections as B
    from flowjax import distributions as D
    from flowjax import flows as F

    u = ctx.unit("numpy-layouts", "log_prob / transform / sample with NumPy inputs in C order, Fortran order, as transposed / strided / reversed views: "
                                  "eager result == result for the jax array of the same values == eqx.filter_jit result")
    r = ctx.rng
    k = jr.PRNGKey(int(r.integers(0, 2**31 - 1)))
    flow = F.coupling_flow(k, base_dist=D.StandardNormal((3,)), cond_dim=2, flow_layers=1, nn_width=4)
    aff = B.Affine(jnp.asarray(r.normal(0, 1, (4, 3))), jnp.asarray(np.exp(r.normal(0, 0.5, (4, 3)))))
    X = r.normal(0, 1, (4, 3))
    C = r.normal(0, 1, (4, 2))

    def layouts(a):
        big = np.zeros((a.shape[0] * 2, a.shape[1] * 2))
        big[::2, ::2] = a
        rev = np.ascontiguousarray(a[::-1, ::-1])
        return {"C order": np.ascontiguousarray(a), "Fortran order": np.asfortranarray(a), "transposed view": np.ascontiguousarray(a.T).T,
                "strided view": big[::2, ::2], "reversed view": rev[::-1, ::-1]}

    calls = [("Normal((3,)).log_prob(x batch (4,))", lambda x, c: D.Normal(jnp.arange(3.0), jnp.asarray([1.0, 2.0, 0.5])).log_prob(x)),
             ("coupling_flow.log_prob(x batch (4,), condition batch (4,))", lambda x, c: flow.log_prob(x, c)),
             ("coupling_flow.sample(key, condition batch (4,))", lambda x, c: flow.sample(k, condition=c)),
             ("Affine shape (4, 3) .transform(x)", lambda x, c: aff.transform(x)),
             ("Affine shape (4, 3) .inverse_and_log_det(x)", lambda x, c: aff.inverse_and_log_det(x))]
    for name, fn in calls:
        ref = fn(jnp.asarray(X), jnp.asarray(C))
        jit_ref = eqx.filter_jit(fn)(jnp.asarray(X), jnp.asarray(C))
        for (lx, xv), (lc, cv) in zip(layouts(X).items(), layouts(C).items()):
            assert np.array_equal(xv, X) and np.array_equal(cv, C)
            u.count((name, lx), nontrivial=lx != "C order", tag=lx)
            try:
                got = fn(xv, cv)
                err = cmp(ref, got, 1e-12) or cmp(jit_ref, eqx.filter_jit(fn)(xv, cv), 1e-12)
            except Exception as e:  # noqa: BLE001
                err = f"raised {type(e).__name__}: {str(e)[:80]}"
            if err:
                ctx.violation(sig=f"numpy-layout:{name.split('(')[0]}:{lx}", what=f"{name} with the NumPy inputs in {lx}: {err} (same values as the jax-array call)",
                              case={"kind": "numpy-layout", "call": name, "layout": lx}, found_input=True, unit=u.name, expected="same result as for the jax array of the same values",
                              observed=str(err)[:200], broken="purity / mode transparency for NumPy inputs of any memory layout")


# ======================================================================================================
def run(ctx):
    s = _setup()
    jax = s["jax"]
    T = case_table()
    q = ctx.quick
    reps = 1 if q else 6
    u = ctx.unit("modes", "real bijections / distributions / flows (perturbed parameters) x every method x input pairs: eager twice (purity, pair "
                          "distinctness), eqx.filter_jit, jax.vmap over the stacked pair, after tree_flatten/unflatten, after tree_serialise_leaves -> "
                          "tree_deserialise_leaves into a fresh object; non-trivial = the object has trainable array leaves")
    uw = ctx.unit("well-formed", "real modules: no array in a static field, every array reachable through the fields is a pytree leaf (python walk) vs "
                                 "Tree.wf_module on the serialised module")
    um = ctx.unit("tree-algebra", "real objects: eqx.tree_serialise_leaves -> tree_deserialise_leaves(fresh object) and tree_flatten -> tree_unflatten "
                                  "vs Tree.deserialise_num(serialise_num) / Tree.unflatten_num (exact terms)")
    i = 0
    slow = [n for n, e in T.items() if e[3].get("slow")]
    keep_slow = slow[int(ctx.seed) % len(slow)] if slow else None  # quick tier: one of the slow cases per run, by seed
    for rep in range(reps):
        for name, entry in T.items():
            if q and entry[3].get("slow") and name != keep_slow:
                continue
            i += 1
            if i % 8 == 0:
                jax.clear_caches()
            seed = int(ctx.rng.integers(0, 2**31 - 1))
            try:
                errs, info = run_case(name, entry, seed)
            except Exception as e:
                import traceback

                errs, info = [("construct", "-", f"case could not be built/run: {type(e).__name__}: {str(e)[:150]}")], None
                ctx.notes.append(traceback.format_exc()[-400:])
            n_leaves = 0 if info is None else len([l for l in s["jtu"].tree_leaves(info["obj"]) if _is_arr(l) and np.issubdtype(l.dtype, np.floating)])
            u.count((name, seed), nontrivial=n_leaves > 0, tag=name)
            for mode, m, err in errs:
                tracer = any(t in err for t in TRACER_ERRORS)
                ctx.violation(sig=f"{'frozen-submodule:' if 'frozen-subtree' in name else ''}{name}.{m}:{mode}", what=f"{name}.{m} [{mode}]: {err}",
                              case={"kind": "modes", "name": name, "seed": seed, "mode": mode, "method": m}, found_input=True, unit=u.name,
                              expected="same result as the eager call (no tracer error)", observed=err,
                              broken=f"mode transparency ({mode}){' -- tracer error' if tracer else ''}",
                              reproducer="cd /verif && ./check C14 --replay <this file>")
            if info is None or rep > 0:
                continue
            # well-formedness
            obj = info["obj"]
            werrs = check_wf(obj)
            mwf = ctx.model(["wf " + ser_wf(obj)])[0]
            uw.count(name, nontrivial=True, tag=info["obj"].__class__.__name__)
            if werrs or mwf != "1":
                ctx.violation(sig=f"wf:{name}", what=f"{name}: {'; '.join(werrs) or 'model wf_module = ' + mwf}", case={"kind": "wf", "name": name, "seed": seed},
                              found_input=bool(werrs), unit=uw.name, expected="no array in a static field; all array fields are leaves", observed=werrs,
                              broken="C14_static_has_no_array (wf_module on the real module)")
            # tree algebra vs the model
            try:
                so, sl = ts.ser(obj), ts.ser(info["like"])
                outs = ctx.model([f"roundtrip {sl} | {so}", "flat " + so])
                um.count(name, nontrivial=True, tag="roundtrip")
                problems = []
                if info["obj_ser"] is not None:
                    sreal = ts.ser(info["obj_ser"])
                    if not outs[0].startswith("OK") or ts.diff(ts.parse(outs[0][3:]), ts.parse(sreal), rtol=0.0, ids=True):
                        problems.append(f"deserialised object differs from the model's deserialise(like, serialise(obj)): {outs[0][:80]}")
                    if ts.diff(ts.parse(so), ts.parse(sreal), rtol=0.0, ids=True):
                        problems.append("deserialised object differs from the serialised one")
                n_real = len(s["jtu"].tree_leaves(obj))
                if outs[1] == "NONE" or int(outs[1].split(" ", 1)[0]) != n_real or ts.diff(ts.parse(outs[1].split(" ", 1)[1]), ts.parse(so), rtol=0.0, ids=True):
                    problems.append(f"flatten/unflatten: model has {outs[1].split(' ', 1)[0]} leaves, jax.tree_util {n_real}")
                if problems:
                    um.disagreements += 1
                    ctx.violation(sig=f"tree-algebra:{name}", what="; ".join(problems), case={"kind": "algebra", "name": name, "seed": seed}, found_input=False,
                                  unit=um.name, broken="correspondence tree-algebra / C14_serialise_roundtrip")
            except Exception as e:
                ctx.notes.append(f"tree-algebra: {name}: serialiser could not handle the object ({type(e).__name__}: {str(e)[:100]})")
            if len(u.hashes) % 9 == 1:
                ctx.sample({"case": name, "seed": seed, "methods": methods_of(entry[1], entry[3]), "modes": ["eager", "jit", "vmap", "flatten", "serialise"], "errors": errs})
    numpy_typed_args_unit(ctx)
    numpy_layout_unit(ctx)
    ctx.assumptions += [
        "the eager result is the reference; its correctness is the subject of other properties",
        "jit / vmap transparency, purity and freedom from hidden state are decided by sampled correspondence only (PARTIAL)",
        "jit and vmap results are compared with eager at 1e-12 (XLA fuses differently); flatten / serialise / purity bit-for-bit",
    ]


def replay(ctx, rep):
    _setup()
    c = rep["case"]
    T = case_table()
    if c.get("kind") == "modes":
        errs, _ = run_case(c["name"], T[c["name"]], c["seed"])
        for e in errs:
            print("still failing:", e)
        return not errs
    if c.get("kind") == "wf":
        s = _setup()
        ctor, kind, cs, flags = T[c["name"]]
        obj = ctor(s["jr"].PRNGKey(c["seed"] % 1000))
        errs = check_wf(obj)
        print(errs)
        return not errs
    if c.get("kind") == "algebra":
        errs, info = run_case(c["name"], T[c["name"]], c["seed"], modes=("serialise", "flatten"))
        print(errs)
        return not errs
    if c.get("kind") == "numpy-layout":
        n0 = len(ctx.violations)
        numpy_layout_unit(ctx)
        hits = [v for v in ctx.violations[n0:] if v["sig"] == rep.get("sig")]
        for v in hits:
            print("still failing:", v["what"][:300])
        return not hits
    if c.get("kind") == "numpy-args":
        n0 = len(ctx.violations)
        numpy_typed_args_unit(ctx)
        want = f"numpy-args:{c['name'].split('(')[0]}" + (f".{c['method']}" if c.get("method") else ":construct")
        hits = [v for v in ctx.violations[n0:] if v["sig"] == want and v["what"].startswith(c["name"])]
        for v in hits:
            print("still failing:", v.get("what"))
        return not hits
    print("obligation replay: rebuild and re-check", c)
    return False
