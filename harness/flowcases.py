"""Real flow factories and combinator nestings with perturbed parameters (shared by the search oracles of C01/C02/C03...)."""

import numpy as np

from harness import leaves as lv


def perturb(obj, rng, scale=0.5):
    L = lv.lib()
    eqx, jnp, jax = L["eqx"], L["jnp"], L["jax"]
    from flowjax import wrappers

    params, static = eqx.partition(obj, eqx.is_inexact_array, is_leaf=lambda l: isinstance(l, wrappers.NonTrainable))
    leaves, td = jax.tree_util.tree_flatten(params)
    leaves = [l + jnp.asarray(rng.normal(0, scale, l.shape)) for l in leaves]
    return eqx.combine(jax.tree_util.tree_unflatten(td, leaves), static)


def flows(ctx, dims=(1, 2, 3), conds=(None, 2)):
    """Yields (name, dim, cond_dim, flow, roundtrip_tol) with parameters perturbed away from initialisation."""
    L = lv.lib()
    jr, B = L["jr"], L["B"]
    import flowjax.flows as F
    from flowjax.distributions import StandardNormal

    rng = ctx.rng
    key = jr.PRNGKey(int(rng.integers(0, 2**31)))
    for dim in dims:
        for cond in conds:
            base = StandardNormal((dim,))
            mk = [
                ("maf-affine", lambda k: F.masked_autoregressive_flow(k, base_dist=base, cond_dim=cond, flow_layers=2, nn_width=8), 1e-6),
                ("maf-rqs", lambda k: F.masked_autoregressive_flow(k, base_dist=base, cond_dim=cond, flow_layers=2, nn_width=8,
                                                                  transformer=B.RationalQuadraticSpline(knots=4, interval=3)), 1e-6),
                ("planar", lambda k: F.planar_flow(k, base_dist=base, cond_dim=cond, flow_layers=2, negative_slope=0.2,
                                                   **({} if cond is None else dict(width_size=8, depth=1))), 1e-6),
            ]
            if dim > 1:
                mk.append(("coupling", lambda k: F.coupling_flow(k, base_dist=base, cond_dim=cond, flow_layers=2, nn_width=8), 1e-6))
            if cond is None or dim < 3:
                mk.append(("triangular-spline", lambda k: F.triangular_spline_flow(k, base_dist=base, cond_dim=cond, flow_layers=2, knots=4), 1e-6))
            if not ctx.quick or dim == 2:
                mk.append(("bnaf", lambda k: F.block_neural_autoregressive_flow(k, base_dist=base, cond_dim=cond, flow_layers=1, nn_block_dim=3), 1e-4))
            for i, (name, f, tol) in enumerate(mk):
                key, k1 = jr.split(key)
                # quick tier: half of the (factory, dim, cond) grid per run, rotating with the seed (thorough: all of it)
                if ctx.quick and (i + dim + (cond is not None) + ctx.seed) % 2:
                    continue
                try:
                    flow = f(k1)
                except Exception as e:  # a factory that cannot be constructed in this environment is not a property violation
                    ctx.notes.append(f"flow factory {name} dim={dim} cond={cond} not constructible here: {type(e).__name__}: {str(e)[:80]}")
                    continue
                yield name, dim, cond, perturb(flow, rng, 0.4), tol


def combinators(ctx):
    """A few nestings of leaves through the public combinators (conditional and unconditional mixed)."""
    L = lv.lib()
    B, jnp, jr = L["B"], L["jnp"], L["jr"]
    rng = ctx.rng
    aff = lambda shape: L["eqx"].tree_at(lambda a: a.scale, B.Affine(jnp.asarray(rng.normal(0, 1, shape)), jnp.ones(shape)),
                                         jnp.asarray(np.exp(rng.normal(0, 0.7, shape)) * rng.choice([-1.0, 1.0], shape)))
    rqs = lambda: perturb(B.RationalQuadraticSpline(knots=5, interval=3), rng, 1.0)
    out = []
    out.append(("chain[affine,tanh-inv,leaky]", 3, None, B.Chain([aff((3,)), B.Invert(B.Tanh((3,))), B.Tanh((3,)), B.LeakyTanh(2.0, (3,))])))
    out.append(("affine-ctor-bcast-scalar-scale", 3, None, B.Affine(jnp.asarray(rng.normal(0, 1, 3)), float(np.exp(rng.normal(0.8, 0.3))))))
    out.append(("affine-ctor-bcast-row-scale", (2, 3), None, B.Affine(jnp.asarray(rng.normal(0, 1, (2, 1))), jnp.asarray(np.exp(rng.normal(0.5, 0.5, 3))))))
    out.append(("vmap-rqs", 3, None, B.Vmap(rqs(), axis_size=3)))
    out.append(("concat[aff,exp-chain]", 4, None, B.Concatenate([aff((2,)), B.Chain([aff((2,)), B.SoftPlus((2,)), B.Invert(B.SoftPlus((2,)))])])))
    out.append(("stack-axis-1[aff,aff]", (3, 2), None, B.Stack([aff((3,)), aff((3,))], axis=-1)))
    out.append(("partial[slice]", 4, None, B.Partial(aff((2,)), slice(1, 3), (4,))))
    out.append(("reshape", (2, 2), None, B.Reshape(B.TriangularAffine(jnp.asarray(rng.normal(0, 1, 4)), jnp.asarray(rng.normal(0, 1, (4, 4)) + 2 * np.eye(4))), (2, 2))))
    out.append(("scan[aff x3]", 2, None, B.Scan(L["eqx"].filter_vmap(lambda k: B.Affine(jr.normal(k, (2,)), jnp.exp(0.5 * jr.normal(k, (2,)))))(jr.split(jr.PRNGKey(3), 3)))))
    out.append(("coupling-cond", 3, 2, perturb(B.Coupling(jr.PRNGKey(1), transformer=B.Affine(), untransformed_dim=1, dim=3, cond_dim=2, nn_width=6, nn_depth=1), rng, 0.5)))
    out.append(("maf-rqs-cond", 3, 2, perturb(B.MaskedAutoregressive(jr.PRNGKey(2), transformer=B.RationalQuadraticSpline(knots=3, interval=2), dim=3, cond_dim=2, nn_width=6, nn_depth=1), rng, 0.5)))
    # scalar constructor arguments given as NumPy scalars (np.float64 IS a python float): every inexact ARRAY leaf of the object is a
    # trainable parameter (what fit_to_data updates), so the perturbation reaches whatever the constructor left as a NumPy scalar
    # (defect D11: LeakyTanh's intercept moved away from tanh(max_val) - linear_grad * max_val; the map stopped being a bijection)
    out.append(("chain[leaky(np.float64 max_val),affine]-perturbed", 3, None, perturb(B.Chain([B.LeakyTanh(np.float64(1.25), (3,)), aff((3,))]), rng, 0.5)))
    # unusual but legitimate configurations (large dimension, many knots / children / layers, rank 3, depth-0 and deep conditioners)
    big = []
    big.append(("affine-dim400-small-scales", 400, None, L["eqx"].tree_at(lambda a: a.scale, B.Affine(jnp.asarray(rng.normal(0, 1, 400)), jnp.ones(400)),
                                                                      jnp.asarray(rng.uniform(0.05, 0.5, 400) * rng.choice([-1.0, 1.0], 400)))))
    big.append(("vmap-rqs-24knots", 5, None, B.Vmap(perturb(B.RationalQuadraticSpline(knots=24, interval=(-4, 5)), rng, 1.0), axis_size=5)))
    big.append(("maf-dim7-depth0", 7, None, perturb(B.MaskedAutoregressive(jr.PRNGKey(5), transformer=B.Affine(), dim=7, nn_width=9, nn_depth=0), rng, 0.5)))
    big.append(("maf-dim6-depth3-cond", 6, 3, perturb(B.MaskedAutoregressive(jr.PRNGKey(6), transformer=B.Affine(), dim=6, cond_dim=3, nn_width=7, nn_depth=3), rng, 0.4)))
    big.append(("coupling-dim8-ud7", 8, None, perturb(B.Coupling(jr.PRNGKey(7), transformer=B.Affine(), untransformed_dim=7, dim=8, nn_width=6, nn_depth=1), rng, 0.5)))
    big.append(("stack-rank3-axis1[4 children]", (2, 4, 3), None, B.Stack([aff((2, 3)) for _ in range(4)], axis=1)))
    big.append(("concat-axis-2[5 children]", (2, 11, 2), None, B.Concatenate([aff((2, k, 2)) for k in (1, 2, 3, 4, 1)], axis=-2)))
    big.append(("partial-bool-mask", 6, None, B.Partial(aff((3,)), jnp.asarray([True, False, True, False, False, True]), (6,))))
    big.append(("chain-8-layers", 3, None, B.Chain([aff((3,)), B.LeakyTanh(1.5, (3,)), aff((3,)), B.Invert(B.SoftPlus((3,))), B.SoftPlus((3,)), B.Flip((3,)), aff((3,)),
                                                   B.Permute(jnp.asarray([2, 0, 1]))])))
    from flowjax.bijections import BlockAutoregressiveNetwork
    big.append(("bnaf-net-depth2-cond", 2, 3, perturb(BlockAutoregressiveNetwork(jr.PRNGKey(8), dim=2, cond_dim=3, depth=2, block_dim=3), rng, 0.3)))
    big.append(("bnaf-net-depth3-cond", 3, 2, perturb(BlockAutoregressiveNetwork(jr.PRNGKey(9), dim=3, cond_dim=2, depth=3, block_dim=2), rng, 0.3)))
    from flowjax.bisection_search import AutoregressiveBisectionInverter
    big.append(("bnaf-net-integer-search-bounds", 2, None, perturb(BlockAutoregressiveNetwork(
        jr.PRNGKey(10), dim=2, depth=1, block_dim=3, inverter=AutoregressiveBisectionInverter(lower=-10, upper=10)), rng, 0.3)))
    import equinox as _eqx

    class _LearnableAct(_eqx.Module):  # a user-defined increasing activation with its own trainable parameter (seeded change C02e)
        a: object

        def __call__(self, v):
            return v + jnp.tanh(self.a * v)

    big.append(("bnaf-net-learnable-activation", 2, None, perturb(BlockAutoregressiveNetwork(
        jr.PRNGKey(12), dim=2, depth=1, block_dim=3, activation=_LearnableAct(jnp.asarray(0.7))), rng, 0.3)))
    big.append(("tri-affine-dim12-upper", 12, None, B.TriangularAffine(jnp.asarray(rng.normal(0, 1, 12)), jnp.asarray(rng.normal(0, 0.5, (12, 12)) + 2 * np.eye(12)), lower=False)))
    for i, item in enumerate(big):  # quick tier: half of them per run, rotating with the seed
        if not ctx.quick or (i + ctx.seed) % 2 == 0:
            out.append(item)
    return out


def flow_bijections(ctx):
    for name, dim, cond, flow, tol in flows(ctx):
        yield name, dim, cond, flow.bijection, tol
    for name, dim, cond, bij in combinators(ctx):
        yield name, dim, cond, bij, 1e-6


# ---------------------------------------------------------------- integer-dtype inputs (hard-mode seeded changes C03c, C09c)
def int_dtype_unit(ctx, prop_tag, bijections=True, distributions=False):
    """An integer-valued point given with an INTEGER dtype (python int, int32/int64 arrays) is the same point of the domain as
    its float version: every bijection method / log_prob must return exactly what it returns for x.astype(float).  (On the
    tree before fix ba4276c in-place updates truncated: Partial, MaskedAutoregressive.inverse.)"""
    L = lv.lib()
    jnp, jr, B = L["jnp"], L["jr"], L["B"]
    rng = ctx.rng
    u = ctx.unit("integer-dtype-inputs", "bijection methods / log_prob called with an integer-dtype x vs the same values as floats: identical results "
                                         "(combinators incl. Partial, Scan, Vmap; conditional MAF / coupling layers; flow factories); non-trivial = all")

    def same(a, b):
        a = a if isinstance(a, tuple) else (a,)
        b = b if isinstance(b, tuple) else (b,)
        return all(np.allclose(np.asarray(p, dtype=float), np.asarray(q, dtype=float), rtol=1e-12, atol=1e-12, equal_nan=True) for p, q in zip(a, b))

    items = []
    if bijections:
        items += [(n_, c_, b_, None) for n_, _, c_, b_ in combinators(ctx)]
    if distributions or bijections:
        for name, dim, cond, flow, _ in flows(ctx, dims=(2,), conds=(None, 2)):
            if name != "bnaf":
                items.append((name, cond, flow.bijection, flow))
    from flowjax.distributions import Normal, Transformed
    if distributions:
        items.append(("Transformed(Normal, Partial)", None, None, Transformed(Normal(jnp.zeros(4)), B.Partial(B.Affine(jnp.ones(2), 2.5), slice(1, 3), (4,)))))
        items.append(("Transformed(Normal, MAF layer)", 2, None, Transformed(Normal(jnp.zeros(3)), perturb(B.MaskedAutoregressive(
            jr.PRNGKey(4), transformer=B.Affine(), dim=3, cond_dim=2, nn_width=5, nn_depth=1), rng, 0.5))))
    for name, cond, bij, dist in items:
        shape = (bij if bij is not None else dist).shape
        xi = rng.integers(-2, 3, shape)
        c = None if cond is None else jnp.asarray(rng.uniform(-0.9, 0.9, cond))  # |c| < 1: truncation of the condition would be visible
        calls = []
        if bijections and bij is not None:
            calls += [(f"{m}", getattr(bij, m)) for m in ("transform", "inverse", "transform_and_log_det", "inverse_and_log_det")]
        if distributions and dist is not None:
            calls += [("log_prob", dist.log_prob)]
        for mname, f in calls:
            for dt in (np.int32, np.int64):
                u.count((name, mname, str(dt), xi.tolist()), tag=mname)
                try:
                    ref = f(jnp.asarray(xi, dtype=float), c) if c is not None else f(jnp.asarray(xi, dtype=float))
                except NotImplementedError:
                    continue
                try:
                    got = f(jnp.asarray(xi.astype(dt)), c) if c is not None else f(jnp.asarray(xi.astype(dt)))
                    err = None if same(got, ref) else f"returns {np.ravel(np.asarray(got[0] if isinstance(got, tuple) else got))[:4].tolist()} ... for the integer-dtype x " \
                                                       f"but {np.ravel(np.asarray(ref[0] if isinstance(ref, tuple) else ref))[:4].tolist()} ... for the same values as floats"
                except Exception as e:  # noqa: BLE001
                    err = f"raises {type(e).__name__} for an integer-dtype x ({str(e)[:80]})"
                if err:
                    ctx.violation(sig=f"int-dtype:{name}:{mname}", what=f"{name}.{mname}: {err}; x = {xi.tolist()} ({np.dtype(dt).name})",
                                  case=dict(unit="integer-dtype-inputs", item=name, method=mname, x=xi.tolist(), dtype=np.dtype(dt).name,
                                            condition=None if c is None else np.asarray(c).tolist()),
                                  found_input=True, unit=u.name, broken=f"{prop_tag}: integer-dtype inputs")
                    break


# ---------------------------------------------------------------- Transformed over unusual bases (hard-mode seeded change C03d)
def base_variety_unit(ctx):
    """The three identities of C03 on Transformed(base, bijection) for bases that override or specialise their own sampling /
    joint methods (mixtures, StudentT, Gumbel, Uniform, LogNormal, a nested Transformed): implementation only."""
    L = lv.lib()
    jnp, jr, B = L["jnp"], L["jr"], L["B"]
    import flowjax.distributions as D

    rng = ctx.rng
    u = ctx.unit("base-variety-oracle", "Transformed(base, bijection) for bases VmapMixture (overlapping components), StudentT, Gumbel, Uniform, LogNormal, "
                                        "Laplace, nested Transformed x bijections Affine / coupling layer: sample_and_log_prob log-prob == log_prob(sample), "
                                        "sample == transform(base sample) at the same key, log_prob == base log_prob(inverse) + inverse log-det")
    import equinox as eqx
    mix1 = D.VmapMixture(eqx.filter_vmap(D.Normal)(jnp.asarray([-0.5, 0.4, 1.0]), jnp.asarray([1.0, 0.7, 1.5])), weights=jnp.asarray([0.2, 0.5, 0.3]))
    mix2 = D.VmapMixture(eqx.filter_vmap(lambda l: D.Normal(l, jnp.ones(2)))(jnp.asarray([[-0.5, 0.0], [0.6, 0.3]])), weights=jnp.asarray([1.0, 3.0]))
    bases = [("VmapMixture1d", mix1), ("VmapMixture2d", mix2), ("StudentT", D.StudentT(jnp.asarray([3.0, 5.0]))), ("Gumbel", D.Gumbel(jnp.zeros(2), 1.3)),
             ("Uniform", D.Uniform(jnp.asarray([-1.0, 0.0]), jnp.asarray([2.0, 0.5]))), ("LogNormal", D.LogNormal(jnp.zeros(2), 0.6)),
             ("Laplace", D.Laplace(jnp.zeros(2), 2.0)), ("nested", D.Transformed(D.Normal(jnp.zeros(2)), B.Tanh((2,))))]
    for bname, base in bases:
        shape = base.shape
        bijs = [("Affine", B.Affine(jnp.asarray(rng.normal(0, 1, shape)), jnp.asarray(np.exp(rng.normal(0, 0.5, shape)))))]
        if shape == (2,):
            bijs.append(("Coupling", perturb(B.Coupling(jr.PRNGKey(11), transformer=B.Affine(), untransformed_dim=1, dim=2, nn_width=5, nn_depth=1), rng, 0.5)))
        for jname, bij in bijs:
            d = D.Transformed(base, bij)
            for rep in range(2):
                key = jr.PRNGKey(int(rng.integers(0, 2**31)))
                u.count((bname, jname, rep, int(ctx.seed)), tag=bname)
                errs = []
                try:
                    x, lp = d.sample_and_log_prob(key)
                    lp2 = d.log_prob(x)
                    if np.isfinite(float(lp2)) and not abs(float(lp) - float(lp2)) <= 1e-8 * max(1.0, abs(float(lp2))):
                        errs.append(f"sample_and_log_prob(key) returned log-prob {float(lp)!r} but log_prob(sample) = {float(lp2)!r}")
                    xs = d.sample(key)
                    if not np.allclose(np.asarray(xs), np.asarray(x), rtol=1e-12, atol=1e-12):
                        errs.append(f"sample(key) = {np.ravel(xs).tolist()} differs from the point of sample_and_log_prob(key) = {np.ravel(x).tolist()}")
                    z, ldi = bij.inverse_and_log_det(x)
                    ref = float(base.log_prob(z)) + float(ldi)
                    if np.isfinite(ref) and not abs(float(lp2) - ref) <= 1e-8 * max(1.0, abs(ref)):
                        errs.append(f"log_prob(x) = {float(lp2)!r} but base.log_prob(inverse(x)) + inverse log-det = {ref!r}")
                except Exception as e:  # noqa: BLE001
                    errs.append(f"raised {type(e).__name__}: {str(e)[:100]}")
                if errs:
                    ctx.violation(sig=f"base-variety:{bname}:{jname}", what=f"Transformed({bname}, {jname}): " + "; ".join(errs),
                                  case=dict(unit="base-variety-oracle", base=bname, bijection=jname, key=np.asarray(key).tolist()), found_input=True,
                                  unit=u.name, broken="C03 identities on Transformed over this base")
