"""Tie of the LOG-DETERMINANT reported by the real flowjax.bijections.BlockAutoregressiveNetwork.transform_and_log_det with the
extracted Coq model coq/Model/BnafLd.v (driver ocaml/bin/bnafld), used by the C02 check:

    from harness import bnafld
    bnafld.run_units(ctx)

The build must include the extraction group "bnafld" (GROUPS) and the theorems of coq/Props/X02_bnaf.v (EXTRA_PROPS; in
harness/c02.py the entry is "Props/X02_bnaf.v").  If the theorems were not registered by the caller, `run_units` builds
(./build.sh X02_bnaf bnafld) and registers them itself.

What is serialised from the real object (nothing is taken from the model side): dim, depth, block_dim, the activation (LeakyTanh:
its three stored fields; Tanh; a callable jnp.tanh), per layer the RAW leaves of the wrapper tree
(WeightNormalization.weight.if_true.arr.if_true, WeightNormalization.weight.if_false.if_true, WeightNormalization.scale.arr, bias),
cond_linear(condition) computed from the real cond_linear weight, and x.  The model recomputes the weights (softplus on the diagonal
blocks, block-lower-triangular Where, weight normalisation), the forward values, the block log-Jacobians, the logmatmulexp chain and
the sum.  Compared at IEEE doubles, 1e-9 relative to max(1, |v|):
  bnafld-weights   unwrap(layer).weight of every layer vs model unwrap_ws_g
  bnafld-tie       transform_and_log_det(x, condition): the value vector AND the log-det, real object (jit + vmap over the inputs
                   of one network) vs model; every reported disagreement is first confirmed on the un-jitted, un-batched method
  bnafld-lme       flowjax's logmatmulexp on random matrices (with -inf entries placed like an activation block) vs model logmatmulexp
  bnafld-oracle    (implementation alone, low volume and at every disagreement) log-det vs slogdet(jax.jacobian(transform))
Inputs: N(0, 2^2); every coordinate at +-max_val, its float neighbours, 0; |x| up to 50; and for the first hidden layer the
preimages of +-max_val of coordinate 0 (the switch points of LeakyTanh sit on the hidden pre-activations).
"""

import math
import os
import subprocess
import time

import numpy as np

from harness.common import VERIF, fhex, fparse, hexlist, sha

GROUP = "bnafld"
GROUPS = ("bnafld",)
EXTRA_PROPS = ("X02_bnaf",)
THEOREMS_FILE = "Props/X02_bnaf.v"
MANIFEST_ADDENDUM = {
    "text": "The log-det BlockAutoregressiveNetwork.transform_and_log_det REPORTS is inside the model (coq/Model/BnafLd.v): log of the diagonal "
            "blocks of the weight-normalised, softplus-positive weights gathered through block_diag_mask and reshaped to (dim, block_out, block_in), the "
            "activation's log-gradients on the block diagonals (-inf elsewhere), the reversed logmatmulexp chain (shifts by amax), the final sum. "
            "Props/X02_bnaf.v proves over R, for every dim / depth / block_dim, every raw weight, bias and condition term and every activation with a "
            "positive derivative act' whose reported log-gradient is ln act' (instances: LeakyTanh as constructed, Tanh, callable tanh): exp of the i-th "
            "entry of the final (dim,1,1) array IS d y_i / d x_i of the value model (Coquelicot is_derive, chain rule through all layers), the reported "
            "total is the sum of ln of these, and it equals ln|det J| for every J whose upper triangle holds the partial derivatives (such J exist). "
            "Tied on every run to real BlockAutoregressiveNetwork objects (parameters perturbed, with/without condition, dims 1-4, depth 0-3, "
            "block_dim 1-4) by harness/bnafld.py: weights, values and log-dets at 1e-9.",
    "note": "Exact over R; float rounding (and float saturation of a callable tanh) not modelled. The serialiser reads the raw leaves from the wrapper tree "
            "of every layer; jit/vmap evaluate the real method in batches and every reported disagreement is first confirmed on the un-jitted method.",
}
_L = {}


def lib():
    if _L:
        return _L
    import equinox as eqx
    import jax
    import jax.numpy as jnp
    import jax.random as jr
    from flowjax import bijections as B
    from flowjax import wrappers as W
    from flowjax.bijections import block_autoregressive_network as M

    _L.update(eqx=eqx, jax=jax, jnp=jnp, jr=jr, B=B, W=W, M=M, unwrap=W.unwrap, BNAF=B.BlockAutoregressiveNetwork)
    return _L


# ------------------------------------------------------------------------------------------------ wire helpers
def fvec(v):
    v = np.asarray(v, dtype=float).ravel()
    return hexlist(v) if v.size else "-"


def fmat(m):
    m = np.asarray(m, dtype=float)
    if m.shape[0] == 0:
        return "-"
    return ";".join((",".join(fhex(v) for v in row) if len(row) else "e") for row in m)


def fmats(ms):
    return "/".join(fmat(m) for m in ms) if len(ms) else "-"


def fvecs(vs):
    return "/".join((fvec(v) if np.size(v) else "e") for v in vs) if len(vs) else "-"


def parse_vec(s):
    return [] if s in ("-", "e") else [fparse(v) for v in s.split(",")]


def parse_mat(s):
    return [] if s == "-" else [parse_vec(r) for r in s.split(";")]


def close(a, b, rel):
    a, b = float(a), float(b)
    if math.isnan(a) or math.isnan(b):
        return math.isnan(a) and math.isnan(b)
    if math.isinf(a) or math.isinf(b):
        return a == b
    return abs(a - b) <= rel * max(1.0, abs(a), abs(b))


def vclose(a, b, rel):
    a, b = np.ravel(np.asarray(a, dtype=float)), np.ravel(np.asarray(b, dtype=float))
    return a.shape == b.shape and all(close(p, q, rel) for p, q in zip(a, b))


# ------------------------------------------------------------------------------------------------ real objects
ACTS = ("default", "leaky1.5", "leaky0.5", "tanh", "calltanh")


def make_activation(name):
    L = lib()
    if name == "default":
        return None
    if name.startswith("leaky"):
        return L["B"].LeakyTanh(float(name[5:]))
    if name == "tanh":
        return L["B"].Tanh()
    if name == "calltanh":
        return L["jnp"].tanh
    raise ValueError(name)


def build(cfg, rng=None, scale=0.5):
    """The real network of a configuration; with rng its inexact leaves are perturbed (harness.flowcases.perturb)."""
    L = lib()
    kw = {}
    act = make_activation(cfg["act"])
    if act is not None:
        kw["activation"] = act
    b = L["BNAF"](L["jr"].PRNGKey(cfg["key"]), dim=cfg["dim"], cond_dim=cfg["cond"], depth=cfg["depth"], block_dim=cfg["bd"], **kw)
    if rng is not None:
        from harness import flowcases

        b = flowcases.perturb(b, rng, scale)
    return b


def act_token(b):
    """The activation as the real object holds it."""
    L = lib()
    a = b.activation
    if isinstance(a, L["B"].LeakyTanh):
        return f"leaky:{fhex(a.max_val)}:{fhex(a.linear_grad)}:{fhex(a.intercept)}", float(a.max_val)
    if isinstance(a, L["B"].Tanh):
        return "tanh", None
    if isinstance(a, L["M"]._CallableToBijection) and a.fn is L["jnp"].tanh:
        return "calltanh", None
    return None, None


def raw_leaves(lin):
    """(w1, w2, scale_raw, bias) of one block_autoregressive_linear, read from the wrapper tree; None if not recognised"""
    try:
        wn = lin.weight
        w1 = np.asarray(wn.weight.if_true.arr.if_true, dtype=float)
        w2 = np.asarray(wn.weight.if_false.if_true, dtype=float)
        sc = np.asarray(wn.scale.arr, dtype=float)[:, 0]
        bias = np.asarray(lin.bias, dtype=float)
        if w1.shape != w2.shape or w1.ndim != 2 or sc.shape != (w1.shape[0],) or bias.shape != (w1.shape[0],):
            return None
        return w1, w2, sc, bias
    except Exception:
        return None


def shapes_of(cfg):
    return [(1, 1)] if cfg["depth"] == 0 else [(cfg["bd"], 1)] + [(cfg["bd"], cfg["bd"])] * (cfg["depth"] - 1) + [(1, cfg["bd"])]


_EVAL = {}


def batched_eval(b, X, C):
    """transform_and_log_det of the real object on every row of X (and C), jitted once per network structure; the module is an
    argument of the jitted function, so the compilation does not depend on the parameter values."""
    L = lib()
    eqx, jax, jnp = L["eqx"], L["jax"], L["jnp"]
    key = "cond" if C is not None else "uncond"
    if key not in _EVAL:
        if C is None:
            _EVAL[key] = eqx.filter_jit(lambda mod, xs: jax.vmap(lambda x: mod.transform_and_log_det(x))(xs))
        else:
            _EVAL[key] = eqx.filter_jit(lambda mod, xs, cs: jax.vmap(lambda x, c: mod.transform_and_log_det(x, c))(xs, cs))
    f = _EVAL[key]
    ys, lds = f(b, jnp.asarray(X)) if C is None else f(b, jnp.asarray(X), jnp.asarray(C))
    return np.asarray(ys, dtype=float), np.asarray(lds, dtype=float)


def eager_eval(b, x, c):
    jnp = lib()["jnp"]
    y, ld = b.transform_and_log_det(jnp.asarray(x)) if c is None else b.transform_and_log_det(jnp.asarray(x), jnp.asarray(c))
    return np.asarray(y, dtype=float), float(ld)


def hidden_preacts(ub, x, c, act_name):
    """max |pre-activation| over all hidden units, by a NumPy forward pass on the unwrapped real weights (only used to decide
    whether a callable tanh saturates: ln((1+t)(1-t)) loses all relative accuracy once 1 - |t| is a few ulps)"""
    h = np.asarray(x, dtype=float)
    worst = 0.0
    for i, (lin, _) in enumerate(ub.layers[:-1]):
        h = np.asarray(lin.weight, dtype=float) @ h + np.asarray(lin.bias, dtype=float)
        if i == 0 and c is not None:
            h = h + np.asarray(ub.cond_linear.weight, dtype=float) @ np.asarray(c, dtype=float)
        worst = max(worst, float(np.max(np.abs(h)))) if h.size else worst
        h = np.tanh(h)
    return worst


def gen_configs(rng, quick):
    """dims 1-4 x depth 0-3 x block_dim 1-4 x cond None/1/2/3 x activation: the depths cycle (every depth in every run), the rest is
    drawn (default LeakyTanh(3) with probability 0.4); the quick tier keeps the number of distinct network structures (= XLA
    compilations) small."""
    n = 10 if quick else 72
    cfgs = []
    for k in range(n):
        act = "default" if rng.random() < 0.4 else ACTS[1 + int(rng.integers(0, len(ACTS) - 1))]
        cond = None if rng.random() < 0.5 else int(rng.integers(1, 4))
        cfgs.append(dict(dim=int(rng.integers(1, 5)), depth=k % 4, bd=int(rng.integers(1, 5)), cond=cond, act=act, key=int(rng.integers(0, 2**31 - 1))))
    return cfgs


def inputs_for(cfg, rng, max_val, W0, b0, n_random):
    """rows of inputs for one network"""
    dim = cfg["dim"]
    m = 3.0 if max_val is None else max_val
    rows = [rng.normal(0, 2.0, size=dim) for _ in range(n_random)]
    rows.append(np.zeros(dim))
    for v in (m, -m, np.nextafter(m, np.inf), np.nextafter(m, -np.inf), np.nextafter(-m, -np.inf), np.nextafter(-m, np.inf)):
        r = rng.normal(0, 1.5, size=dim)
        r[int(rng.integers(0, dim))] = v
        rows.append(r)
    rows.append(np.full(dim, m))
    rows.append(np.full(dim, -m))
    for s in (10.0, 25.0, 50.0):
        rows.append(rng.uniform(-s, s, size=dim))
        r = rng.normal(0, 1.0, size=dim)
        r[int(rng.integers(0, dim))] = s * (1 if rng.random() < 0.5 else -1)
        rows.append(r)
    rows.append(np.full(dim, 50.0))
    rows.append(np.full(dim, -50.0))
    # switch points of the first hidden layer in coordinate 0 (the other coordinates do not reach block 0): W0[u,0] * x0 + b0[u] = +-m
    if cfg["depth"] >= 1 and W0 is not None:
        for u in range(min(cfg["bd"], 3)):
            if W0[u, 0] != 0:
                for tgt in (m, -m):
                    r = rng.normal(0, 1.0, size=dim)
                    r[0] = (tgt - b0[u]) / W0[u, 0]
                    if np.isfinite(r[0]) and abs(r[0]) < 1e6:
                        rows.append(r)
    return np.asarray(rows, dtype=float)


def request(cfg, atok, raws, cterm, x):
    return (f"tld {cfg['dim']} {cfg['depth']} {cfg['bd']} {atok} {fmats([r[0] for r in raws])} {fmats([r[1] for r in raws])} "
            f"{fvecs([r[2] for r in raws])} {fvecs([r[3] for r in raws])} {'none' if cterm is None else fvec(cterm)} {fvec(x)}")


def oracle_errors(cfg, b, x, c):
    """the property's own statement on the implementation alone: reported log-det vs ln|det| of the autodiff Jacobian of transform"""
    from harness import c02

    if cfg["act"] == "calltanh" and hidden_preacts(lib()["unwrap"](b), x, c, cfg["act"]) > 5.0:
        return []  # a saturating callable tanh is outside the property (float saturation)
    try:
        return c02.autodiff_errors(None, b, np.asarray(x, dtype=float), None if c is None else np.asarray(c, dtype=float), tol=1e-6)
    except Exception as e:  # pragma: no cover
        return [f"oracle raised {type(e).__name__}: {str(e)[:100]}"]


def _case(cfg, atok, raws, cterm, x, c, cond_weight=None):
    return dict(kind="bnafld", cfg=cfg, activation=atok, w1=[r[0].tolist() for r in raws], w2=[r[1].tolist() for r in raws],
                scale_raw=[r[2].tolist() for r in raws], bias=[r[3].tolist() for r in raws],
                cond_weight=None if cond_weight is None else np.asarray(cond_weight).tolist(),
                cterm=None if cterm is None else np.asarray(cterm).tolist(), x=np.asarray(x).tolist(), condition=None if c is None else np.asarray(c).tolist())


def run_lme(ctx, rng, n):
    """flowjax.bijections.block_autoregressive_network.logmatmulexp vs the model, finite x, y with -inf like an activation block"""
    L = lib()
    jnp, M = L["jnp"], L["M"]
    u = ctx.unit("bnafld-lme", "flowjax logmatmulexp(x, y) on random matrices (entries up to +-40; y finite or diagonal with -inf off the diagonal, as "
                               "_activation_and_log_jacobian_3d builds it) vs model logmatmulexp, 1e-9; non-trivial = more than one column or row")
    reqs, meta = [], []
    for k in range(n):
        r, kk, c = int(rng.integers(1, 5)), int(rng.integers(1, 5)), int(rng.integers(1, 5))
        sc = float(rng.choice([1.0, 5.0, 40.0]))
        x = rng.normal(0, sc, size=(r, kk))
        if k % 2 == 0:
            y = rng.normal(0, sc, size=(kk, c))
        else:
            y = np.full((kk, kk), -np.inf)
            y[np.arange(kk), np.arange(kk)] = rng.normal(0, sc, size=kk)
        reqs.append(f"lme {fmat(x)} {fmat(y)}")
        meta.append((x, y))
    outs = ctx.model(reqs, GROUP)
    for (x, y), o in zip(meta, outs):
        real = np.asarray(M.logmatmulexp(jnp.asarray(x), jnp.asarray(y)), dtype=float)
        u.count(sha([x.tolist(), [[fhex(v) for v in row] for row in y]]), nontrivial=x.shape[0] > 1 or y.shape[1] > 1, tag="diag" if np.isinf(y).any() else "finite")
        mod = np.asarray(parse_mat(o), dtype=float).reshape(real.shape) if not o.startswith("ERR") else None
        if mod is None or not vclose(mod, real, 1e-9):
            u.disagreements += 1
            ctx.violation(sig="logmatmulexp:model-mismatch", what=f"logmatmulexp(x, y) = {real.tolist()} but the model computes {o[:200]} for x = {x.tolist()}, y = {y.tolist()}",
                          case=dict(kind="bnafld-lme", x=x.tolist(), y=[[fhex(v) for v in row] for row in y]), found_input=False, unit=u.name,
                          expected=o[:400], observed=str(real.tolist())[:400], broken="correspondence bnafld-lme (coq/Model/BnafLd.v logmatmulexp) / X02_logmatmulexp_spec")


def run_units(ctx, theorems=None, n_cfg=None):
    """Entry point for harness/c02.py.  Requires the extraction group 'bnafld' to be built."""
    t_start = time.time()
    L = lib()
    unwrap = L["unwrap"]
    registered = any(o["name"] == "theorem X02_bnaf_reported_ldj_is_ln_det" for o in ctx.obligations)
    if theorems or (theorems is None and not registered):
        r = subprocess.run([os.path.join(VERIF, "build.sh"), "X02_bnaf", GROUP], capture_output=True, text=True, timeout=3400)
        ctx.obligation("coq-build Props/X02_bnaf.v", "BUILD-OK" in r.stdout, (r.stdout + r.stderr)[-1500:] if "BUILD-OK" not in r.stdout else "")
        ctx.theorems(THEOREMS_FILE)
    rng = ctx.rng
    uw = ctx.unit("bnafld-weights", "unwrap(layer).weight of every block_autoregressive_linear of the real network vs model unwrap_ws_g on the raw leaves "
                                    "(softplus on diagonal blocks, block-tril Where, weight normalisation), 1e-9; non-trivial = depth >= 1 or dim >= 2")
    ut = ctx.unit("bnafld-tie", "BlockAutoregressiveNetwork.transform_and_log_det(x, condition): value vector and reported log-det, real object (dims 1-4, "
                                "depth 0-3, block_dim 1-4, cond None/1-3, LeakyTanh(3)/LeakyTanh(other)/Tanh/callable tanh, parameters perturbed) vs extracted "
                                "Model/BnafLd.v from the RAW leaves, 1e-9 relative; random + boundary inputs (+-max_val and float neighbours, first-layer switch "
                                "points, |x| up to 50); non-trivial = depth >= 1")
    uo = ctx.unit("bnafld-oracle", "reported log-det vs slogdet(jax.jacobian(transform)) (+ inverse law) on the real networks alone, low volume and at every "
                                   "disagreement; non-trivial = depth >= 1")
    run_lme(ctx, rng, 24 if ctx.quick else 200)
    cfgs = gen_configs(rng, ctx.quick) if n_cfg is None else gen_configs(rng, ctx.quick)[:n_cfg]
    n_random = 6 if ctx.quick else 24
    reported = set()
    skipped = 0
    oracle_budget = 3 if ctx.quick else 24
    for ci, cfg in enumerate(cfgs):
        b = build(cfg, rng, 0.5)
        ub = unwrap(b)
        atok, max_val = act_token(b)
        raws = [raw_leaves(lin) for lin, _ in b.layers]
        if atok is None or any(r is None for r in raws) or len(raws) != len(shapes_of(cfg)):
            skipped += 1
            continue
        tag = f"depth{cfg['depth']}/{cfg['act']}/{'cond' if cfg['cond'] else 'uncond'}"
        # ---- weights
        Ws = [np.asarray(lin.weight, dtype=float) for lin, _ in ub.layers]
        o = ctx.model([f"weights {cfg['dim']} {cfg['depth']} {cfg['bd']} {fmats([r[0] for r in raws])} {fmats([r[1] for r in raws])} {fvecs([r[2] for r in raws])}"], GROUP)[0]
        mw = None if o.startswith("ERR") else [np.asarray(parse_mat(m), dtype=float) for m in o.split("/")]
        uw.count(("weights", sha(cfg), sha([w.tolist() for w in Ws])), nontrivial=cfg["depth"] >= 1 or cfg["dim"] >= 2, tag=tag)
        if mw is None or len(mw) != len(Ws) or not all(m.shape == w.shape and vclose(m, w, 1e-9) for m, w in zip(mw, Ws)):
            uw.disagreements += 1
            ctx.violation(sig="BlockAutoregressiveNetwork:weights:model-mismatch",
                          what=f"BlockAutoregressiveNetwork{cfg}: unwrapped layer weights {[w.tolist() for w in Ws]} vs model (from the raw leaves) {o[:300]}",
                          case=_case(cfg, atok, raws, None, np.zeros(cfg["dim"]), None), found_input=False, unit=uw.name, expected=o[:400],
                          observed=str([w.tolist() for w in Ws])[:400], broken="correspondence bnafld-weights (Model.Masks.bnaf_weight / Model.BnafLd.unwrap_ws_g)")
        # ---- inputs
        X = inputs_for(cfg, rng, max_val, Ws[0] if cfg["depth"] >= 1 else None, np.asarray(ub.layers[0][0].bias, dtype=float), n_random)
        C = None if cfg["cond"] is None else rng.normal(0, 1.5, size=(X.shape[0], cfg["cond"]))
        CW = None if cfg["cond"] is None else np.asarray(ub.cond_linear.weight, dtype=float)
        try:
            Y, LD = batched_eval(b, X, C)
        except Exception as e:
            ut.count(("raise", sha(cfg)), nontrivial=False, tag="raises")
            ut.disagreements += 1
            ctx.violation(sig=f"BlockAutoregressiveNetwork.transform_and_log_det:raises:{type(e).__name__}",
                          what=f"BlockAutoregressiveNetwork{cfg}.transform_and_log_det raises {type(e).__name__}: {str(e)[:200]}",
                          case=_case(cfg, atok, raws, None, X[0], None if C is None else C[0]), found_input=True, unit=ut.name,
                          broken="correspondence bnafld-tie")
            continue
        cterms = [None if C is None else CW @ C[k] for k in range(X.shape[0])]
        outs = ctx.model([request(cfg, atok, raws, cterms[k], X[k]) for k in range(X.shape[0])], GROUP)
        for k, o in enumerate(outs):
            x, c = X[k], (None if C is None else C[k])
            ut.count((sha(cfg), sha(x.tolist())), nontrivial=cfg["depth"] >= 1, tag=tag)
            if o.startswith("ERR"):
                my, mterms, mld = None, None, None
            else:
                sy, st, sl = o.split(" ")
                my, mterms, mld = parse_vec(sy), parse_vec(st), fparse(sl)
            sat = cfg["act"] == "calltanh" and hidden_preacts(ub, x, c, cfg["act"]) > 5.0
            ok_y = my is not None and vclose(my, Y[k], 1e-9)
            ok_ld = my is not None and (sat or close(mld, LD[k], 1e-9))
            if ok_y and ok_ld:
                if oracle_budget > 0 and cfg["depth"] >= 1 and k == 0 and ci % 2 == 0:
                    oracle_budget -= 1
                    errs = oracle_errors(cfg, b, x, c)
                    uo.count((sha(cfg), sha(x.tolist())), nontrivial=cfg["depth"] >= 1, tag=tag)
                    if errs:
                        uo.disagreements += 1
                        ctx.violation(sig=f"BlockAutoregressiveNetwork.transform_and_log_det:oracle:{cfg['act']}",
                                      what=f"BlockAutoregressiveNetwork{cfg}: " + "; ".join(errs), case=_case(cfg, atok, raws, cterms[k], x, c, CW), found_input=True,
                                      unit=uo.name, broken="autodiff oracle of C02 on BlockAutoregressiveNetwork")
                continue
            # confirm on the un-jitted, un-batched method before reporting
            try:
                ye, lde = eager_eval(b, x, c)
            except Exception as e:  # pragma: no cover
                ye, lde = Y[k], float(LD[k])
            ok_y = my is not None and vclose(my, ye, 1e-9)
            ok_ld = my is not None and (sat or close(mld, lde, 1e-9))
            if ok_y and ok_ld:
                continue
            ut.disagreements += 1
            which = "value" if not ok_y else "log_det"
            sig0 = (cfg["act"], which)
            if sig0 in reported:
                for v in ctx.violations:
                    if v["sig"].startswith(f"BlockAutoregressiveNetwork.transform_and_log_det:{which}:{cfg['act']}:"):
                        v["count"] += 1
                continue
            reported.add(sig0)
            errs = oracle_errors(cfg, b, x, c)
            uo.count((sha(cfg), sha(x.tolist())), nontrivial=cfg["depth"] >= 1, tag=tag)
            if not errs:  # around the case
                for x2 in (x + 1e-3, x - 1e-3, 0.5 * x):
                    errs = oracle_errors(cfg, b, x2, c)
                    if errs:
                        break
            ctx.violation(sig=f"BlockAutoregressiveNetwork.transform_and_log_det:{which}:{cfg['act']}:{'oracle' if errs else 'model-mismatch'}",
                          what=(f"BlockAutoregressiveNetwork{cfg}: " + "; ".join(errs)) if errs else
                               f"BlockAutoregressiveNetwork{cfg}.transform_and_log_det at x = {x.tolist()}, condition = {None if c is None else c.tolist()}: "
                               f"{which} {ye.tolist() if which == 'value' else lde!r} but the model (coq/Model/BnafLd.v on the raw leaves) computes "
                               f"{my if which == 'value' else mld!r} (per-coordinate terms {mterms})",
                          case=_case(cfg, atok, raws, cterms[k], x, c, CW), found_input=bool(errs), unit=ut.name,
                          expected=str(dict(y=my, terms=mterms, log_det=mld))[:600], observed=str(dict(y=ye.tolist(), log_det=lde))[:600],
                          broken="correspondence bnafld-tie (coq/Model/BnafLd.v) / X02_bnaf_reported_term_is_own_derivative, X02_bnaf_reported_ldj_is_ln_det",
                          reproducer="cd /verif && ./check C02 --replay <this file>")
    if skipped:
        ctx.notes.append(f"bnafld: wrapper tree / activation of {skipped} networks not recognised; not compared there")
    ctx.notes.append(f"bnafld units: {time.time() - t_start:.1f} s")


def replay_case(ctx, rep):
    """Re-run one stored case against the current tree; True iff the implementation agrees with the model (and the oracle) on it."""
    L = lib()
    c = rep["case"]
    if c.get("kind") == "bnafld-lme":
        x = np.asarray(c["x"], dtype=float)
        y = np.asarray([[fparse(v) for v in row] for row in c["y"]], dtype=float)
        real = np.asarray(L["M"].logmatmulexp(L["jnp"].asarray(x), L["jnp"].asarray(y)), dtype=float)
        o = ctx.model([f"lme {fmat(x)} {fmat(y)}"], GROUP)[0]
        return (not o.startswith("ERR")) and vclose(np.asarray(parse_mat(o), dtype=float).reshape(real.shape), real, 1e-9)
    cfg = c["cfg"]
    b = build(cfg)
    eqx = L["eqx"]
    jnp = L["jnp"]
    raws = [(np.asarray(a, dtype=float), np.asarray(bb, dtype=float), np.asarray(s, dtype=float), np.asarray(bi, dtype=float))
            for a, bb, s, bi in zip(c["w1"], c["w2"], c["scale_raw"], c["bias"])]
    for k, (w1, w2, sc, bi) in enumerate(raws):  # put the recorded raw leaves into the freshly built network
        b = eqx.tree_at(lambda t: t.layers[k][0].weight.weight.if_true.arr.if_true, b, jnp.asarray(w1))
        b = eqx.tree_at(lambda t: t.layers[k][0].weight.weight.if_false.if_true, b, jnp.asarray(w2))
        b = eqx.tree_at(lambda t: t.layers[k][0].weight.scale.arr, b, jnp.asarray(sc)[:, None])
        b = eqx.tree_at(lambda t: t.layers[k][0].bias, b, jnp.asarray(bi))
    x = np.asarray(c["x"], dtype=float)
    cond = None if c.get("condition") is None else np.asarray(c["condition"], dtype=float)
    if cond is not None:
        if c.get("cond_weight") is not None:
            b = eqx.tree_at(lambda t: t.cond_linear.weight, b, jnp.asarray(np.asarray(c["cond_weight"], dtype=float)))
        cterm = np.asarray(L["unwrap"](b).cond_linear.weight, dtype=float) @ cond
    else:
        cterm = None
    atok, _ = act_token(b)
    ye, lde = eager_eval(b, x, cond)
    o = ctx.model([request(cfg, atok, raws, cterm, x)], GROUP)[0]
    if o.startswith("ERR"):
        return False
    sy, st, sl = o.split(" ")
    ok = vclose(parse_vec(sy), ye, 1e-9) and close(fparse(sl), lde, 1e-9)
    return ok and not oracle_errors(cfg, b, x, cond)
