"""Float32 oracle for C10, run as a subprocess WITHOUT jax_enable_x64 (JAX's default mode; the main harness runs in x64):
_bisection_search must return the root to within max(tol, float32 resolution at the root's magnitude).  Prints one JSON line
per checked case: {"case": ..., "err": ..., "allowed": ..., "ok": bool}.  (Seeded change C10c floored tol at float32 eps.)"""
import json
import os
import sys

import numpy as np

sys.path.insert(0, os.environ.get("VERIF_REPO", "/repo"))
import jax
import jax.numpy as jnp

from flowjax.bisection_search import _bisection_search

assert not jax.config.jax_enable_x64
seed = int(sys.argv[1]) if len(sys.argv) > 1 else 0
rng = np.random.default_rng(seed)
shapes = {
    "lin": lambda r, k: (lambda x: k * (x - r)),
    "cubic": lambda r, k: (lambda x: (x - r) ** 3 + k * (x - r)),
    "sinh": lambda r, k: (lambda x: jnp.sinh(k * (x - r))),
}
n = int(sys.argv[2]) if len(sys.argv) > 2 else 60
for i in range(n):
    name = list(shapes)[i % 3]
    r = float(np.float32(rng.choice([1.0, -1.0]) * 10 ** rng.uniform(-3, 0.5)))
    k = float(np.float32(10 ** rng.uniform(-0.3, 1.5)))
    w = float(np.float32(10 ** rng.uniform(-2.5, 0.5)))
    lo = float(np.float32(r - w * rng.uniform(0.05, 0.95)))
    hi = float(np.float32(lo + w))
    tol = float(rng.choice([1e-5, 1e-6, 1e-7, 3e-8, 1e-8, 3e-9]))
    f = shapes[name](jnp.float32(r), jnp.float32(k))
    root, *_ = _bisection_search(f, lower=jnp.float32(lo), upper=jnp.float32(hi), tol=tol, max_iter=200)
    root = float(root)
    ulp = float(np.spacing(np.float32(max(abs(r), abs(lo), abs(hi)))))
    allowed = max(tol, 0.0) + 4.0 * ulp
    err = abs(root - r)
    print(json.dumps(dict(case=dict(shape=name, r=r, k=k, lower=lo, upper=hi, tol=tol), root=root, err=err, allowed=allowed, ok=bool(err <= allowed))))
