"""Argument-coverage units (search level, implementation only): every public constructor / function parameter of flowjax that the
per-property harnesses never pass a NON-DEFAULT value or a documented TYPE VARIANT of (table: harness/ARGCOV.md) is exercised here with
the property's own oracle.  `run_units(ctx, prop)` for prop in PROPS.  Numeric arguments are passed as python int / float, NumPy
scalars (int64 / float32 / float64), 0-d NumPy / jax arrays and float32 jax arrays under x64 (`K(v, kind)`); a type variant must
behave as the python-float object does (the documented type, covered by the per-property harness) and meet the property's oracle.
Variants that fail on the unchanged tree are listed in ARGCOV.md ("defect candidates") and are kept out of the units."""

import numpy as np

from harness import leaves as lv

PROPS = ("C01", "C02", "C03", "C05", "C06", "C07", "C08", "C11", "C12", "C13", "C14", "C15", "C16", "C17", "C18")
INT_KINDS = ("pyint", "np.int64", "np0dint", "jaxint")
FLT_KINDS = ("pyfloat", "np.float64", "np.float32", "np0d", "jax0d", "jaxf32")
NOJAX = tuple(k for k in INT_KINDS + FLT_KINDS if "jax" not in k)


def _L():
    L = lv.lib()
    if "D" not in L:
        import flowjax.distributions as D
        import flowjax.flows as F
        import flowjax.wrappers as W

        L.update(D=D, F=F, W=W)
    return L


def K(v, kind):
    """The number v written as the caller might pass it."""
    jnp = _L()["jnp"]
    return {"pyint": lambda: int(v), "np.int64": lambda: np.int64(v), "np0dint": lambda: np.asarray(int(v)), "jaxint": lambda: jnp.asarray(int(v)),
            "pyfloat": lambda: float(v), "np.float64": lambda: np.float64(v), "np.float32": lambda: np.float32(v), "np0d": lambda: np.asarray(float(v)),
            "jax0d": lambda: jnp.asarray(float(v)), "jaxf32": lambda: jnp.asarray(v, dtype=jnp.float32)}[kind]()


def kind_of(rng, v, allowed=None):
    """A random type variant compatible with the value (integer kinds only for integral values)."""
    ks = [k for k in (INT_KINDS if float(v) == int(v) else ()) + FLT_KINDS if allowed is None or k in allowed]
    return ks[int(rng.integers(0, len(ks)))]


def ktol(*kinds):
    return 2e-6 if any("32" in k for k in kinds) else 1e-11


def _viol(ctx, u, prop, sig, what, case):
    ctx.violation(sig=f"argcov:{sig}", what=what, case=dict(unit=u.name, **case), found_input=True, unit=u.name, broken=f"{prop}: {u.name}")


def _np(v):
    return np.asarray(v, dtype=float)


def _call(f, x, c):
    return f(x) if c is None else f(x, c)


# ------------------------------------------------------------------ catalogue: bijections built with non-default arguments / type variants
def _num(rng, lo, hi, ints=True, allowed=None):
    """(value, kind): a multiple of 1/8 in [lo, hi] (exact in float32), an integer if an integer kind is drawn."""
    kinds = [k for k in ((INT_KINDS if ints else ()) + FLT_KINDS) if allowed is None or k in allowed]
    kind = kinds[int(rng.integers(0, len(kinds)))]
    if kind in INT_KINDS:
        return float(rng.integers(int(np.ceil(lo)), int(np.floor(hi)) + 1)), kind
    return float(rng.integers(int(np.ceil(lo * 8)), int(np.floor(hi * 8)) + 1)) / 8.0, kind


def _arr(rng, a, how):
    """An array argument as the caller might hold it: NumPy float64 / float32 / integer (rounded), jax float32, jax float64."""
    jnp = _L()["jnp"]
    a = np.round(np.asarray(a, dtype=float) * 8) / 8
    return {"np64": lambda: a, "np32": lambda: a.astype(np.float32), "npint": lambda: np.round(a).astype(np.int64), "jaxint": lambda: jnp.asarray(np.round(a).astype(np.int32)),
            "jax32": lambda: jnp.asarray(a, dtype=jnp.float32), "jax64": lambda: jnp.asarray(a)}[how]()


ARR_HOW = ("np64", "np32", "npint", "jaxint", "jax32", "jax64")


def _set_rqs(b, rng, knots):
    eqx, jnp = _L()["eqx"], _L()["jnp"]
    raw = tuple(jnp.asarray(rng.normal(0, 0.8, n)) for n in (knots, knots, knots + 2))
    return lambda o: eqx.tree_at(lambda s: (s.x_pos.args[0], s.y_pos.args[0], s.derivatives.args[0]), o, raw)


def leaf_entries(ctx):
    """name, bij (built with type variants), ref (same numbers as python floats / float64 jax arrays, or None), den(x) -> y or None, case."""
    from harness import c07

    L = _L()
    B, jnp, jr, eqx = L["B"], L["jnp"], L["jr"], L["eqx"]
    rng, out = ctx.rng, []

    def add(name, bij, ref=None, den=None, tol=1e-11, jit=True, **case):
        out.append(dict(name=name, bij=bij, ref=ref, den=den, tol=tol, case=case, grp="leaf", jit=jit))

    for _ in range(2):
        (l, lk), (s, sk) = _num(rng, -3, 3), _num(rng, 0.25, 4)
        add("Affine(scalar loc, scalar scale)", B.Affine(K(l, lk), K(s, sk)), B.Affine(l, s), lambda x, l=l, s=s: s * x + l, ktol(lk, sk), loc=l, scale=s, kinds=[lk, sk])
        add("Loc(scalar)", B.Loc(K(l, lk)), B.Loc(l), lambda x, l=l: x + l, ktol(lk), loc=l, kinds=[lk])
        add("Scale(scalar)", B.Scale(K(s, sk)), B.Scale(s), lambda x, s=s: s * x, ktol(sk), scale=s, kinds=[sk])
        hl, hs = ARR_HOW[int(rng.integers(0, 6))], ARR_HOW[int(rng.integers(0, 6))]
        la, sa = _arr(rng, rng.normal(0, 2, (3,)), hl), _arr(rng, rng.uniform(1, 4, (2, 1)), hs)
        add("Affine(array loc, array scale)", B.Affine(la, sa), B.Affine(jnp.asarray(_np(la)), jnp.asarray(_np(sa))), lambda x, la=_np(la), sa=_np(sa): sa * x + la,
            loc=_np(la).tolist(), scale=_np(sa).tolist(), kinds=[hl, hs])
        add("Scale(array)", B.Scale(sa), B.Scale(jnp.asarray(_np(sa))), lambda x, sa=_np(sa): sa * x, scale=_np(sa).tolist(), kinds=[hs])
        d, lower, ha = int(rng.integers(2, 5)), bool(rng.integers(0, 2)), ARR_HOW[int(rng.integers(0, 6))]
        a = rng.normal(0, 1.5, (d, d))
        a[np.diag_indices(d)] = rng.uniform(1, 4, d)
        a = _arr(rng, a, ha)
        A = np.tril(_np(a)) if lower else np.triu(_np(a))
        add(f"TriangularAffine(scalar loc, arr, lower={lower})", B.TriangularAffine(K(l, lk), a, lower=lower), B.TriangularAffine(l, jnp.asarray(_np(a)), lower=lower),
            lambda x, A=A, l=l: A @ x + l, ktol(lk), loc=l, arr=_np(a).tolist(), lower=lower, kinds=[lk, ha])
        m, mk = _num(rng, 1, 4)
        shape = [(), (3,), (2, 2)][int(rng.integers(0, 3))]
        add("LeakyTanh(max_val, shape)", B.LeakyTanh(K(m, mk), shape), B.LeakyTanh(m, shape), lambda x, m=m: c07.ref_leaky_tanh(m, x), ktol(mk), max_val=m, shape=list(shape), kinds=[mk])
        # spline: knots / interval / min_derivative / softmax_adjust in every type variant, scalar and tuple interval, integer interval ends
        kn, knk = _num(rng, 2, 9, allowed=INT_KINDS)
        (md, mdk), (sadj, sak) = _num(rng, 0.125, 0.75, ints=False), _num(rng, 0, 2, allowed=INT_KINDS + ("pyfloat", "np.float64", "np.float32", "np0d"))
        if rng.integers(0, 2):
            (iv, ivk) = _num(rng, 1, 5)
            iarg, iref, ivks = K(iv, ivk), iv, [ivk]
        else:
            (lo, lok), (w, _) = _num(rng, -4, 2), _num(rng, 1, 5)
            hik = kind_of(rng, lo + w)
            iarg, iref, ivks = (K(lo, lok), K(lo + w, hik)), (lo, lo + w), [lok, hik]
        setp = _set_rqs(None, rng, int(kn))
        add("RationalQuadraticSpline(knots, interval, min_derivative, softmax_adjust)",
            setp(B.RationalQuadraticSpline(knots=K(kn, knk), interval=iarg, min_derivative=K(md, mdk), softmax_adjust=K(sadj, sak))),
            setp(B.RationalQuadraticSpline(knots=int(kn), interval=iref, min_derivative=md, softmax_adjust=sadj)), None, ktol(mdk, sak, *ivks),
            knots=int(kn), interval=iref, min_derivative=md, softmax_adjust=sadj, kinds=[knk, *ivks, mdk, sak])
        ns, nsk = _num(rng, 0.25, 3, allowed=NOJAX)
        d = int(rng.integers(1, 4))
        p = rng.normal(0, 1.0, 2 * d + 1)
        setq = lambda o, p=p: eqx.tree_at(lambda q: q.params, o, jnp.asarray(p))
        add("Planar(negative_slope)", setq(B.Planar(jr.PRNGKey(0), dim=d, negative_slope=K(ns, nsk))), setq(B.Planar(jr.PRNGKey(0), dim=d, negative_slope=ns)),
            lambda x, d=d, ns=ns, p=p: c07.ref_planar(p[:d], p[d:2 * d], p[-1], ns, x), ktol(nsk), jit=nsk.startswith("py"), dim=d, negative_slope=ns, params=p.tolist(), kinds=[nsk])
        shape = [(5,), (2, 3), (2, 2, 2)][int(rng.integers(0, 3))]
        perm = rng.permutation(int(np.prod(shape))).reshape(shape)
        how = ["np.int64", "np.int32", "jax.int32"][int(rng.integers(0, 3))]
        parg = perm.astype(np.int64) if how == "np.int64" else perm.astype(np.int32) if how == "np.int32" else jnp.asarray(perm, dtype=jnp.int32)
        add("Permute(permutation)", B.Permute(parg), None, lambda x, perm=perm: x.ravel()[perm.ravel()].reshape(perm.shape), permutation=perm.tolist(), kinds=[how])
    return out


def comb_entries(ctx):
    """Combinators built with tuples, negative / NumPy-typed axes and indices, every documented `idxs` / `in_axes` form, wrapped children,
    reshaped conditions.  den(x, c) -> (y, log_det) is the DEFINITION evaluated with NumPy through the children's own methods."""
    L = _L()
    B, jnp, jr, eqx, W = L["B"], L["jnp"], L["jr"], L["eqx"], L["W"]
    rng, out = ctx.rng, []
    tld = lambda b, x, c=None: tuple(np.asarray(v, dtype=float) for v in b.transform_and_log_det(jnp.asarray(x), None if (c is None or b.cond_shape is None) else jnp.asarray(c)))

    def aff(shape):
        sc = np.exp(rng.normal(0, 0.6, shape)) * rng.choice([-1.0, 1.0], shape)
        return eqx.tree_at(lambda a: a.scale, B.Affine(jnp.asarray(rng.normal(0, 1, shape)), jnp.ones(shape)), jnp.asarray(sc))

    def addc(shape, cshape):
        Wm = jnp.asarray(rng.normal(0, 1, (int(np.prod(shape)), int(np.prod(cshape)))))
        return B.AdditiveCondition(lambda c: (Wm @ c.ravel()).reshape(shape), shape, cshape)

    def add(name, bij, den, shape, cond=None, jit=True, **case):
        out.append(dict(name=name, bij=bij, ref=None, den=den, shape=tuple(shape), cond=cond, tol=1e-11, case=case, grp="comb", jit=jit))

    def parts(kids, x, c, axis, stack):
        xs = np.split(x, len(kids), axis) if stack else np.split(x, np.cumsum([k.shape[axis] for k in kids])[:-1], axis)
        r = [tld(k, np.squeeze(p, axis) if stack else p, c) for k, p in zip(kids, xs)]
        return (np.stack if stack else np.concatenate)([y for y, _ in r], axis), sum(ld for _, ld in r)

    for _ in range(2):
        # Concatenate / Stack: children as a TUPLE, negative axis, one conditional child
        ax = int(rng.integers(-2, 0))
        sizes = [int(v) for v in rng.integers(1, 4, 3)]
        sh = lambda k: (2, k) if ax == -1 else (k, 2)
        kids = (aff(sh(sizes[0])), addc(sh(sizes[1]), (2,)), B.Chain((aff(sh(sizes[2])), B.Tanh(sh(sizes[2])))))
        add(f"Concatenate(tuple, axis={ax})", B.Concatenate(kids, axis=ax), lambda x, c, kids=kids, ax=ax: parts(kids, x, c, ax, False),
            np.concatenate([np.zeros(k.shape) for k in kids], ax).shape, (2,), axis=ax, child_shapes=[list(k.shape) for k in kids])
        ax = int(rng.integers(-3, 0))
        kids = (aff((2, 3)), addc((2, 3), (2,)), B.Invert(aff((2, 3))))
        add(f"Stack(tuple, axis={ax})", B.Stack(kids, axis=ax), lambda x, c, kids=kids, ax=ax: parts(kids, x, c, ax, True),
            np.stack([np.zeros(k.shape) for k in kids], ax).shape, (2,), axis=ax)
        # Chain: a tuple with wrapped (NonTrainable) members; __getitem__ with negative ints and stepped / reversed slices
        lay = (aff((3,)), W.NonTrainable(aff((3,))), W.non_trainable(B.LeakyTanh(2, (3,))), addc((3,), (2, 2)), B.Invert(B.LeakyTanh(1.5, (3,))), B.Flip((3,)))
        ch = B.Chain(lay)

        def seq(layers):
            def f(x, c):
                ld = 0.0
                for b in layers:
                    x, l1 = tld(W.unwrap(b), x, c)
                    ld = ld + l1
                return x, ld
            return f
        add("Chain(tuple with wrapped members)", ch, seq(lay), (3,), (2, 2))
        sl = [slice(-3, None), slice(None, None, 2), slice(1, 5, 3), slice(None, None, -1), slice(-1, 1, -2), slice(3, 4)][int(rng.integers(0, 6))]
        sub = ch[sl]
        add(f"Chain[{sl.start}:{sl.stop}:{sl.step}]", sub, seq(lay[sl]), (3,), W.unwrap(sub).cond_shape, expect_len=len(lay[sl]), got_len=len(sub))
        i = int(rng.integers(-6, 0))
        add(f"Chain[{i}]", W.unwrap(ch[i]), seq((lay[i],)), (3,), W.unwrap(lay[i]).cond_shape)
        # Vmap: in_axes as int / callable / pytree (doc example: shared scale, per-element loc); in_axes_condition of both signs
        n = int(rng.integers(2, 5))
        locs, scs = rng.normal(0, 1, n), np.exp(rng.normal(0, 0.5, n))
        kid = eqx.filter_vmap(lambda l, s: B.Affine(l, s))(jnp.asarray(locs), jnp.asarray(scs))
        den = lambda x, c, locs=locs, scs=scs: (scs * x + locs, np.sum(np.log(scs)))
        add("Vmap(in_axes=0)", B.Vmap(kid, in_axes=0), den, (n,))
        add("Vmap(in_axes=callable)", B.Vmap(kid, in_axes=lambda leaf: 0 if eqx.is_array(leaf) else None), den, (n,))
        one = eqx.tree_at(lambda a: a.loc, B.Affine(0.0, float(scs[0])), jnp.asarray(locs))
        ia = eqx.tree_at(lambda a: a.loc, L["jax"].tree_util.tree_map(lambda _: None, W.unwrap(one)), 0, is_leaf=lambda v: v is None)
        add("Vmap(in_axes=pytree)", B.Vmap(one, in_axes=ia), lambda x, c, locs=locs, s0=float(scs[0]), n=n: (s0 * x + locs, n * np.log(s0)), (n,))
        cax = int(rng.integers(-3, 3))
        kidc = addc((2,), (3, 2))
        pos = range(3)[cax]

        def vden(x, c, kidc=kidc, pos=pos, n=n):
            r = [tld(kidc, x[i], np.take(c, i, axis=pos)) for i in range(n)]
            return np.stack([y for y, _ in r]), sum(ld for _, ld in r)
        add(f"Vmap(axis_size, in_axes_condition={cax})", B.Vmap(kidc, axis_size=n, in_axes_condition=cax), vden, (n, 2), tuple(np.insert(np.zeros(()) + [3, 2], pos, n).astype(int)), in_axes_condition=cax)
        # Partial: every documented idxs form
        forms = [("int", 1, (4, 2)), ("negative int", -1, (4, 2)), ("np.int64", np.int64(2), (4, 2)), ("0-d jax int", jnp.asarray(1), (4, 2)), ("stepped slice", slice(0, 4, 2), (4,)),
                 ("negative-step slice", slice(None, None, -2), (5,)), ("NumPy int array", np.array([3, 0]), (4,)), ("jax int array (negative)", jnp.asarray([-1, 1]), (4, 2)),
                 ("tuple (slice, int)", (slice(None), 0), (3, 2)), ("tuple (int, slice)", (-1, slice(0, 2)), (2, 3)), ("Ellipsis tuple", (Ellipsis, 1), (2, 2, 2)),
                 ("NumPy bool mask", np.array([True, False, True, True]), (4,)), ("jax bool mask", jnp.asarray([False, True, True, False, False]), (5,))]
        for j in rng.choice(len(forms), 5, replace=False):
            fn, idx, shp = forms[int(j)]
            kid = aff(np.zeros(shp)[np.asarray(idx) if hasattr(idx, "dtype") else idx].shape)
            nidx = np.asarray(idx) if hasattr(idx, "dtype") else idx

            def pden(x, c, kid=kid, nidx=nidx):
                y, ld = tld(kid, x[nidx])
                out_ = np.array(x, dtype=float)
                out_[nidx] = y
                return out_, ld
            add(f"Partial(idxs: {fn})", B.Partial(kid, idx, shp), pden, shp, None, jit="bool" not in fn, idxs=str(idx))
        # Reshape (shape and cond_shape), EmbedCondition (raw_cond_shape), Invert of a conditional child
        kidc = addc((6,), (4,))
        csh = [(2, 2), (4, 1), None][int(rng.integers(0, 3))]
        add(f"Reshape(shape=(2,3), cond_shape={csh})", B.Reshape(kidc, (2, 3), csh), lambda x, c, kidc=kidc: (lambda r: (r[0].reshape(2, 3), r[1]))(tld(kidc, x.reshape(6), c.reshape(4))),
            (2, 3), csh or (4,), cond_shape=csh)
        add("Reshape(shape=None, cond_shape=(1,4))", B.Reshape(kidc, None, (1, 4)), lambda x, c, kidc=kidc: tld(kidc, x, c.reshape(4)), (6,), (1, 4))
        raw = [(5,), (2, 3)][int(rng.integers(0, 2))]
        We = jnp.asarray(rng.normal(0, 1, (4, int(np.prod(raw)))))
        net = lambda c, We=We: jnp.tanh(We @ c.ravel())
        add(f"EmbedCondition(raw_cond_shape={raw})", B.EmbedCondition(kidc, net, raw), lambda x, c, kidc=kidc, net=net: tld(kidc, x, np.asarray(net(jnp.asarray(c)))), (6,), raw)
        add("AdditiveCondition(module -> broadcastable shape)", B.AdditiveCondition(lambda c: jnp.sum(c, keepdims=True), (2, 3), (2,)), lambda x, c: (x + np.sum(c), 0.0), (2, 3), (2,))
    return out



def _inverter(rng, case):
    """AutoregressiveBisectionInverter with lower / upper in every numeric type variant and non-default tol / max_iter."""
    from flowjax.bisection_search import AutoregressiveBisectionInverter as ABI

    (lo, lok), (hi, hik) = _num(rng, -12, -2), _num(rng, 1, 9)
    tol, mi = [1e-9, 1e-10, 3e-8][int(rng.integers(0, 3))], int(rng.integers(80, 300))
    case.update(inverter=dict(lower=lo, upper=hi, tol=tol, max_iter=mi, kinds=[lok, hik]))
    return ABI(lower=K(lo, lok), upper=K(hi, hik), tol=tol, max_iter=mi), tol


def net_entries(ctx, flows=True):
    """Conditioner-network layers and flow factories with non-default keywords: nn_activation, nn_depth 0 / 2, tiny widths, unusual
    untransformed_dim, transformers (spline with integer tuple interval, Affine with a frozen loc, a Chain), BNAF activation as a
    callable / bijection, depth 0 / 2, custom inverter, invert=False, planar MLP keywords, tanh_max_val variants, custom init."""
    from harness import flowcases

    L = _L()
    B, jnp, jr, eqx, W, D, F, jax = L["B"], L["jnp"], L["jr"], L["eqx"], L["W"], L["D"], L["F"], L["jax"]
    rng, out = ctx.rng, []

    def perturb(obj, rng, scale):  # LeakyTanh nodes are kept: a NumPy-typed max_val leaves NumPy floats in its (non-parameter) fields
        lts = lambda t: [n for n in jax.tree_util.tree_leaves(t, is_leaf=lambda n: isinstance(n, B.LeakyTanh)) if isinstance(n, B.LeakyTanh)]
        new = flowcases.perturb(obj, rng, scale)
        return eqx.tree_at(lts, new, lts(obj)) if lts(obj) else new
    key = lambda: jr.PRNGKey(int(rng.integers(0, 2 ** 31)))
    acts = [("tanh", jnp.tanh), ("softplus", jax.nn.softplus), ("elu", jax.nn.elu)]

    def transformer():
        j = int(rng.integers(0, 4))
        if j == 0:
            lo = int(rng.integers(-3, 0))
            return f"RQS(knots=3, interval=({lo}, 2))", B.RationalQuadraticSpline(knots=3, interval=(lo, 2))
        if j == 1:
            return "Affine with NonTrainable loc", eqx.tree_at(lambda a: a.loc, B.Affine(0.0, 1.5), W.NonTrainable(jnp.asarray(0.25)))
        if j == 2:
            return "Chain((Affine, LeakyTanh(2)))", B.Chain((B.Affine(), B.LeakyTanh(2)))
        return "Scale(2)", B.Scale(2)

    def add(name, obj, tol=1e-6, dist=None, **case):
        out.append(dict(name=name, bij=obj, ref=None, den=None, tol=tol, case=case, grp="net", dist=dist, jit=True))

    for _ in range(2):
        (an, act), depth, width = acts[int(rng.integers(0, 3))], int(rng.choice([0, 2, 3])), int(rng.integers(1, 5))
        dim, cd = int(rng.integers(2, 6)), [None, 1, 3][int(rng.integers(0, 3))]
        ud = int(rng.choice([1, dim - 1]))
        tn, tr = transformer()
        add("Coupling(transformer, untransformed_dim, nn_depth, nn_width, nn_activation)", perturb(B.Coupling(key(), transformer=tr, untransformed_dim=ud, dim=dim, cond_dim=cd, nn_width=width,
            nn_depth=depth, nn_activation=act), rng, 0.5), transformer=tn, untransformed_dim=ud, dim=dim, cond_dim=cd, nn_width=width, nn_depth=depth, nn_activation=an)
        (an, act), depth, dim, cd = acts[int(rng.integers(0, 3))], int(rng.choice([0, 2, 3])), int(rng.integers(1, 5)), [None, 1, 2][int(rng.integers(0, 3))]
        width = int(rng.integers(max(dim, 2), dim + 4))
        tn, tr = transformer()
        add("MaskedAutoregressive(transformer, nn_depth, nn_width, nn_activation)", perturb(B.MaskedAutoregressive(key(), transformer=tr, dim=dim, cond_dim=cd, nn_width=width, nn_depth=depth,
            nn_activation=act), rng, 0.5), transformer=tn, dim=dim, cond_dim=cd, nn_width=width, nn_depth=depth, nn_activation=an)
        case = dict(dim=int(rng.integers(1, 4)), cond_dim=[None, 2][int(rng.integers(0, 2))], depth=int(rng.choice([0, 2, 3])), block_dim=int(rng.integers(1, 4)))
        inv, tol = _inverter(rng, case)
        m, mk = _num(rng, 1, 3, allowed=NOJAX)
        an, act = [("callable x + tanh(x)/2", lambda x: x + 0.5 * jnp.tanh(x)), (f"LeakyTanh({m}) [{mk}]", B.LeakyTanh(K(m, mk))), ("callable leaky_relu", lambda x: jax.nn.leaky_relu(x, 0.3))][int(rng.integers(0, 3))]
        add("BlockAutoregressiveNetwork(depth, block_dim, activation, inverter)", perturb(B.BlockAutoregressiveNetwork(key(), dim=case["dim"], cond_dim=case["cond_dim"], depth=case["depth"],
            block_dim=case["block_dim"], activation=act, inverter=inv), rng, 0.3), tol=200 * tol, activation=an, **case)
    if not flows:
        return out
    for _ in range(1 if ctx.quick else 3):
        base = lambda d: D.StandardNormal((d,))
        (an, act), depth, dim, cd, nl = acts[int(rng.integers(0, 3))], int(rng.choice([0, 2])), int(rng.integers(2, 5)), [None, 2][int(rng.integers(0, 2))], int(rng.integers(1, 4))
        tn, tr = transformer()
        fl = perturb(F.coupling_flow(key(), base_dist=base(dim), transformer=tr, cond_dim=cd, flow_layers=nl, nn_width=3, nn_depth=depth, nn_activation=act, invert=False), rng, 0.3)
        add("coupling_flow(invert=False, transformer, nn_depth, nn_activation)", fl.bijection, dist=fl, dim=dim, transformer=tn, cond_dim=cd, flow_layers=nl, nn_depth=depth, nn_activation=an, invert=False)
        (an, act), depth, dim, cd, nl = acts[int(rng.integers(0, 3))], int(rng.choice([0, 2])), int(rng.integers(1, 4)), [None, 2][int(rng.integers(0, 2))], int(rng.integers(1, 4))
        tn, tr = transformer()
        fl = perturb(F.masked_autoregressive_flow(key(), base_dist=base(dim), transformer=tr, cond_dim=cd, flow_layers=nl, nn_width=dim + 2, nn_depth=depth, nn_activation=act, invert=False), rng, 0.3)
        add("masked_autoregressive_flow(invert=False, transformer, nn_depth, nn_activation)", fl.bijection, dist=fl, dim=dim, transformer=tn, cond_dim=cd, flow_layers=nl, nn_depth=depth, nn_activation=an, invert=False)
        case = dict(dim=int(rng.integers(1, 4)), cond_dim=[None, 2][int(rng.integers(0, 2))], nn_depth=int(rng.choice([0, 2])), nn_block_dim=int(rng.integers(1, 4)), flow_layers=int(rng.integers(1, 3)),
                    invert=bool(rng.integers(0, 2)))
        inv, tol = _inverter(rng, case)
        fl = perturb(F.block_neural_autoregressive_flow(key(), base_dist=base(case["dim"]), cond_dim=case["cond_dim"], nn_depth=case["nn_depth"], nn_block_dim=case["nn_block_dim"],
                                                        flow_layers=case["flow_layers"], invert=case["invert"], activation=lambda x: x + 0.5 * jnp.tanh(x), inverter=inv), rng, 0.3)
        add("block_neural_autoregressive_flow(nn_depth, activation=callable, inverter, invert)", fl.bijection, tol=1000 * tol, dist=fl, **case)
        ns, nsk = _num(rng, 0.25, 3, allowed=("pyint", "pyfloat"))
        dim, cd, nl = int(rng.integers(1, 4)), [None, 2][int(rng.integers(0, 2))], int(rng.integers(1, 4))
        kw = {} if cd is None else dict(width_size=int(rng.integers(1, 4)), depth=int(rng.choice([0, 2])), activation=jnp.tanh, final_activation=[jnp.tanh, lambda v: v][int(rng.integers(0, 2))],
                                        use_bias=bool(rng.integers(0, 2)), use_final_bias=bool(rng.integers(0, 2)))
        fl = perturb(F.planar_flow(key(), base_dist=base(dim), cond_dim=cd, flow_layers=nl, invert=False, negative_slope=K(ns, nsk), **kw), rng, 0.4)
        add("planar_flow(invert=False, negative_slope, **mlp_kwargs)", fl.bijection, dist=fl, dim=dim, cond_dim=cd, flow_layers=nl, negative_slope=ns, kinds=[nsk], invert=False,
            mlp_kwargs={k: (v if isinstance(v, (int, bool)) else "fn") for k, v in kw.items()})
        (m, mk), dim, cd, nl, kn = _num(rng, 1, 4, allowed=NOJAX), int(rng.integers(1, 4)), [None, 2][int(rng.integers(0, 2))], int(rng.integers(1, 3)), int(rng.integers(2, 6))
        init = [jax.nn.initializers.normal(0.5), lambda k, shape: 0.3 * jr.uniform(k, shape, minval=-1.0)][int(rng.integers(0, 2))]
        fl = perturb(F.triangular_spline_flow(key(), base_dist=base(dim), cond_dim=cd, flow_layers=nl, knots=kn, tanh_max_val=K(m, mk), invert=bool(rng.integers(0, 2)), init=init), rng, 0.3)
        add("triangular_spline_flow(knots, tanh_max_val, init, invert)", fl.bijection, dist=fl, dim=dim, cond_dim=cd, flow_layers=nl, knots=kn, tanh_max_val=m, kinds=[mk])
    return out


# ------------------------------------------------------------------ oracles on bijections
def _xc(rng, b, scale=1.3):
    jnp = _L()["jnp"]
    return jnp.asarray(rng.normal(0, scale, b.shape)), (None if b.cond_shape is None else jnp.asarray(rng.normal(0, 1, b.cond_shape)))


def roundtrip_errs(b, x, x2, c, tol):
    """C01 on the implementation: both round trips (y := transform(x2) is a point of the codomain), conditioning-scaled tolerance as in
    c01.flows_oracle, and-log-det point == plain point."""
    jnp, errs = _L()["jnp"], []
    for d in ("fwd", "inv"):
        a, bk, ald = (b.transform, b.inverse, b.transform_and_log_det) if d == "fwd" else (b.inverse, b.transform, b.inverse_and_log_det)
        what = "inverse(transform(x))" if d == "fwd" else "transform(inverse(y))"
        try:
            p = x if d == "fwd" else _call(b.transform, x2, c)
            mid = _call(a, p, c)
            back, mid2 = _np(_call(bk, mid, c)), _np(_call(ald, p, c)[0])
        except NotImplementedError:
            continue
        except Exception as e:  # noqa: BLE001
            errs.append(f"{what} raised {type(e).__name__}: {str(e)[:100]}")
            continue
        p, m = _np(p), _np(mid)
        if not np.allclose(mid2, m, rtol=1e-12, atol=1e-12, equal_nan=True):
            errs.append(f"{'transform' if d == 'fwd' else 'inverse'}_and_log_det returns the point {np.ravel(mid2).tolist()}, the plain method {np.ravel(m).tolist()}")
        if not (np.all(np.isfinite(m)) and np.all(np.isfinite(p))):
            continue
        err, slack = float(np.max(np.abs(back - p))), 0.0
        base = 50 * tol * (1.0 + float(np.max(np.abs(p))))
        if err > base:
            try:
                d_ = np.abs(_np(_call(bk, jnp.asarray(m * (1 + 4.5e-16) + 1e-300), c)) - _np(_call(bk, jnp.asarray(m * (1 - 4.5e-16) - 1e-300), c)))
                slack = 64.0 * float(np.max(np.where(np.isfinite(d_), d_, 0.0)))
            except Exception:  # noqa: BLE001
                pass
        if not err <= base + slack:
            errs.append(f"{what} is off by {err:.3g} (tolerance {base + slack:.3g}) at {np.ravel(p).tolist()}")
    return errs


def same_as_ref_errs(b, ref, x, c, tol):
    """A type variant of a numeric argument denotes the same object as the python-float one: all four methods agree."""
    errs = []
    for m in ("transform_and_log_det", "inverse_and_log_det"):
        try:
            got, exp = _call(getattr(b, m), x, c), _call(getattr(ref, m), x, c)
        except NotImplementedError:
            continue
        for g, e, w in zip(got, exp, ("point", "log_det")):
            g, e = _np(g), _np(e)
            if np.all(np.isfinite(e)) and not np.allclose(g, e, rtol=tol, atol=tol):
                errs.append(f"{m} {w} {np.ravel(g).tolist()[:4]} differs from the python-float object's {np.ravel(e).tolist()[:4]} at x = {np.ravel(_np(x)).tolist()[:4]}")
    return errs


def _entries(ctx, groups):
    out = []
    for g in groups:
        out += {"leaf": leaf_entries, "comb": comb_entries, "net": net_entries, "layers": lambda c: net_entries(c, flows=False)}[g](ctx)
    return out


def _analytic(e):
    """The orientation whose transform is analytic (BNAF: the numerically inverted side cannot be differentiated / is slow)."""
    B = _L()["B"]
    b = e["bij"]
    if e["name"].startswith("block_neural") and not e["case"]["invert"]:
        return b
    return B.Invert(b) if e["name"].startswith("block_neural") else b


def unit_c01(ctx):
    u = ctx.unit("argcov-roundtrip", "bijections built with non-default keywords / argument type variants (leaves, combinators, conditioner layers, flow factories): both "
                                     "round trips with conditioning-scaled tolerance, and-log-det point = plain point, type variant = python-float object; non-trivial = all")
    rng = ctx.rng
    for e in _entries(ctx, ("leaf", "comb", "net")):
        b = e["bij"]
        for rep in range(2):
            (x, c), (x2, _) = _xc(rng, b, 1.5 if rep else 0.7), _xc(rng, b)
            if "LeakyTanh" in e["name"] and rep:
                x = x + np.sign(_np(x)) * e["case"]["max_val"]  # the linear tails
            u.count((e["name"], e["case"], rep, _np(x).tolist()), tag=e["name"].split("(")[0])
            errs = roundtrip_errs(b, x, x2, c, e["tol"] if e["grp"] == "net" else 1e-9)
            if e["ref"] is not None:
                errs += same_as_ref_errs(b, e["ref"], x, c, e["tol"])
            if errs:
                _viol(ctx, u, "C01", f"C01:{e['name']}", f"{e['name']} built with {e['case']}: " + "; ".join(errs[:2]), dict(entry=e["name"], args=e["case"], x=_np(x).tolist(),
                      condition=None if c is None else _np(c).tolist()))


def unit_c02(ctx):
    from harness import c02

    u = ctx.unit("argcov-autodiff-logdet", "same objects: log_det vs slogdet(jax.jacobian(transform)) + inverse law + scalar-ness (c02.autodiff_errors); type variant = "
                                           "python-float object; non-trivial = all")
    rng = ctx.rng
    for e in _entries(ctx, ("leaf", "comb", "net")):
        b = _analytic(e)
        for rep in range(2 if e["grp"] != "net" else 1):
            x, c = _xc(rng, b, 1.2)
            if "LeakyTanh" in e["name"] and rep:
                x = x + np.sign(_np(x)) * e["case"]["max_val"]
            u.count((e["name"], e["case"], rep, _np(x).tolist()), tag=e["name"].split("(")[0])
            try:
                errs = c02.autodiff_errors(None, b, _np(x), None if c is None else _np(c), tol=1e-6)
            except Exception as ex:  # noqa: BLE001
                errs = [f"raised {type(ex).__name__}: {str(ex)[:120]}"]
            if e["ref"] is not None:
                errs += [m for m in same_as_ref_errs(b, e["ref"], x, c, e["tol"]) if "log_det" in m]
            if errs:
                _viol(ctx, u, "C02", f"C02:{e['name']}", f"{e['name']} built with {e['case']}: " + "; ".join(errs[:2]), dict(entry=e["name"], args=e["case"], x=_np(x).tolist(),
                      condition=None if c is None else _np(c).tolist()))
    c02._JAC.clear()


def unit_c07(ctx):
    u = ctx.unit("argcov-documented-function", "elementary bijections built from python ints / NumPy scalars / 0-d arrays / float32 / integer-dtype / NumPy arrays: transform "
                                                "== the documented function (NumPy reference) == the python-float object, incl. LeakyTanh at +-max_val and spline interval ends")
    rng, jnp = ctx.rng, _L()["jnp"]
    for e in leaf_entries(ctx):
        b = e["bij"]
        for rep in range(3):
            x = _np(_xc(rng, b, 2.0)[0])
            if "LeakyTanh" in e["name"] and rep:
                x = np.where(rng.random(x.shape) < 0.5, np.sign(x) * e["case"]["max_val"], x + np.sign(x) * e["case"]["max_val"])
            if "Spline" in e["name"]:
                iv = e["case"]["interval"]
                lo, hi = iv if isinstance(iv, tuple) else (-iv, iv)
                x = np.asarray([lo, hi, np.nextafter(hi, np.inf), rng.uniform(lo, hi), lo - rng.uniform(0, 2)][int(rng.integers(0, 5))]) if rep else x
            u.count((e["name"], e["case"], x.tolist()), tag=e["name"].split("(")[0])
            y, errs = _np(b.transform(jnp.asarray(x))), []
            if e["den"] is not None and not np.allclose(y, _np(e["den"](x)), rtol=max(e["tol"], 1e-9), atol=max(e["tol"], 1e-9)):
                errs.append(f"transform({np.ravel(x).tolist()}) = {np.ravel(y).tolist()}, the documented function gives {np.ravel(_np(e['den'](x))).tolist()}")
            if e["ref"] is not None:
                errs += same_as_ref_errs(b, e["ref"], jnp.asarray(x), None, e["tol"])
            if "Spline" in e["name"] and (float(y) != float(x) if (x < lo or x > hi) else not lo <= float(y) <= hi):
                errs.append(f"spline on [{lo}, {hi}] maps {float(x)!r} to {float(y)!r} (identity outside, onto the interval inside)")
            if errs:
                _viol(ctx, u, "C07", f"C07:{e['name']}", f"{e['name']} built with {e['case']}: " + "; ".join(errs[:2]), dict(entry=e["name"], args=e["case"], x=x.tolist()))


def unit_c08(ctx):
    u = ctx.unit("argcov-combinator-definitions", "Concatenate / Stack from tuples with negative axes, Chain from a tuple with wrapped members and its negative / stepped / reversed "
                                                   "indexing, Vmap with in_axes int / callable / pytree and both signs of in_axes_condition, every documented Partial idxs form, Reshape "
                                                   "cond_shape, EmbedCondition raw_cond_shape: four methods == the definition through the children (NumPy), declared shapes")
    rng, jnp = ctx.rng, _L()["jnp"]
    for e in comb_entries(ctx):
        b = e["bij"]
        errs = []
        if tuple(b.shape) != e["shape"] or b.cond_shape != e["cond"]:
            errs.append(f"declares shape {b.shape} / cond_shape {b.cond_shape}, the definition gives {e['shape']} / {e['cond']}")
        if "expect_len" in e["case"] and e["case"]["expect_len"] != e["case"]["got_len"]:
            errs.append(f"has {e['case']['got_len']} layers, the python slice of the layer tuple has {e['case']['expect_len']}")
        for rep in range(2):
            x = jnp.asarray(rng.normal(0, 1.2, e["shape"]))
            c = None if e["cond"] is None else jnp.asarray(rng.normal(0, 1, e["cond"]))
            u.count((e["name"], e["case"], rep, _np(x).tolist()), tag=e["name"].split("(")[0])
            try:
                yd, ldd = e["den"](_np(x), None if c is None else _np(c))
                (y, ld), y1 = _call(b.transform_and_log_det, x, c), _call(b.transform, x, c)
                (xb, ldi), xb1 = _call(b.inverse_and_log_det, jnp.asarray(yd), c), _call(b.inverse, jnp.asarray(yd), c)
                for nm, got, exp in (("transform_and_log_det point", y, yd), ("transform", y1, yd), ("log_det", ld, ldd), ("inverse_and_log_det point", xb, x), ("inverse", xb1, x), ("inverse log_det", ldi, -ldd)):
                    if np.shape(got) != np.shape(exp) or not np.allclose(_np(got), _np(exp), rtol=1e-9, atol=1e-9):
                        errs.append(f"{nm} = {np.ravel(_np(got)).tolist()[:6]}, the definition gives {np.ravel(_np(exp)).tolist()[:6]} at x = {np.ravel(_np(x)).tolist()[:6]}")
            except Exception as ex:  # noqa: BLE001
                errs.append(f"raised {type(ex).__name__}: {str(ex)[:120]}")
            if errs:
                _viol(ctx, u, "C08", f"C08:{e['name'].split('(')[0].split('[')[0]}", f"{e['name']} ({e['case']}): " + "; ".join(errs[:2]), dict(entry=e["name"], args=e["case"], x=_np(x).tolist(),
                      condition=None if c is None else _np(c).tolist()))
                break


def unit_c13(ctx):
    u = ctx.unit("argcov-accept-reject", "same objects (combinators, leaves, layers): a well-formed (x, condition) is accepted and returns exactly the declared shape and a scalar "
                                         "log_det; x of another shape, a missing required condition and a condition of another shape are rejected by all four methods")
    rng, jnp = ctx.rng, _L()["jnp"]
    for e in _entries(ctx, ("comb", "leaf", "layers")):
        b = e["bij"]
        x, c = _xc(rng, b)
        shp, csh = tuple(b.shape), b.cond_shape
        bad_x = [shp + (1,), (2,) + shp, shp[:-1] if shp else (1,), tuple(s + 1 for s in shp) if shp else (2,)]
        bad_c = [] if csh is None else [csh + (1,), (3,) + csh, csh[:-1] if csh else (1,), tuple(s + 1 for s in csh) if csh else (2,)]
        errs = []
        for m in ("transform", "inverse", "transform_and_log_det", "inverse_and_log_det"):
            f = getattr(b, m)
            u.count((e["name"], e["case"], m), tag=m)
            try:
                r = _call(f, x, c)
                pt, ld = r if isinstance(r, tuple) else (r, None)
                if tuple(np.shape(pt)) != shp or (ld is not None and np.shape(ld) != ()):
                    errs.append(f"{m} returns shapes {np.shape(pt)} / {None if ld is None else np.shape(ld)} for the declared shape {shp}")
            except NotImplementedError:
                continue
            except Exception as ex:  # noqa: BLE001
                errs.append(f"{m} rejects a well-formed input (x {shp}, condition {csh}): {type(ex).__name__}: {str(ex)[:80]}")
                continue
            trials = [(jnp.zeros(s), c, f"x of shape {s}") for s in bad_x if s != shp] + [(x, jnp.zeros(s), f"condition of shape {s}") for s in bad_c if s != csh]
            trials += [(x, None, "no condition")] if csh is not None else []
            for xx, cc, what in trials:
                try:
                    _call(f, xx, cc)
                    errs.append(f"{m} accepts {what} (declared shape {shp}, cond_shape {csh})")
                except NotImplementedError:
                    break
                except Exception:  # noqa: BLE001
                    pass
        if errs:
            _viol(ctx, u, "C13", f"C13:{e['name'].split('(')[0].split('[')[0]}", f"{e['name']} ({e['case']}): " + "; ".join(errs[:3]), dict(entry=e["name"], args=e["case"]))


def unit_c14(ctx):
    u = ctx.unit("argcov-jit-vmap", "same objects: each method eagerly == under eqx.filter_jit (object passed as an argument) == jax.vmap over a batch vs a python loop; "
                                    "non-trivial = all (objects with NumPy-typed fields that are known not to trace are listed in ARGCOV.md, not run)")
    L = _L()
    rng, jnp, jax, eqx = ctx.rng, L["jnp"], L["jax"], L["eqx"]
    for e in _entries(ctx, ("leaf", "comb", "net")):
        if not e.get("jit", True):
            continue
        b = e["bij"]
        slow = e["grp"] == "net" and "lock" in e["name"]
        xs, c = jnp.stack([_xc(rng, b)[0] for _ in range(2)]), _xc(rng, b)[1]
        ms = ["transform_and_log_det", "inverse_and_log_det"]  # they subsume the plain methods
        if e["grp"] == "net":  # one direction per layer / flow and run (tracing a flow costs seconds); BNAF: the analytic side
            ms = [ms[int(type(b).__name__ == "Invert")]] if slow else [ms[int(rng.integers(0, 2))]]
        for m in ms:
            f = lambda bb, x, cc, m=m: getattr(bb, m)(x, cc)
            try:
                eager = [f(b, x, c) for x in xs]
            except NotImplementedError:
                continue
            u.count((e["name"], e["case"], m), tag=m)
            errs = []
            try:
                for nm, got, exp in (("eqx.filter_jit", eqx.filter_jit(f)(b, xs[0], c), eager[0]), ("jax.vmap", jax.vmap(lambda x: f(b, x, c))(xs), jax.tree_util.tree_map(lambda *a: jnp.stack(a), *eager))):
                    for g, ex in zip(jax.tree_util.tree_leaves(got), jax.tree_util.tree_leaves(exp)):
                        if np.shape(g) != np.shape(ex) or not np.allclose(_np(g), _np(ex), rtol=1e-8, atol=max(1e-9, 10 * e["tol"] if slow else 0), equal_nan=True):
                            errs.append(f"{m} under {nm} returns {np.ravel(_np(g)).tolist()[:4]}, eagerly {np.ravel(_np(ex)).tolist()[:4]}")
            except Exception as ex:  # noqa: BLE001
                errs.append(f"{m} raises {type(ex).__name__} under jit / vmap ({str(ex)[:90]}) but works eagerly")
            if errs:
                _viol(ctx, u, "C14", f"C14:{e['name'].split('(')[0].split('[')[0]}:{m}", f"{e['name']} built with {e['case']}: " + "; ".join(errs[:2]), dict(entry=e["name"], args=e["case"], method=m,
                      x=_np(xs).tolist(), condition=None if c is None else _np(c).tolist()))


def run_units(ctx, prop):
    return globals()[f"unit_{prop.lower()}"](ctx)
