"""Argument-coverage units (search level, implementation only): every public constructor / function parameter of flowjax that the
per-property harnesses never pass a NON-DEFAULT value or a documented TYPE VARIANT of (table: harness/ARGCOV.md) is exercised here with
the property's own oracle.  `run_units(ctx, prop)` for prop in PROPS.  Numeric arguments are passed as python int / float, NumPy
scalars (int64 / float32 / float64), 0-d NumPy / jax arrays and float32 jax arrays under x64 (`K(v, kind)`); a type variant must
behave as the python-float object does (the documented type, covered by the per-property harness) and meet the property's oracle.
Variants that fail on the unchanged tree are listed in ARGCOV.md ("defect candidates") and are kept out of the units."""

import contextlib

import numpy as np

from harness import leaves as lv

PROPS = ("C01", "C02", "C03", "C05", "C06", "C07", "C08", "C11", "C12", "C13", "C14", "C15", "C16", "C17", "C18")
INT_KINDS = ("pyint", "np.int64", "np0dint", "jaxint")
FLT_KINDS = ("pyfloat", "np.float64", "np.float32", "np0d", "jax0d", "jaxf32")
NOJAX = tuple(k for k in INT_KINDS + FLT_KINDS if "jax" not in k)


def _L():
    L = lv.lib()
    if "D" not in L:
        import flowjax.distributions as D
        import flowjax.flows as F
        import flowjax.wrappers as W

        L.update(D=D, F=F, W=W)
    return L


def K(v, kind):
    """The number v written as the caller might pass it."""
    jnp = _L()["jnp"]
    return {"pyint": lambda: int(v), "np.int64": lambda: np.int64(v), "np0dint": lambda: np.asarray(int(v)), "jaxint": lambda: jnp.asarray(int(v)),
            "pyfloat": lambda: float(v), "np.float64": lambda: np.float64(v), "np.float32": lambda: np.float32(v), "np0d": lambda: np.asarray(float(v)),
            "jax0d": lambda: jnp.asarray(float(v)), "jaxf32": lambda: jnp.asarray(v, dtype=jnp.float32)}[kind]()


_USED = {}  # kind -> how often drawn in this run: the least used admissible kind is drawn next, so every run goes through all of them


def _pick(rng, kinds):
    m = min(_USED.get(k, 0) for k in kinds)
    ks = [k for k in kinds if _USED.get(k, 0) == m]
    k = ks[int(rng.integers(0, len(ks)))]
    _USED[k] = m + 1
    return k


def kind_of(rng, v, allowed=None):
    """A type variant compatible with the value (integer kinds only for integral values)."""
    return _pick(rng, [k for k in (INT_KINDS if float(v) == int(v) else ()) + FLT_KINDS if allowed is None or k in allowed])


def ktol(*kinds):
    """Tolerance where the library computes WITH the argument in its own precision (LeakyTanh slope, spline interval, 1/rate, cholesky, log weights); arguments that are only
    converted (all values used here are multiples of 1/8, exact in float32) must reproduce the python-float object to rounding: 1e-11."""
    return 2e-6 if any("32" in k for k in kinds) else 1e-11


def _viol(ctx, u, prop, sig, what, case):
    ctx.violation(sig=f"argcov:{sig}", what=what, case=dict(unit=u.name, **case), found_input=True, unit=u.name, broken=f"{prop}: {u.name}")


def _np(v):
    return np.asarray(v, dtype=float)


def _call(f, x, c):
    return f(x) if c is None else f(x, c)


# ------------------------------------------------------------------ catalogue: bijections built with non-default arguments / type variants
def _num(rng, lo, hi, ints=True, allowed=None):
    """(value, kind): a multiple of 1/8 in [lo, hi] (exact in float32), an integer if an integer kind is drawn."""
    kind = _pick(rng, [k for k in ((INT_KINDS if ints else ()) + FLT_KINDS) if allowed is None or k in allowed])
    if kind in INT_KINDS:
        return float(rng.integers(int(np.ceil(lo)), int(np.floor(hi)) + 1)), kind
    return float(rng.integers(int(np.ceil(lo * 8)), int(np.floor(hi * 8)) + 1)) / 8.0, kind


def _arr(rng, a, how):
    """An array argument as the caller might hold it: NumPy float64 / float32 / integer (rounded), jax float32, jax float64."""
    jnp = _L()["jnp"]
    a = np.round(np.asarray(a, dtype=float) * 8) / 8
    return {"np64": lambda: a, "np32": lambda: a.astype(np.float32), "npint": lambda: np.round(a).astype(np.int64), "jaxi32": lambda: jnp.asarray(np.round(a).astype(np.int32)),
            "jax32": lambda: jnp.asarray(a, dtype=jnp.float32), "jax64": lambda: jnp.asarray(a)}[how]()


ARR_HOW = ("np64", "np32", "npint", "jaxi32", "jax32", "jax64")  # int32 promotes to float32 in jax: "32" -> float32 tolerance


def _set_rqs(rng, knots):
    eqx, jnp = _L()["eqx"], _L()["jnp"]
    raw = tuple(jnp.asarray(rng.normal(0, 0.8, n)) for n in (knots, knots, knots + 2))
    return lambda o: eqx.tree_at(lambda s: (s.x_pos.args[0], s.y_pos.args[0], s.derivatives.args[0]), o, raw)


def _adder(out, grp, **defaults):
    """add(name, mk, case, **fields): mk() builds the object(s) from the documented arguments (a bijection, or a dict of entry fields);
    a constructor that raises becomes an entry with `error`, reported by `_live` as a violation of the unit that wanted the object."""
    def add(name, mk, case, **fields):
        e = dict(dict(name=name, case=case, grp=grp, ref=None, den=None, tol=1e-11, jit=True, dist=None), **defaults)
        e.update(fields)
        try:
            r = mk()
            e.update(r if isinstance(r, dict) else {"bij": r})
        except Exception as ex:  # noqa: BLE001
            e["error"] = f"{type(ex).__name__}: {str(ex)[:160]}"
        out.append(e)
    return add


def _live(ctx, u, prop, entries):
    for e in entries:
        if "error" in e:
            u.count((e["name"], e["case"], "constructor"), tag="constructor")
            _viol(ctx, u, prop, f"{prop}:{e['name'].split('(')[0].split('[')[0]}:constructor", f"{e['name']} cannot be built from the documented arguments {e['case']}: {e['error']}", dict(entry=e["name"], args=e["case"]))
        else:
            yield e


@contextlib.contextmanager
def _guard(ctx, u, prop, e):
    """An object whose declared shape / behaviour contradicts its arguments makes the check itself raise: that is a finding, not a crash."""
    try:
        yield
    except Exception as ex:  # noqa: BLE001
        _viol(ctx, u, prop, f"{prop}:{e['name'].split('(')[0].split('[')[0]}:raised", f"{e['name']} built with {e['case']}: {type(ex).__name__}: {str(ex)[:160]} while the oracle was applied "
              f"(declared shape {getattr(e.get('bij', e.get('dist')), 'shape', None)})", dict(entry=e["name"], args=e["case"]))


def leaf_entries(ctx, reps=2):
    """name, bij (built with type variants), ref (same numbers as python floats / float64 jax arrays, or None), den(x) -> y or None, case.
    reps: passes through the leaf classes (the kinds are dealt evenly: 5 passes show a parameter half of its ten type variants)."""
    from harness import c07

    L = _L()
    B, jnp, jr, eqx = L["B"], L["jnp"], L["jr"], L["eqx"]
    rng, out = ctx.rng, []
    add = _adder(out, "leaf")
    for _ in range(reps):
        (l, lk), (s, sk) = _num(rng, -3, 3), _num(rng, 0.25, 4)
        add("Affine(scalar loc, scalar scale)", lambda: dict(bij=B.Affine(K(l, lk), K(s, sk)), ref=B.Affine(l, s)), dict(loc=l, scale=s, kinds=[lk, sk]), den=lambda x, l=l, s=s: s * x + l, shape=())
        add("Loc(scalar)", lambda: dict(bij=B.Loc(K(l, lk)), ref=B.Loc(l)), dict(loc=l, kinds=[lk]), den=lambda x, l=l: x + l, shape=())
        add("Scale(scalar)", lambda: dict(bij=B.Scale(K(s, sk)), ref=B.Scale(s)), dict(scale=s, kinds=[sk]), den=lambda x, s=s: s * x, shape=())
        hl, hs = _pick(rng, ARR_HOW), _pick(rng, ARR_HOW)
        la, sa = _arr(rng, rng.normal(0, 2, (3,)), hl), _arr(rng, rng.uniform(1, 4, (2, 1)), hs)
        add("Affine(array loc, array scale)", lambda: dict(bij=B.Affine(la, sa), ref=B.Affine(jnp.asarray(_np(la)), jnp.asarray(_np(sa)))), dict(loc=_np(la).tolist(), scale=_np(sa).tolist(), kinds=[hl, hs]),
            den=lambda x, la=_np(la), sa=_np(sa): sa * x + la, shape=(2, 3))
        add("Scale(array)", lambda: dict(bij=B.Scale(sa), ref=B.Scale(jnp.asarray(_np(sa)))), dict(scale=_np(sa).tolist(), kinds=[hs]), den=lambda x, sa=_np(sa): sa * x, shape=(2, 1))
        d, lower, ha = int(rng.integers(2, 5)), bool(rng.integers(0, 2)), _pick(rng, ARR_HOW)
        a = rng.normal(0, 1.5, (d, d))
        a[np.diag_indices(d)] = rng.uniform(1, 4, d)
        a = _arr(rng, a, ha)
        A = np.tril(_np(a)) if lower else np.triu(_np(a))
        add(f"TriangularAffine(scalar loc, arr, lower={lower})", lambda: dict(bij=B.TriangularAffine(K(l, lk), a, lower=lower), ref=B.TriangularAffine(l, jnp.asarray(_np(a)), lower=lower)),
            dict(loc=l, arr=_np(a).tolist(), lower=lower, kinds=[lk, ha]), den=lambda x, A=A, l=l: A @ x + l, shape=(d,))
        m, mk = _num(rng, 1, 4)
        shape = [(), (3,), (2, 2)][int(rng.integers(0, 3))]
        add("LeakyTanh(max_val, shape)", lambda: dict(bij=B.LeakyTanh(K(m, mk), shape), ref=B.LeakyTanh(m, shape)), dict(max_val=m, shape=list(shape), kinds=[mk]), den=lambda x, m=m: c07.ref_leaky_tanh(m, x), tol=ktol(mk), shape=shape)
        # spline: knots / interval / min_derivative / softmax_adjust in every type variant, scalar and tuple interval, integer interval ends
        kn, knk = _num(rng, 2, 9, allowed=INT_KINDS)
        (md, mdk), (sadj, sak) = _num(rng, 0.125, 0.75, ints=False), _num(rng, 0, 2, allowed=NOJAX)  # a jax-array softmax_adjust is compared with 0 in python: no jit
        if rng.integers(0, 2):
            (iv, ivk) = _num(rng, 1, 5)
            iarg, iref, ivks = K(iv, ivk), iv, [ivk]
        else:
            (lo, lok), (w, _) = _num(rng, -4, 2), _num(rng, 1, 5)
            hik = kind_of(rng, lo + w)
            iarg, iref, ivks = (K(lo, lok), K(lo + w, hik)), (lo, lo + w), [lok, hik]
        setp = _set_rqs(rng, int(kn))
        add("RationalQuadraticSpline(knots, interval, min_derivative, softmax_adjust)",
            lambda: dict(bij=setp(B.RationalQuadraticSpline(knots=K(kn, knk), interval=iarg, min_derivative=K(md, mdk), softmax_adjust=K(sadj, sak))),
                         ref=setp(B.RationalQuadraticSpline(knots=int(kn), interval=iref, min_derivative=md, softmax_adjust=sadj))),
            dict(knots=int(kn), interval=iref, min_derivative=md, softmax_adjust=sadj, kinds=[knk, *ivks, mdk, sak]), tol=ktol(mdk, sak, *ivks), shape=())
        ns, nsk = _num(rng, 0.25, 3, allowed=NOJAX)  # a jax-array slope fails under every jit (python max / if on it): outside the documented float
        d = int(rng.integers(1, 4))
        p = rng.normal(0, 1.0, 2 * d + 1)
        setq = lambda o, p=p: eqx.tree_at(lambda q: q.params, o, jnp.asarray(p))
        add("Planar(negative_slope)", lambda: dict(bij=setq(B.Planar(jr.PRNGKey(0), dim=d, negative_slope=K(ns, nsk))), ref=setq(B.Planar(jr.PRNGKey(0), dim=d, negative_slope=ns))),
            dict(dim=d, negative_slope=ns, params=p.tolist(), kinds=[nsk]), den=lambda x, d=d, ns=ns, p=p: c07.ref_planar(p[:d], p[d:2 * d], p[-1], ns, x), tol=ktol(nsk), jit=nsk.startswith("py"), shape=(d,))
        shape = [(5,), (2, 3), (2, 2, 2)][int(rng.integers(0, 3))]
        perm = rng.permutation(int(np.prod(shape))).reshape(shape)
        how = ["np.int64", "np.int32", "jax.int32"][int(rng.integers(0, 3))]
        parg = perm.astype(np.int64) if how == "np.int64" else perm.astype(np.int32) if how == "np.int32" else jnp.asarray(perm, dtype=jnp.int32)
        add("Permute(permutation)", lambda: B.Permute(parg), dict(permutation=perm.tolist(), kinds=[how]), den=lambda x, perm=perm: x.ravel()[perm.ravel()].reshape(perm.shape), shape=perm.shape)
    return out


def comb_entries(ctx):
    """Combinators built with tuples, negative axes and indices, every documented `idxs` / `in_axes` form, wrapped children, reshaped
    conditions.  den(x, c) -> (y, log_det) is the DEFINITION evaluated with NumPy through the children's own methods."""
    L = _L()
    B, jnp, eqx, W = L["B"], L["jnp"], L["eqx"], L["W"]
    rng, out = ctx.rng, []
    add = _adder(out, "comb", cond=None)
    tld = lambda b, x, c=None: tuple(np.asarray(v, dtype=float) for v in b.transform_and_log_det(jnp.asarray(x), None if (c is None or b.cond_shape is None) else jnp.asarray(c)))

    def aff(shape):
        sc = np.exp(rng.normal(0, 0.6, shape)) * rng.choice([-1.0, 1.0], shape)
        return eqx.tree_at(lambda a: a.scale, B.Affine(jnp.asarray(rng.normal(0, 1, shape)), jnp.ones(shape)), jnp.asarray(sc))

    def addc(shape, cshape):
        Wm = jnp.asarray(rng.normal(0, 1, (int(np.prod(shape)), int(np.prod(cshape)))))
        return B.AdditiveCondition(lambda c: (Wm @ c.ravel()).reshape(shape), shape, cshape)

    def parts(kids, x, c, axis, stack):
        xs = np.split(x, len(kids), axis) if stack else np.split(x, np.cumsum([k.shape[axis] for k in kids])[:-1], axis)
        r = [tld(k, np.squeeze(p, axis) if stack else p, c) for k, p in zip(kids, xs)]
        return (np.stack if stack else np.concatenate)([y for y, _ in r], axis), sum(ld for _, ld in r)

    def seq(layers):
        def f(x, c):
            ld = 0.0
            for b in layers:
                x, l1 = tld(W.unwrap(b), x, c)
                ld = ld + l1
            return x, ld
        return f

    for _ in range(2):
        # Concatenate / Stack: children as a TUPLE, negative axis, one conditional child
        ax = int(rng.integers(-2, 0))
        sizes = [int(v) for v in rng.integers(1, 4, 3)]
        sh = lambda k, ax=ax: (2, k) if ax == -1 else (k, 2)
        kids = (aff(sh(sizes[0])), addc(sh(sizes[1]), (2,)), B.Chain((aff(sh(sizes[2])), B.Tanh(sh(sizes[2])))))
        add(f"Concatenate(tuple, axis={ax})", lambda: B.Concatenate(kids, axis=ax), dict(axis=ax, child_shapes=[list(k.shape) for k in kids]), den=lambda x, c, kids=kids, ax=ax: parts(kids, x, c, ax, False),
            shape=np.concatenate([np.zeros(k.shape) for k in kids], ax).shape, cond=(2,))
        ax = int(rng.integers(-3, 0))
        kids = (aff((2, 3)), addc((2, 3), (2,)), B.Invert(aff((2, 3))))
        add(f"Stack(tuple, axis={ax})", lambda: B.Stack(kids, axis=ax), dict(axis=ax), den=lambda x, c, kids=kids, ax=ax: parts(kids, x, c, ax, True), shape=np.stack([np.zeros(k.shape) for k in kids], ax).shape, cond=(2,))
        # Chain: a tuple with wrapped (NonTrainable) members; __getitem__ with negative ints and stepped / reversed slices
        lay = (aff((3,)), W.NonTrainable(aff((3,))), W.non_trainable(B.LeakyTanh(2, (3,))), addc((3,), (2, 2)), B.Invert(B.LeakyTanh(1.5, (3,))), B.Flip((3,)))
        add("Chain(tuple with wrapped members)", lambda: B.Chain(lay), {}, den=seq(lay), shape=(3,), cond=(2, 2))
        sl = [slice(-3, None), slice(None, None, 2), slice(1, 5, 3), slice(None, None, -1), slice(-1, 1, -2), slice(3, 4)][int(rng.integers(0, 6))]
        add(f"Chain[{sl.start}:{sl.stop}:{sl.step}]", lambda: (lambda sub: dict(bij=sub, got_len=len(sub)))(B.Chain(lay)[sl]), dict(slice=str(sl)), den=seq(lay[sl]), shape=(3,),
            cond=(2, 2) if lay[3] in lay[sl] else None, expect_len=len(lay[sl]))
        i = int(rng.integers(-6, 0))
        add(f"Chain[{i}]", lambda: W.unwrap(B.Chain(lay)[i]), dict(index=i), den=seq((lay[i],)), shape=(3,), cond=W.unwrap(lay[i]).cond_shape)
        # Vmap: in_axes as int / callable / pytree (doc example: shared scale, per-element loc); in_axes_condition of both signs
        n = int(rng.integers(2, 5))
        locs, scs = rng.normal(0, 1, n), np.exp(rng.normal(0, 0.5, n))
        kid = eqx.filter_vmap(lambda l, s: B.Affine(l, s))(jnp.asarray(locs), jnp.asarray(scs))
        den = lambda x, c, locs=locs, scs=scs: (scs * x + locs, np.sum(np.log(scs)))
        add("Vmap(in_axes=0)", lambda: B.Vmap(kid, in_axes=0), dict(n=n), den=den, shape=(n,))
        add("Vmap(in_axes=callable)", lambda: B.Vmap(kid, in_axes=lambda leaf: 0 if eqx.is_array(leaf) else None), dict(n=n), den=den, shape=(n,))
        one = eqx.tree_at(lambda a: a.loc, B.Affine(0.0, float(scs[0])), jnp.asarray(locs))
        ia = eqx.tree_at(lambda a: a.loc, L["jax"].tree_util.tree_map(lambda _: None, W.unwrap(one)), 0, is_leaf=lambda v: v is None)
        add("Vmap(in_axes=pytree)", lambda: B.Vmap(one, in_axes=ia), dict(n=n), den=lambda x, c, locs=locs, s0=float(scs[0]), n=n: (s0 * x + locs, n * np.log(s0)), shape=(n,))
        cax = int(rng.integers(-3, 3))
        kidc, pos = addc((2,), (3, 2)), range(3)[cax]

        def vden(x, c, kidc=kidc, pos=pos, n=n):
            r = [tld(kidc, x[i], np.take(c, i, axis=pos)) for i in range(n)]
            return np.stack([y for y, _ in r]), sum(ld for _, ld in r)
        add(f"Vmap(axis_size, in_axes_condition={cax})", lambda: B.Vmap(kidc, axis_size=n, in_axes_condition=cax), dict(in_axes_condition=cax, axis_size=n), den=vden, shape=(n, 2),
            cond=tuple(int(v) for v in np.insert([3, 2], pos, n)))
        # Partial: every documented idxs form
        forms = [("int", 1, (4, 2)), ("negative int", -1, (4, 2)), ("np.int64", np.int64(2), (4, 2)), ("0-d jax int", jnp.asarray(1), (4, 2)), ("stepped slice", slice(0, 4, 2), (4,)),
                 ("negative-step slice", slice(None, None, -2), (5,)), ("NumPy int array", np.array([3, 0]), (4,)), ("jax int array (negative)", jnp.asarray([-1, 1]), (4, 2)),
                 ("tuple (slice, int)", (slice(None), 0), (3, 2)), ("tuple (int, slice)", (-1, slice(0, 2)), (2, 3)), ("Ellipsis tuple", (Ellipsis, 1), (2, 2, 2)),
                 ("NumPy bool mask", np.array([True, False, True, True]), (4,)), ("jax bool mask", jnp.asarray([False, True, True, False, False]), (5,))]
        for j in rng.choice(len(forms), 5, replace=False):
            fn, idx, shp = forms[int(j)]
            nidx = np.asarray(idx) if hasattr(idx, "dtype") else idx
            kid = aff(np.zeros(shp)[nidx].shape)

            def pden(x, c, kid=kid, nidx=nidx):
                y, ld = tld(kid, x[nidx])
                out_ = np.array(x, dtype=float)
                out_[nidx] = y
                return out_, ld
            add(f"Partial(idxs: {fn})", lambda: B.Partial(kid, idx, shp), dict(idxs=str(idx)), den=pden, shape=shp, jit="bool" not in fn)  # a boolean mask cannot be traced (ARGCOV.md)
        # Reshape (shape and cond_shape), EmbedCondition (raw_cond_shape), AdditiveCondition with a broadcast module output
        kidc = addc((6,), (4,))
        csh = [(2, 2), (4, 1), None][int(rng.integers(0, 3))]
        add(f"Reshape(shape=(2,3), cond_shape={csh})", lambda: B.Reshape(kidc, (2, 3), csh), dict(cond_shape=csh), den=lambda x, c, kidc=kidc: (lambda r: (r[0].reshape(2, 3), r[1]))(tld(kidc, x.reshape(6), c.reshape(4))),
            shape=(2, 3), cond=csh or (4,))
        add("Reshape(shape=None, cond_shape=(1,4))", lambda: B.Reshape(kidc, None, (1, 4)), {}, den=lambda x, c, kidc=kidc: tld(kidc, x, c.reshape(4)), shape=(6,), cond=(1, 4))
        raw = [(5,), (2, 3)][int(rng.integers(0, 2))]
        We = jnp.asarray(rng.normal(0, 1, (4, int(np.prod(raw)))))
        net = lambda c, We=We: jnp.tanh(We @ c.ravel())
        add(f"EmbedCondition(raw_cond_shape={raw})", lambda: B.EmbedCondition(kidc, net, raw), {}, den=lambda x, c, kidc=kidc, net=net: tld(kidc, x, np.asarray(net(jnp.asarray(c)))), shape=(6,), cond=raw)
        add("AdditiveCondition(module -> broadcastable shape)", lambda: B.AdditiveCondition(lambda c: jnp.sum(c, keepdims=True), (2, 3), (2,)), {}, den=lambda x, c: (x + np.sum(c), 0.0), shape=(2, 3), cond=(2,))
    return out


def _inverter(rng, case):
    """AutoregressiveBisectionInverter with lower / upper in every numeric type variant and non-default tol / max_iter."""
    from flowjax.bisection_search import AutoregressiveBisectionInverter as ABI

    no32 = tuple(k for k in INT_KINDS + FLT_KINDS if "32" not in k)  # a float32 bound makes the whole search float32 (ARGCOV.md, defect candidate 2): not run
    (lo, lok), (hi, hik) = _num(rng, -12, -2, allowed=no32), _num(rng, 1, 9, allowed=no32)
    tol, mi = [1e-11, 1e-12, 3e-11][int(rng.integers(0, 3))], int(rng.integers(80, 300))
    case.update(inverter=dict(lower=lo, upper=hi, tol=tol, max_iter=mi, kinds=[lok, hik]))
    return (lambda: ABI(lower=K(lo, lok), upper=K(hi, hik), tol=tol, max_iter=mi)), tol


def net_entries(ctx, flows=True):
    """Conditioner-network layers and flow factories with non-default keywords: nn_activation, nn_depth 0 / 2 / 3, tiny widths, unusual
    untransformed_dim, transformers (spline with integer tuple interval, Affine with a frozen loc, a Chain), BNAF activation as a
    callable / bijection, depth 0 / 2 / 3, custom inverter, invert=False, planar MLP keywords, tanh_max_val variants, custom init."""
    from harness import flowcases

    L = _L()
    B, jnp, jr, eqx, W, D, F, jax = L["B"], L["jnp"], L["jr"], L["eqx"], L["W"], L["D"], L["F"], L["jax"]
    rng, out = ctx.rng, []
    add = _adder(out, "net", tol=1e-6, search=None)

    from flowjax.bisection_search import AutoregressiveBisectionInverter as ABI

    def perturb(obj, scale):  # LeakyTanh / inverter nodes are kept: their float fields (NumPy-typed max_val, search bounds) are not parameters
        keep = lambda n: isinstance(n, (B.LeakyTanh, ABI))
        lts = lambda t: [n for n in jax.tree_util.tree_leaves(t, is_leaf=keep) if keep(n)]
        new = flowcases.perturb(obj, rng, scale)
        return eqx.tree_at(lts, new, lts(obj)) if lts(obj) else new

    def flow(mk, scale=0.3):
        fl = perturb(mk(), scale)
        return dict(bij=fl.bijection, dist=fl)
    key = lambda: jr.PRNGKey(int(rng.integers(0, 2 ** 31)))
    acts = [("tanh", jnp.tanh), ("softplus", jax.nn.softplus), ("elu", jax.nn.elu)]
    pick = lambda seq_: seq_[int(rng.integers(0, len(seq_)))]

    def transformer():
        lo = int(rng.integers(-3, 0))
        return pick([(f"RQS(knots=3, interval=({lo}, 2))", lambda: B.RationalQuadraticSpline(knots=3, interval=(lo, 2))), ("Scale(2)", lambda: B.Scale(2)),
                     ("Affine with NonTrainable loc", lambda: eqx.tree_at(lambda a: a.loc, B.Affine(0.0, 1.5), W.NonTrainable(jnp.asarray(0.25)))),
                     ("Chain((Affine, LeakyTanh(2)))", lambda: B.Chain((B.Affine(), B.LeakyTanh(2))))])

    for _ in range(2):
        (an, act), depth, width, dim, cd, (tn, tr) = pick(acts), int(rng.choice([0, 2, 3])), int(rng.integers(1, 5)), int(rng.integers(2, 6)), pick([None, 1, 3]), transformer()
        ud = int(rng.choice([1, dim - 1]))
        add("Coupling(transformer, untransformed_dim, nn_depth, nn_width, nn_activation)", lambda: perturb(B.Coupling(key(), transformer=tr(), untransformed_dim=ud, dim=dim, cond_dim=cd, nn_width=width,
            nn_depth=depth, nn_activation=act), 0.5), dict(transformer=tn, untransformed_dim=ud, dim=dim, cond_dim=cd, nn_width=width, nn_depth=depth, nn_activation=an))
        (an, act), depth, dim, cd, (tn, tr) = pick(acts), int(rng.choice([0, 2, 3])), int(rng.integers(1, 5)), pick([None, 1, 2]), transformer()
        width = int(rng.integers(max(dim, 2), dim + 4))
        add("MaskedAutoregressive(transformer, nn_depth, nn_width, nn_activation)", lambda: perturb(B.MaskedAutoregressive(key(), transformer=tr(), dim=dim, cond_dim=cd, nn_width=width, nn_depth=depth,
            nn_activation=act), 0.5), dict(transformer=tn, dim=dim, cond_dim=cd, nn_width=width, nn_depth=depth, nn_activation=an))
        case = dict(dim=int(rng.integers(1, 4)), cond_dim=pick([None, 2]), depth=int(rng.choice([0, 2, 3])), block_dim=int(rng.integers(1, 4)))
        inv, tol = _inverter(rng, case)
        m, mk = _num(rng, 1, 3, allowed=NOJAX)
        an, act = pick([("callable x + tanh(x)/2", lambda: (lambda x: x + 0.5 * jnp.tanh(x))), (f"LeakyTanh({m}) [{mk}]", lambda: B.LeakyTanh(K(m, mk))), ("callable leaky_relu", lambda: (lambda x: jax.nn.leaky_relu(x, 0.3)))])
        add("BlockAutoregressiveNetwork(depth, block_dim, activation, inverter)", lambda: perturb(B.BlockAutoregressiveNetwork(key(), dim=case["dim"], cond_dim=case["cond_dim"], depth=case["depth"],
            block_dim=case["block_dim"], activation=act(), inverter=inv()), 0.3), dict(activation=an, **case), search=tol)
    for _ in range(0 if not flows else 1 if ctx.quick else 3):
        base = lambda d: D.StandardNormal((d,))
        (an, act), depth, dim, cd, nl, (tn, tr) = pick(acts), int(rng.choice([0, 2])), int(rng.integers(2, 5)), pick([None, 2]), int(rng.integers(1, 4)), transformer()
        add("coupling_flow(invert=False, transformer, nn_depth, nn_activation)", lambda: flow(lambda: F.coupling_flow(key(), base_dist=base(dim), transformer=tr(), cond_dim=cd, flow_layers=nl, nn_width=3, nn_depth=depth,
            nn_activation=act, invert=False)), dict(dim=dim, transformer=tn, cond_dim=cd, flow_layers=nl, nn_depth=depth, nn_activation=an, invert=False))
        (an, act), depth, dim, cd, nl, (tn, tr) = pick(acts), int(rng.choice([0, 2])), int(rng.integers(1, 4)), pick([None, 2]), int(rng.integers(1, 4)), transformer()
        add("masked_autoregressive_flow(invert=False, transformer, nn_depth, nn_activation)", lambda: flow(lambda: F.masked_autoregressive_flow(key(), base_dist=base(dim), transformer=tr(), cond_dim=cd, flow_layers=nl,
            nn_width=dim + 2, nn_depth=depth, nn_activation=act, invert=False)), dict(dim=dim, transformer=tn, cond_dim=cd, flow_layers=nl, nn_depth=depth, nn_activation=an, invert=False))
        case = dict(dim=int(rng.integers(1, 4)), cond_dim=pick([None, 2]), nn_depth=int(rng.choice([0, 2])), nn_block_dim=int(rng.integers(1, 4)), flow_layers=int(rng.integers(1, 3)), invert=bool(rng.integers(0, 2)))
        inv, tol = _inverter(rng, case)
        add("block_neural_autoregressive_flow(nn_depth, activation=callable, inverter, invert)", lambda: flow(lambda: F.block_neural_autoregressive_flow(key(), base_dist=base(case["dim"]), cond_dim=case["cond_dim"],
            nn_depth=case["nn_depth"], nn_block_dim=case["nn_block_dim"], flow_layers=case["flow_layers"], invert=case["invert"], activation=lambda x: x + 0.5 * jnp.tanh(x), inverter=inv())), case, search=tol)
        (ns, nsk), dim, cd, nl = _num(rng, 0.25, 3, allowed=("pyint", "pyfloat")), int(rng.integers(1, 4)), pick([None, 2]), int(rng.integers(1, 4))
        kw = {} if cd is None else dict(width_size=int(rng.integers(1, 4)), depth=int(rng.choice([0, 2])), activation=jnp.tanh, final_activation=pick([jnp.tanh, lambda v: v]), use_bias=bool(rng.integers(0, 2)),
                                        use_final_bias=bool(rng.integers(0, 2)))
        add("planar_flow(invert=False, negative_slope, **mlp_kwargs)", lambda: flow(lambda: F.planar_flow(key(), base_dist=base(dim), cond_dim=cd, flow_layers=nl, invert=False, negative_slope=K(ns, nsk), **kw), 0.4),
            dict(dim=dim, cond_dim=cd, flow_layers=nl, negative_slope=ns, kinds=[nsk], invert=False, mlp_kwargs={k: (v if isinstance(v, (int, bool)) else "fn") for k, v in kw.items()}))
        (m, mk), dim, cd, nl, kn, inv_ = _num(rng, 1, 4, allowed=NOJAX), int(rng.integers(1, 4)), pick([None, 2]), int(rng.integers(1, 3)), int(rng.integers(2, 6)), bool(rng.integers(0, 2))
        init = pick([jax.nn.initializers.normal(0.5), lambda k, shape: 0.3 * jr.uniform(k, shape, minval=-1.0)])
        add("triangular_spline_flow(knots, tanh_max_val, init, invert)", lambda: flow(lambda: F.triangular_spline_flow(key(), base_dist=base(dim), cond_dim=cd, flow_layers=nl, knots=kn, tanh_max_val=K(m, mk), invert=inv_,
            init=init)), dict(dim=dim, cond_dim=cd, flow_layers=nl, knots=kn, tanh_max_val=m, invert=inv_, kinds=[mk]))
    return out


# ------------------------------------------------------------------ oracles on bijections
def _xc(rng, b, scale=1.3):
    jnp = _L()["jnp"]
    return jnp.asarray(rng.normal(0, scale, b.shape)), (None if b.cond_shape is None else jnp.asarray(rng.normal(0, 1, b.cond_shape)))


def roundtrip_errs(b, x, x2, c, tol, search=None, numeric=None):
    """C01 on the implementation: both round trips (y := transform(x2) is a point of the codomain), conditioning-scaled tolerance as in
    c01.flows_oracle; numerically inverted (`numeric` names the searched method): 1000 x the configured search tolerance, plus the ANALYTIC
    map's variation over 8 tolerances per coordinate when it is the returning map; and-log-det point == plain point."""
    jnp, errs = _L()["jnp"], []
    for d in ("fwd", "inv"):
        a, bk, ald = (b.transform, b.inverse, b.transform_and_log_det) if d == "fwd" else (b.inverse, b.transform, b.inverse_and_log_det)
        what = "inverse(transform(x))" if d == "fwd" else "transform(inverse(y))"
        try:
            p = x if d == "fwd" else _call(b.transform, x2, c)
            mid = _call(a, p, c)
            back, mid2 = _np(_call(bk, mid, c)), _np(_call(ald, p, c)[0])
        except NotImplementedError:
            continue
        except Exception as e:  # noqa: BLE001
            errs.append(f"{what} raised {type(e).__name__}: {str(e)[:100]}")
            continue
        p, m = _np(p), _np(mid)
        if not np.allclose(mid2, m, rtol=1e-12, atol=1e-12, equal_nan=True):
            errs.append(f"{'transform' if d == 'fwd' else 'inverse'}_and_log_det returns the point {np.ravel(mid2).tolist()}, the plain method {np.ravel(m).tolist()}")
        if not (np.all(np.isfinite(m)) and np.all(np.isfinite(p))):
            continue
        err, slack = float(np.max(np.abs(back - p))), 0.0
        base = (50 * tol if search is None else 1000 * search) * (1.0 + float(np.max(np.abs(p))))
        if err > base and not (search is not None and (numeric == "inverse") == (d == "fwd")):  # never measure the slack through the searched method itself
            try:
                hs = [(m * 4.5e-16 + 1e-300, 64.0)] if search is None else [(8 * search * np.eye(m.size)[j].reshape(m.shape), 1.0) for j in range(m.size)]
                for h, f_ in hs:
                    d_ = np.abs(_np(_call(bk, jnp.asarray(m + h), c)) - _np(_call(bk, jnp.asarray(m - h), c)))
                    slack += f_ * float(np.max(np.where(np.isfinite(d_), d_, 0.0)))
            except Exception:  # noqa: BLE001
                pass
        if not err <= base + slack:
            errs.append(f"{what} is off by {err:.3g} (tolerance {base + slack:.3g}) at {np.ravel(p).tolist()}")
    return errs


def same_as_ref_errs(b, ref, x, c, tol):
    """A type variant of a numeric argument denotes the same object as the python-float one: all four methods agree."""
    errs = []
    for m in ("transform_and_log_det", "inverse_and_log_det"):
        try:
            got, exp = _call(getattr(b, m), x, c), _call(getattr(ref, m), x, c)
        except NotImplementedError:
            continue
        for g, e, w in zip(got, exp, ("point", "log_det")):
            g, e = _np(g), _np(e)
            if np.all(np.isfinite(e)) and not np.allclose(g, e, rtol=tol, atol=tol):
                errs.append(f"{m} {w} {np.ravel(g).tolist()[:4]} differs from the python-float object's {np.ravel(e).tolist()[:4]} at x = {np.ravel(_np(x)).tolist()[:4]}")
    return errs


def _entries(ctx, groups):
    out = []
    for g in groups:
        out += {"leaf": leaf_entries, "comb": comb_entries, "net": net_entries, "layers": lambda c: net_entries(c, flows=False)}[g](ctx)
    return out


def _analytic(e):
    """The orientation whose transform is analytic (BNAF: the numerically inverted side cannot be differentiated / is slow)."""
    B = _L()["B"]
    b = e["bij"]
    if e["name"].startswith("block_neural") and not e["case"]["invert"]:
        return b
    return B.Invert(b) if e["name"].startswith("block_neural") else b


def unit_c01(ctx):
    u = ctx.unit("argcov-roundtrip", "bijections built with non-default keywords / argument type variants (leaves, combinators, conditioner layers, flow factories): both "
                                     "round trips with conditioning-scaled tolerance (numerically inverted: 1000 x the configured tol), and-log-det point = plain point; non-trivial = all")
    rng = ctx.rng
    for e in _live(ctx, u, "C01", _entries(ctx, ("leaf", "comb", "net"))):
        with _guard(ctx, u, "C01", e):
            b = e["bij"]
            for rep in range(1 if e["dist"] is not None else 2):
                (x, c), (x2, _) = _xc(rng, b, 1.5 if rep else 0.7), _xc(rng, b)
                if "LeakyTanh" in e["name"] and rep:
                    x = x + np.sign(_np(x)) * e["case"]["max_val"]  # the linear tails
                u.count((e["name"], e["case"], rep, _np(x).tolist()), tag=e["name"].split("(")[0])
                numeric = None if e.get("search") is None else "transform" if type(b).__name__ == "Invert" else "inverse"
                errs = roundtrip_errs(b, x, x2, c, e["tol"] if e["grp"] == "net" else 1e-9, e.get("search"), numeric)
                if errs:
                    _viol(ctx, u, "C01", f"C01:{e['name']}", f"{e['name']} built with {e['case']}: " + "; ".join(errs[:2]), dict(entry=e["name"], args=e["case"], x=_np(x).tolist(),
                          condition=None if c is None else _np(c).tolist()))


def unit_c02(ctx):
    from harness import c02

    u = ctx.unit("argcov-autodiff-logdet", "same objects: log_det vs slogdet(jax.jacobian(transform)) + inverse law + scalar-ness (c02.autodiff_errors); "
                                           "non-trivial = all")
    rng = ctx.rng
    for e in _live(ctx, u, "C02", _entries(ctx, ("leaf", "comb", "net"))):
        with _guard(ctx, u, "C02", e):
            b = _analytic(e)
            for rep in range(2 if e["grp"] != "net" else 1):
                x, c = _xc(rng, b, 1.2)
                if "LeakyTanh" in e["name"] and rep:
                    x = x + np.sign(_np(x)) * e["case"]["max_val"]
                u.count((e["name"], e["case"], rep, _np(x).tolist()), tag=e["name"].split("(")[0])
                try:
                    errs = c02.autodiff_errors(None, b, _np(x), None if c is None else _np(c), tol=1e-6)
                except Exception as ex:  # noqa: BLE001
                    errs = [f"raised {type(ex).__name__}: {str(ex)[:120]}"]
                if errs:
                    _viol(ctx, u, "C02", f"C02:{e['name']}", f"{e['name']} built with {e['case']}: " + "; ".join(errs[:2]), dict(entry=e["name"], args=e["case"], x=_np(x).tolist(),
                          condition=None if c is None else _np(c).tolist()))
    c02._JAC.clear()


def unit_c07(ctx):
    u = ctx.unit("argcov-documented-function", "elementary bijections built from python ints / NumPy scalars / 0-d arrays / float32 / integer-dtype / NumPy arrays: transform "
                                                "== the documented function (NumPy reference) == the python-float object, incl. LeakyTanh at +-max_val and spline interval ends")
    rng, jnp = ctx.rng, _L()["jnp"]
    for e in _live(ctx, u, "C07", leaf_entries(ctx, 5)):
        with _guard(ctx, u, "C07", e):
            b = e["bij"]
            for rep in range(3):
                x = _np(_xc(rng, b, 2.0)[0])
                if "LeakyTanh" in e["name"] and rep:  # the switch point, its inner neighbour, points 2^-j inside it, the linear tails
                    m = e["case"]["max_val"]
                    x = np.sign(x) * (rng.choice([m, np.nextafter(m, 0), m - 0.5, m - 0.25, m - 0.0625, m - 2.0 ** -6], x.shape) if rep == 1 else m + np.abs(x))
                if "Spline" in e["name"]:
                    iv = e["case"]["interval"]
                    lo, hi = iv if isinstance(iv, tuple) else (-iv, iv)
                    x = np.asarray([lo, hi, max(np.nextafter(hi, np.inf), 2.3e-308) if hi == 0 else np.nextafter(hi, np.inf), rng.uniform(lo, hi), lo - rng.uniform(0, 2)][int(rng.integers(0, 5))]) if rep else x  # XLA flushes subnormals
                u.count((e["name"], e["case"], x.tolist()), tag=e["name"].split("(")[0])
                y, errs = _np(b.transform(jnp.asarray(x))), []
                if e["den"] is not None and not np.allclose(y, _np(e["den"](x)), rtol=max(e["tol"], 1e-9), atol=max(e["tol"], 1e-9)):
                    errs.append(f"transform({np.ravel(x).tolist()}) = {np.ravel(y).tolist()}, the documented function gives {np.ravel(_np(e['den'](x))).tolist()}")
                if e["ref"] is not None:
                    errs += same_as_ref_errs(b, e["ref"], jnp.asarray(x), None, e["tol"])
                if "Spline" in e["name"] and (float(y) != float(x) if (x < lo or x > hi) else not lo <= float(y) <= hi):
                    errs.append(f"spline on [{lo}, {hi}] maps {float(x)!r} to {float(y)!r} (identity outside, onto the interval inside)")
                if errs:
                    _viol(ctx, u, "C07", f"C07:{e['name']}", f"{e['name']} built with {e['case']}: " + "; ".join(errs[:2]), dict(entry=e["name"], args=e["case"], x=x.tolist()))


def unit_c08(ctx):
    u = ctx.unit("argcov-combinator-definitions", "Concatenate / Stack from tuples with negative axes, Chain from a tuple with wrapped members and its negative / stepped / reversed "
                                                   "indexing, Vmap with in_axes int / callable / pytree and both signs of in_axes_condition, every documented Partial idxs form, Reshape "
                                                   "cond_shape, EmbedCondition raw_cond_shape: four methods == the definition through the children (NumPy), declared shapes")
    rng, jnp = ctx.rng, _L()["jnp"]
    for e in _live(ctx, u, "C08", comb_entries(ctx)):
        with _guard(ctx, u, "C08", e):
            b, errs = e["bij"], []
            e["shape"] = tuple(e["shape"])
            if tuple(b.shape) != e["shape"] or b.cond_shape != e["cond"]:
                errs.append(f"declares shape {b.shape} / cond_shape {b.cond_shape}, the definition gives {e['shape']} / {e['cond']}")
            if "expect_len" in e and e["expect_len"] != e["got_len"]:
                errs.append(f"has {e['got_len']} layers, the python slice of the layer tuple has {e['expect_len']}")
            for rep in range(2):
                x = jnp.asarray(rng.normal(0, 1.2, e["shape"]))
                c = None if e["cond"] is None else jnp.asarray(rng.normal(0, 1, e["cond"]))
                u.count((e["name"], e["case"], rep, _np(x).tolist()), tag=e["name"].split("(")[0])
                try:
                    yd, ldd = e["den"](_np(x), None if c is None else _np(c))
                    (y, ld), y1 = _call(b.transform_and_log_det, x, c), _call(b.transform, x, c)
                    (xb, ldi), xb1 = _call(b.inverse_and_log_det, jnp.asarray(yd), c), _call(b.inverse, jnp.asarray(yd), c)
                    for nm, got, exp in (("transform_and_log_det point", y, yd), ("transform", y1, yd), ("log_det", ld, ldd), ("inverse_and_log_det point", xb, x), ("inverse", xb1, x), ("inverse log_det", ldi, -ldd)):
                        if np.shape(got) != np.shape(exp) or not np.allclose(_np(got), _np(exp), rtol=1e-9, atol=1e-9):
                            errs.append(f"{nm} = {np.ravel(_np(got)).tolist()[:6]}, the definition gives {np.ravel(_np(exp)).tolist()[:6]} at x = {np.ravel(_np(x)).tolist()[:6]}")
                except Exception as ex:  # noqa: BLE001
                    errs.append(f"raised {type(ex).__name__}: {str(ex)[:120]}")
                if errs:
                    _viol(ctx, u, "C08", f"C08:{e['name'].split('(')[0].split('[')[0]}", f"{e['name']} ({e['case']}): " + "; ".join(errs[:2]), dict(entry=e["name"], args=e["case"], x=_np(x).tolist(),
                          condition=None if c is None else _np(c).tolist()))
                    break


def unit_c13(ctx):
    u = ctx.unit("argcov-accept-reject", "same objects (combinators, leaves, layers): a well-formed (x, condition) is accepted and returns exactly the declared shape and a scalar "
                                         "log_det; x of another shape, a missing required condition and a condition of another shape are rejected by all four methods")
    rng, jnp = ctx.rng, _L()["jnp"]
    for e in _live(ctx, u, "C13", _entries(ctx, ("comb", "leaf", "layers"))):
        with _guard(ctx, u, "C13", e):
            b = e["bij"]
            x, c = _xc(rng, b)
            shp, csh = tuple(b.shape), b.cond_shape
            if e.get("shape") is not None and (shp != tuple(e["shape"]) or (e["grp"] == "comb" and csh != e["cond"])):
                raise ValueError(f"declares shape {shp} / cond_shape {csh}, its arguments define {tuple(e['shape'])} / {e.get('cond')}")
            bad_x = [shp + (1,), (2,) + shp, shp[:-1] if shp else (1,), tuple(s + 1 for s in shp) if shp else (2,)]
            bad_c = [] if csh is None else [csh + (1,), (3,) + csh, csh[:-1] if csh else (1,), tuple(s + 1 for s in csh) if csh else (2,)]
            errs = []
            for m in ("transform", "inverse", "transform_and_log_det", "inverse_and_log_det"):
                f = getattr(b, m)
                u.count((e["name"], e["case"], m), tag=m)
                try:
                    r = _call(f, x, c)
                    pt, ld = r if isinstance(r, tuple) else (r, None)
                    if tuple(np.shape(pt)) != shp or (ld is not None and np.shape(ld) != ()):
                        errs.append(f"{m} returns shapes {np.shape(pt)} / {None if ld is None else np.shape(ld)} for the declared shape {shp}")
                except NotImplementedError:
                    continue
                except Exception as ex:  # noqa: BLE001
                    errs.append(f"{m} rejects a well-formed input (x {shp}, condition {csh}): {type(ex).__name__}: {str(ex)[:80]}")
                    continue
                trials = [(jnp.zeros(s), c, f"x of shape {s}") for s in bad_x if s != shp] + [(x, jnp.zeros(s), f"condition of shape {s}") for s in bad_c if s != csh]
                trials += [(x, None, "no condition")] if csh is not None else []
                for xx, cc, what in trials:
                    try:
                        _call(f, xx, cc)
                        errs.append(f"{m} accepts {what} (declared shape {shp}, cond_shape {csh})")
                    except NotImplementedError:
                        break
                    except Exception:  # noqa: BLE001
                        pass
            if errs:
                _viol(ctx, u, "C13", f"C13:{e['name'].split('(')[0].split('[')[0]}", f"{e['name']} ({e['case']}): " + "; ".join(errs[:3]), dict(entry=e["name"], args=e["case"]))


def unit_c14(ctx):
    u = ctx.unit("argcov-jit-vmap", "same objects: each method eagerly == under eqx.filter_jit (object passed as an argument) == jax.vmap over a batch vs a python loop; "
                                    "non-trivial = all (objects with NumPy-typed fields that are known not to trace are listed in ARGCOV.md, not run)")
    L = _L()
    rng, jnp, jax, eqx = ctx.rng, L["jnp"], L["jax"], L["eqx"]
    for e in _live(ctx, u, "C14", _entries(ctx, ("leaf", "comb", "net"))):
        with _guard(ctx, u, "C14", e):
            if not e["jit"]:
                continue
            b = e["bij"]
            slow = e["grp"] == "net" and "lock" in e["name"]
            xs, c = jnp.stack([_xc(rng, b)[0] for _ in range(2)]), _xc(rng, b)[1]
            ms = ["transform_and_log_det", "inverse_and_log_det"]  # they subsume the plain methods
            if e["grp"] == "net":  # one direction per layer / flow and run (tracing a flow costs seconds); BNAF: the analytic side
                ms = [ms[int(type(b).__name__ == "Invert")]] if slow else [ms[int(rng.integers(0, 2))]]
            vm = ms[int(rng.integers(0, len(ms)))]  # vmap-vs-loop on one of them
            for m in ms:
                f = lambda bb, x, cc, m=m: getattr(bb, m)(x, cc)
                try:
                    eager = [f(b, x, c) for x in xs]
                except NotImplementedError:
                    continue
                u.count((e["name"], e["case"], m), tag=m)
                errs = []
                try:
                    runs = [("eqx.filter_jit", lambda: eqx.filter_jit(f)(b, xs[0], c), eager[0]), ("jax.vmap", lambda: jax.vmap(lambda x: f(b, x, c))(xs), jax.tree_util.tree_map(lambda *a: jnp.stack(a), *eager))]
                    for nm, run, exp in (runs if m == vm else runs[:1]):
                        got = run()
                        for g, ex in zip(jax.tree_util.tree_leaves(got), jax.tree_util.tree_leaves(exp)):
                            if np.shape(g) != np.shape(ex) or not np.allclose(_np(g), _np(ex), rtol=1e-8, atol=max(1e-9, 100 * e["search"] if slow else 0), equal_nan=True):
                                errs.append(f"{m} under {nm} returns {np.ravel(_np(g)).tolist()[:4]}, eagerly {np.ravel(_np(ex)).tolist()[:4]}")
                except Exception as ex:  # noqa: BLE001
                    errs.append(f"{m} raises {type(ex).__name__} under jit / vmap ({str(ex)[:90]}) but works eagerly")
                if errs:
                    _viol(ctx, u, "C14", f"C14:{e['name'].split('(')[0].split('[')[0]}:{m}", f"{e['name']} built with {e['case']}: " + "; ".join(errs[:2]), dict(entry=e["name"], args=e["case"], method=m,
                          x=_np(xs).tolist(), condition=None if c is None else _np(c).tolist()))


# ------------------------------------------------------------------ distributions built from argument type variants
def dist_entries(ctx):
    """name, dist, ref (same numbers as float64 jax arrays), logpdf (scipy, summed over the event), acc {accessor: expected}, case, tol."""
    import scipy.stats as st

    L = _L()
    D, jnp, eqx = L["D"], L["jnp"], L["eqx"]
    rng, out = ctx.rng, []
    fam = {"Normal": lambda l, s: st.norm(l, s), "Cauchy": lambda l, s: st.cauchy(l, s), "Gumbel": lambda l, s: st.gumbel_r(l, s), "Laplace": lambda l, s: st.laplace(l, s),
           "Logistic": lambda l, s: st.logistic(l, s), "LogNormal": lambda l, s: st.lognorm(s=s, scale=np.exp(l))}
    _add = _adder(out, "dist")

    def add(name, mk, mkref, frozen, acc, tol, **case):
        _add(name, lambda: dict(dist=mk(), ref=mkref()), case, logpdf=lambda x, f=frozen: np.sum(f.logpdf(x)) if np.ndim(f.logpdf(x)) else float(f.logpdf(x)), rvs=lambda f=frozen: f.rvs(random_state=rng), acc=acc, tol=tol)

    def two(lo1, hi1, lo2, hi2):
        """(values, arguments, kinds) of a (loc-like, scale-like) pair: scalars in every type variant or arrays in every array form."""
        if rng.integers(0, 2):
            (a, ak), (b, bk) = _num(rng, lo1, hi1), _num(rng, lo2, hi2)
            return (a, b), (K(a, ak), K(b, bk)), [ak, bk]
        ha, hb = _pick(rng, ARR_HOW), _pick(rng, ARR_HOW)
        a, b = _arr(rng, rng.uniform(lo1, hi1, (3,)), ha), _arr(rng, rng.uniform(max(lo2, 1), hi2, [(3,), (2, 1), ()][int(rng.integers(0, 3))]), hb)
        return (_np(a), _np(b)), (a, b), [ha, hb]

    for name in list(fam) * (1 if ctx.quick else 3):
        (l, s_), args, kinds = two(-3, 3, 0.25, 4)
        add(f"{name}(loc, scale)", lambda: getattr(D, name)(*args), lambda: getattr(D, name)(jnp.asarray(l), jnp.asarray(s_)), fam[name](l, s_),
            {} if name == "LogNormal" else dict(loc=np.broadcast_arrays(l, s_)[0], scale=np.broadcast_arrays(l, s_)[1]), 1e-11, loc=np.asarray(l).tolist(), scale=np.asarray(s_).tolist(), kinds=kinds)
    for it in range(2):
        (df, dk), ((l, s_), args, kinds) = _num(rng, 1, 9), two(-3, 3, 0.25, 4)
        add("StudentT(df, loc, scale)", lambda: D.StudentT(K(df, dk), *args), lambda: D.StudentT(df, jnp.asarray(l), jnp.asarray(s_)), st.t(df, l, s_), dict(df=np.broadcast_arrays(df, l, s_)[0]), 1e-11,
            df=df, loc=np.asarray(l).tolist(), scale=np.asarray(s_).tolist(), kinds=[dk, *kinds])
        (lo, w), _, kinds = two(-3, 3, 1, 4)
        uargs = tuple(K(v, k) if np.ndim(v) == 0 else _arr(rng, v, k) for v, k in zip((lo, lo + w), kinds))
        mn, mx = _np(uargs[0]), _np(uargs[1])
        add("Uniform(minval, maxval)", lambda: D.Uniform(*uargs), lambda: D.Uniform(jnp.asarray(mn), jnp.asarray(mx)), st.uniform(mn, mx - mn), dict(minval=np.broadcast_arrays(mn, mx)[0], maxval=np.broadcast_arrays(mn, mx)[1]),
            1e-11, minval=mn.tolist(), maxval=mx.tolist(), kinds=kinds)
        rv, rk = (_num(rng, 1, 4, allowed=INT_KINDS) if it == 0 else (_np(_arr(rng, rng.uniform(1, 4, 3), "npint")), _pick(rng, ("npint", "jaxi32", "np32"))))  # 1 / rate: integer-typed rates every run
        rarg, kinds = (K(rv, rk) if it == 0 else _arr(rng, rv, rk)), [None, rk]
        add("Exponential(rate)", lambda: D.Exponential(rarg), lambda: D.Exponential(jnp.asarray(_np(rarg))), st.expon(scale=1 / _np(rarg)), dict(rate=_np(rarg)), ktol(kinds[1]), rate=_np(rarg).tolist(), kinds=kinds[1:])
        d = int(rng.integers(2, 5))
        A = rng.normal(0, 1, (d, d))
        hc, (lv_, lk) = ["np64", "np32", "jax32", "jax64"][int(rng.integers(0, 4))], _num(rng, -3, 3)
        cov = _arr(rng, A @ A.T + d * np.eye(d), hc)
        add("MultivariateNormal(scalar loc, covariance)", lambda: D.MultivariateNormal(K(lv_, lk), cov), lambda: D.MultivariateNormal(jnp.full(d, lv_), jnp.asarray(_np(cov))),
            st.multivariate_normal(np.full(d, lv_), _np(cov)), dict(loc=np.full(d, lv_), covariance=_np(cov)), ktol(hc), loc=lv_, covariance=_np(cov).tolist(), kinds=[lk, hc])
        n, hw = int(rng.integers(2, 5)), _pick(rng, ARR_HOW)
        w, ls, ss = _arr(rng, rng.uniform(1, 5, n), hw), rng.normal(0, 2, n), rng.uniform(0.5, 2, n)
        mix = lambda ww: D.VmapMixture(eqx.filter_vmap(D.Normal)(jnp.asarray(ls), jnp.asarray(ss)), ww)

        class _Mix:  # textbook mixture: the weight-normalised sum of the component densities
            def logpdf(self, x, w=_np(w), ls=ls, ss=ss):
                return np.log(np.sum(w / w.sum() * st.norm(ls, ss).pdf(x)))

            def rvs(self, random_state, ls=ls, ss=ss):
                return float(random_state.normal(ls[0], ss[0]))
        add("VmapMixture(dist, weights)", lambda: mix(w), lambda: mix(jnp.asarray(_np(w))), _Mix(), {}, ktol(hw), weights=_np(w).tolist(), locs=ls.tolist(), scales=ss.tolist(), kinds=[hw])
    return out


def _acc_errs(e):
    d, errs = e["dist"], []
    for nm, exp in e["acc"].items():
        got = _np(getattr(d, nm))
        if got.shape != tuple(d.shape) + ((d.shape[0],) if nm == "covariance" else ()) or not np.allclose(got, np.broadcast_to(exp, got.shape), rtol=max(e["tol"], 1e-12), atol=max(e["tol"], 1e-12)):
            errs.append(f"accessor .{nm} = {np.ravel(got).tolist()[:6]}, the constructor was given {np.ravel(exp).tolist()[:6]}")
    return errs


def unit_c05(ctx):
    u = ctx.unit("argcov-family-arguments", "every family built from python ints / floats, NumPy scalars, 0-d arrays, float32, integer-dtype and NumPy arrays (cross-rank broadcasting; scalar MVN "
                                            "loc, NumPy covariance, integer mixture weights): log_prob == scipy at in-support points, support edges and outside (-inf, never NaN), "
                                            "accessors return the constructor's values")
    rng, jnp = ctx.rng, _L()["jnp"]
    for e in _live(ctx, u, "C05", dist_entries(ctx)):
        with _guard(ctx, u, "C05", e):
            d = e["dist"]
            pts = [np.asarray(e["rvs"](), dtype=float).reshape(d.shape) for _ in range(2)] + [np.asarray(rng.normal(0, 3, d.shape))]
            if "Uniform" in e["name"]:
                pts += [np.broadcast_to(np.asarray(e["case"]["minval"], float), d.shape), np.broadcast_to(np.asarray(e["case"]["maxval"], float), d.shape) + 0.5]
            errs = []
            for x in pts:
                u.count((e["name"], e["case"], x.tolist()), tag=e["name"].split("(")[0])
                with np.errstate(all="ignore"):
                    got, exp = float(d.log_prob(jnp.asarray(x))), float(e["logpdf"](x))
                for nm, r in (("the textbook density (scipy)", exp),):
                    if np.isnan(got) or not (got == r or abs(got - r) <= max(e["tol"], 1e-9) * max(1.0, abs(r))):
                        errs.append(f"log_prob({np.ravel(x).tolist()}) = {got!r}, {nm} gives {r!r}")
            errs += _acc_errs(e)
            if errs:
                _viol(ctx, u, "C05", f"C05:{e['name']}", f"{e['name']} built with {e['case']}: " + "; ".join(errs[:2]), dict(entry=e["name"], args=e["case"]))


def _key(rng):
    return _L()["jr"].PRNGKey(int(rng.integers(0, 2 ** 31)))


def identities_errs(d, key, c, tol=1e-8):
    """The three statements of C03 on one (key, condition): joint log-prob == log_prob(sample), sample(key) == the joint's point == transform(base sample), log_prob ==
    base log_prob(inverse) + inverse log-det."""
    W, errs = _L()["W"], []
    cc = () if c is None else (c,)
    try:
        x, lp = d.sample_and_log_prob(key, (), *cc)
        lp2, xs = d.log_prob(x, *cc), d.sample(key, (), *cc)
        if np.isfinite(float(lp2)) and not abs(float(lp) - float(lp2)) <= tol * max(1.0, abs(float(lp2))):
            errs.append(f"sample_and_log_prob returned log-prob {float(lp)!r} but log_prob(sample) = {float(lp2)!r}")
        if not np.allclose(_np(xs), _np(x), rtol=1e-12, atol=1e-12):
            errs.append(f"sample(key) = {np.ravel(_np(xs)).tolist()} differs from the point of sample_and_log_prob(key) = {np.ravel(_np(x)).tolist()}")
        if hasattr(d, "bijection"):
            u = W.unwrap(d)
            bc = () if u.bijection.cond_shape is None else cc
            z0 = u.base_dist.sample(key, (), *(() if u.base_dist.cond_shape is None else cc))
            if not np.allclose(_np(_call(u.bijection.transform, z0, *(bc or (None,)))), _np(x), rtol=1e-9, atol=1e-9):
                errs.append(f"sample(key) = {np.ravel(_np(x)).tolist()} is not the bijection applied to the base sample for that key")
            z, ldi = _call(u.bijection.inverse_and_log_det, x, *(bc or (None,)))
            ref = float(u.base_dist.log_prob(z, *(() if u.base_dist.cond_shape is None else cc))) + float(ldi)
            if np.isfinite(ref) and not abs(float(lp2) - ref) <= tol * max(1.0, abs(ref)):
                errs.append(f"log_prob(x) = {float(lp2)!r} but base.log_prob(inverse(x)) + inverse log-det = {ref!r}")
    except NotImplementedError:
        pass
    except Exception as e:  # noqa: BLE001
        errs.append(f"raised {type(e).__name__}: {str(e)[:100]}")
    return errs


def unit_c03(ctx):
    u = ctx.unit("argcov-path-identities", "Transformed(base built from argument type variants, Chain((Affine from type variants, LeakyTanh(max_val variant)))) and the flow factories "
                                           "with non-default keywords (invert=False, transformer, nn_depth 0/2, nn_activation, BNAF activation / inverter, planar MLP keywords, "
                                           "tanh_max_val, init): the three C03 identities at random keys / conditions")
    L = _L()
    rng, jnp, B, D = ctx.rng, L["jnp"], L["B"], L["D"]
    items = []
    for e in _live(ctx, u, "C03", dist_entries(ctx)):
        with _guard(ctx, u, "C03", e):
            (l, lk), (s_, sk), (m, mk) = _num(rng, -2, 2), _num(rng, 0.5, 3), _num(rng, 1, 3)
            loc = jnp.full(e["dist"].shape, l) if rng.integers(0, 2) else K(l, lk) + np.zeros(e["dist"].shape)
            bij = B.Chain((B.Affine(loc, K(s_, sk)), B.LeakyTanh(K(m, mk), e["dist"].shape)))
            items.append((e["name"], dict(base=e["case"], affine=[l, s_], max_val=m, kinds=[lk, sk, mk]), 1e-8, D.Transformed(e["dist"], bij)))
    items += [(e["name"], e["case"], 1e-8 if e["search"] is None else 1e4 * e["search"], e["dist"]) for e in _live(ctx, u, "C03", net_entries(ctx)) if e["dist"] is not None]
    for name, case, tol, d in items:
        for rep in range(2):
            key, c = _key(rng), (None if d.cond_shape is None else jnp.asarray(rng.normal(0, 1, d.cond_shape)))
            u.count((name, case, rep, _np(key).tolist()), tag=name.split("(")[0])
            errs = identities_errs(d, key, c, tol)
            if errs:
                _viol(ctx, u, "C03", f"C03:{name}", f"{name} built with {case}: " + "; ".join(errs[:2]), dict(entry=name, args=case, key=_np(key).tolist(), condition=None if c is None else _np(c).tolist()))


def unit_c06(ctx):
    u = ctx.unit("argcov-batching", "distributions built from argument type variants + conditional flows with non-default keywords; x given as NumPy / float32 / integer-dtype batches, "
                                    "sample_shape with NumPy ints, rank 2-3 and size-1 axes, batched conditions: every element == the unbatched call, shapes as documented, distinct draws, "
                                    "same key same result")
    L = _L()
    rng, jnp = ctx.rng, L["jnp"]
    ds = [(e["name"], e["case"], e["dist"]) for e in _live(ctx, u, "C06", dist_entries(ctx) + net_entries(ctx)) if e["dist"] is not None and e.get("search") is None]
    for name, case, d in ds:
        bshape = [(3,), (2, 2), (1, 3)][int(rng.integers(0, 3))]
        cb = None if d.cond_shape is None else [(), bshape, bshape[-1:]][int(rng.integers(0, 3))]
        c = None if cb is None else jnp.asarray(rng.normal(0, 1, cb + d.cond_shape))
        cc = () if c is None else (c,)
        ss = [(np.int64(3),), (2, np.int64(2)), (1,), (3, 1, 2)][int(rng.integers(0, 4))]
        key, errs = _key(rng), []
        u.count((name, case, str(bshape), str(cb), str(ss)), tag=name.split("(")[0])
        try:
            X = _np(d.sample(key, bshape, *(() if c is None else (jnp.zeros(d.cond_shape),))))  # points of the support
            how = ["numpy float64", "numpy float32", "jax float32", "rounded integer dtype"][int(rng.integers(0, 4))]
            Xa = {"numpy float64": X, "numpy float32": X.astype(np.float32), "jax float32": jnp.asarray(X, dtype=jnp.float32), "rounded integer dtype": np.round(X).astype(np.int32)}[how]
            lps = _np(d.log_prob(Xa, *cc))
            Xf = _np(Xa)
            bs = np.broadcast_shapes(Xf.shape[: Xf.ndim - len(d.shape)], cb or ())
            if lps.shape != bs:
                errs.append(f"log_prob of x batch {Xf.shape} ({how}) with condition batch {cb} has shape {lps.shape}, NumPy broadcasting gives {bs}")
            else:
                Xb = np.broadcast_to(Xf, bs + tuple(d.shape))
                Cb = None if c is None else np.broadcast_to(_np(c), bs + d.cond_shape)
                for idx in list(np.ndindex(*bs))[:4]:
                    one = float(d.log_prob(jnp.asarray(Xb[idx]), *(() if c is None else (jnp.asarray(Cb[idx]),))))
                    if not (lps[idx] == one or abs(lps[idx] - one) <= 1e-9 * max(1.0, abs(one))):
                        errs.append(f"log_prob batch element {idx} = {lps[idx]!r} ({how} x), the unbatched call gives {one!r}")
            S, (S2, lp2) = d.sample(key, ss, *cc), d.sample_and_log_prob(key, ss, *cc)
            want = tuple(int(v) for v in ss) + (cb or ()) + tuple(d.shape)
            if tuple(S.shape) != want or tuple(lp2.shape) != want[: len(want) - len(d.shape)]:
                errs.append(f"sample(key, {ss}) has shape {S.shape} (log-probs {lp2.shape}), documented: sample_shape + condition batch + event = {want}")
            rows = _np(S).reshape(-1, int(np.prod(d.shape)) if d.shape else 1)
            if len({tuple(r) for r in rows.tolist()}) != len(rows):
                errs.append(f"sample(key, {ss}) repeats draws: {len({tuple(r) for r in rows.tolist()})} distinct of {len(rows)}")
            if not np.array_equal(_np(S), _np(d.sample(key, ss, *cc))) or not np.allclose(_np(S), _np(S2), rtol=1e-12, atol=1e-12):
                errs.append("the same key does not give the same sample (sample twice / sample vs sample_and_log_prob)")
            lpS = _np(d.log_prob(S2, *cc))
            if not np.allclose(np.where(np.isfinite(lpS), _np(lp2), 0), np.where(np.isfinite(lpS), lpS, 0), rtol=1e-7, atol=1e-7):
                errs.append("sample_and_log_prob log-probs differ from log_prob of the batch of samples")
        except Exception as ex:  # noqa: BLE001
            errs.append(f"raised {type(ex).__name__}: {str(ex)[:120]}")
        if errs:
            _viol(ctx, u, "C06", f"C06:{name}", f"{name} built with {case}, x batch {bshape}, condition batch {cb}, sample_shape {ss}: " + "; ".join(errs[:2]),
                  dict(entry=name, args=case, batch=list(bshape), cond_batch=None if cb is None else list(cb), sample_shape=[int(v) for v in ss], key=_np(key).tolist()))


def unit_c11(ctx):
    L = _L()
    rng, jnp, jr, B, D, W, eqx, jax = ctx.rng, L["jnp"], L["jr"], L["B"], L["D"], L["W"], L["eqx"], L["jax"]

    def perturb(obj, rng, scale):  # the trainable ARRAYS (a NumPy-typed slope / max_val left in a float field is not a parameter)
        is_p = lambda l: isinstance(l, jax.Array) and eqx.is_inexact_array(l)
        return jax.tree_util.tree_map(lambda l: l + jnp.asarray(rng.normal(0, scale, l.shape)) if is_p(l) else l, obj, is_leaf=lambda n: isinstance(n, W.NonTrainable))
    u = ctx.unit("argcov-constraints", "objects built from argument type variants reproduce their constructor arguments (accessors, unwrapped scale / triangle / knots), keep their constraints "
                                       "after every trainable array is moved by N(0, 5) (positive scales / diagonals / df, normalised weights, knots increasing between the given interval ends, "
                                       "derivatives >= min_derivative, planar invertibility for the given slope)")
    ur = ctx.unit("argcov-ctor-rejects", "constructor arguments outside the constraint, written in every numeric type variant, are rejected with an error (at first use where the check is lazy)")

    def report(name, case, errs):
        if errs:
            _viol(ctx, u, "C11", f"C11:{name}", f"{name} built with {case}: " + "; ".join(errs[:2]), dict(entry=name, args=case))

    for e in _live(ctx, u, "C11", dist_entries(ctx)):
        with _guard(ctx, u, "C11", e):
            u.count((e["name"], e["case"]), tag=e["name"].split("(")[0])
            errs, d2 = _acc_errs(e), W.unwrap(perturb(e["dist"], rng, 5.0))
            if hasattr(d2, "bijection") and hasattr(d2.bijection, "scale") and not np.all(_np(d2.bijection.scale) > 0):
                errs.append(f"scale {np.ravel(_np(d2.bijection.scale)).tolist()} not positive after moving the trainable arrays")
            if "StudentT" in e["name"] and not np.all(_np(d2.base_dist.df) > 0):
                errs.append("df not positive after moving the trainable arrays")
            if "Mixture" in e["name"] and not abs(float(np.sum(np.exp(_np(d2.log_normalized_weights)))) - 1) <= 1e-9:
                errs.append(f"mixture weights sum to {float(np.sum(np.exp(_np(d2.log_normalized_weights))))!r} after moving the trainable arrays")
            if "Multivariate" in e["name"] and not np.all(np.diag(_np(d2.bijection.triangular)) > 0):
                errs.append("Cholesky diagonal not positive after moving the trainable arrays")
            report(e["name"], e["case"], errs)
    for e in _live(ctx, u, "C11", leaf_entries(ctx, 5)):
        with _guard(ctx, u, "C11", e):
            b, cs, errs = e["bij"], e["case"], []
            u.count((e["name"], cs), tag=e["name"].split("(")[0])
            ub, up = W.unwrap(b), W.unwrap(perturb(b, rng, 5.0))
            if "scale" in cs and not np.allclose(_np(ub.scale), np.broadcast_to(_np(cs["scale"]), ub.scale.shape), rtol=e["tol"], atol=e["tol"]):
                errs.append(f"unwrapped scale {np.ravel(_np(ub.scale)).tolist()} is not the constructor's")
            if "scale" in cs and not np.all(_np(up.scale) > 0):
                errs.append("scale not positive after moving the trainable arrays")
            if "arr" in cs:
                A = (np.tril if cs["lower"] else np.triu)(_np(cs["arr"]))
                if not np.allclose(_np(ub.triangular), A, rtol=1e-11, atol=1e-11) or not np.all(np.diag(_np(up.triangular)) > 0) or np.any((np.triu if cs["lower"] else np.tril)(_np(up.triangular), 1 if cs["lower"] else -1)):
                    errs.append(f"triangular {_np(ub.triangular).tolist()} is not the requested triangle of the given matrix / loses its positive diagonal or its zeros after moving the arrays")
            if "Spline" in e["name"] and cs["softmax_adjust"] >= 0.125:
                lo, hi = cs["interval"] if isinstance(cs["interval"], tuple) else (-cs["interval"], cs["interval"])
                for f in ("x_pos", "y_pos"):
                    p = _np(getattr(up, f))
                    if p.shape != (cs["knots"] + 2,) or p[0] != lo or p[-1] != hi or not np.all(np.diff(p) > 0):
                        errs.append(f"{f} = {p.tolist()} is not strictly increasing from {lo} to {hi} with {cs['knots']} inner knots")
                if not np.all(_np(up.derivatives) >= cs["min_derivative"] * (1 - e["tol"])):
                    errs.append(f"derivatives {_np(up.derivatives).tolist()} below min_derivative {cs['min_derivative']}")
            if "Planar" in e["name"]:
                pl = up.get_planar()
                wu = float(pl.weight @ pl.get_act_scale())
                if float(pl.weight @ pl._act_scale) > -30 and not (1 + wu > 0 and 1 + cs["negative_slope"] * wu > 0):  # below: softplus underflows, w.u sits ON the bound (floats)
                    errs.append(f"planar layer not invertible: w.u = {wu!r} with slope {cs['negative_slope']} (needs 1 + w.u > 0 and 1 + slope * w.u > 0)")
            report(e["name"], cs, errs)
    # rejections, in every type variant of the offending number
    comp = eqx.filter_vmap(D.Normal)(jnp.zeros(3), jnp.ones(3))
    bad = [("Affine(scale<=0)", lambda v: B.Affine(0, v), (-2, 0)), ("Scale(scale<=0)", lambda v: B.Scale(v), (-1, 0)), ("Normal(scale<=0)", lambda v: D.Normal(1, v), (-3, 0)),
           ("StudentT(df<=0)", lambda v: D.StudentT(v), (-1, 0)), ("Exponential(rate<0)", lambda v: D.Exponential(v), (-2, -0.5)), ("Uniform(maxval<=minval)", lambda v: D.Uniform(1, v), (1, -2)),
           ("RationalQuadraticSpline(softmax_adjust<0)", lambda v: W.unwrap(B.RationalQuadraticSpline(knots=3, interval=2, softmax_adjust=v)).x_pos, (-1, -0.5)),
           ("Planar(negative_slope<=0)", lambda v: B.Planar(jr.PRNGKey(0), dim=2, negative_slope=v).transform(jnp.ones(2)), (-1, 0)),
           ]
    for name, mk, vals in bad:
        for v in vals:
            for kind in [k for k in (INT_KINDS if float(v) == int(v) else ()) + FLT_KINDS if not ("Planar" in name and "jax" in k)]:
                ur.count((name, v, kind), tag=name.split("(")[0])
                try:
                    mk(K(v, kind))
                    _viol(ctx, ur, "C11", f"C11:accepts:{name}", f"{name}: the value {v} given as {kind} is accepted", dict(entry=name, value=v, kind=kind))
                except Exception:  # noqa: BLE001
                    pass
    for name, mk in (("VmapMixture(weights<=0)", lambda a: D.VmapMixture(comp, a)), ("TriangularAffine(diagonal<=0)", lambda a: B.TriangularAffine(0, np.diag(_np(a)) if isinstance(a, np.ndarray) else jnp.diag(a))),
                     ("Affine(array scale<=0)", lambda a: B.Affine(0, a)), ("Permute(not a permutation)", lambda a: B.Permute((a if isinstance(a, np.ndarray) else np.asarray(a)).astype(np.int32)))):
        for how in ARR_HOW:
            a = _arr(rng, [[2.0, 2.0, 0.0], [3.0, 0.0, 1.0], [1.0, -1.0, 0.0]][int(rng.integers(0, 3))] if "Permute" in name else [2.0, [0.0, -1.0][int(rng.integers(0, 2))], 1.0], how)
            ur.count((name, _np(a).tolist(), how), tag=name.split("(")[0])
            try:
                mk(a)
                _viol(ctx, ur, "C11", f"C11:accepts:{name}", f"{name}: the array {_np(a).tolist()} given as {how} is accepted", dict(entry=name, value=_np(a).tolist(), kind=how))
            except Exception:  # noqa: BLE001
                pass


def unit_c18(ctx):
    L = _L()
    rng, jnp, jax, eqx, B, D, W = ctx.rng, L["jnp"], L["jax"], L["eqx"], L["B"], L["D"], L["W"]
    u = ctx.unit("argcov-finite-gradients", "Transformed(StandardNormal, bijection built with non-default keywords / type variants), the families built from type variants and the flow "
                                            "factories with non-default keywords: log_prob is never NaN and wherever it is finite d/dx and d/d(every inexact leaf) are finite; inputs: "
                                            "random, x100, the LeakyTanh switch point / spline interval ends as given (integers, float32)")
    items = [(e["name"], e["case"], e["dist"], True) for e in _live(ctx, u, "C18", dist_entries(ctx))]
    for e in _live(ctx, u, "C18", _entries(ctx, ("leaf", "net"))):
        with _guard(ctx, u, "C18", e):
            b = e["bij"]
            if "lock" in e["name"]:  # log_prob must use the analytic side of a BNAF (the bisection cannot be differentiated)
                b = B.Invert(b) if type(b).__name__ != "Invert" else b
            items.append((e["name"], e["case"], D.Transformed(D.StandardNormal(b.shape), b) if e["dist"] is None or "lock" in e["name"] else e["dist"], e["jit"]))
    for name, case, d, jit in items:
        params, static = eqx.partition(d, eqx.is_inexact_array, is_leaf=lambda n: isinstance(n, W.NonTrainable))
        f = jax.value_and_grad(lambda p, x, c: eqx.combine(p, static).log_prob(x, *(() if c is None else (c,))), argnums=(0, 1))
        f = eqx.filter_jit(f) if jit else f  # one trace per object (NumPy-typed planar slopes do not trace: eager)
        c = None if d.cond_shape is None else jnp.asarray(rng.normal(0, 1, d.cond_shape))
        xs = [rng.normal(0, 1.5, d.shape), rng.normal(0, 30, d.shape)]
        if "max_val" in case:
            xs.append(np.full(d.shape, case["max_val"]) * rng.choice([-1.0, 1.0], d.shape))
        if "interval" in case:
            iv = case["interval"]
            xs += [np.asarray(float(v)) for v in (iv if isinstance(iv, tuple) else (-iv, iv))] + [np.asarray(float(np.max(np.abs(iv))) + 1.0)]
        for x in xs:
            u.count((name, case, np.asarray(x).tolist()), tag=name.split("(")[0])
            try:
                v, (gp, gx) = f(params, jnp.asarray(x), c)
            except Exception as ex:  # noqa: BLE001
                _viol(ctx, u, "C18", f"C18:{name}:raises", f"{name} built with {case}: the gradient of log_prob at x = {np.ravel(x).tolist()} raises {type(ex).__name__}: {str(ex)[:100]}", dict(entry=name, args=case, x=np.asarray(x).tolist()))
                break
            bad = [] if not abs(float(v)) < 1e12 else [  # beyond: float overflow inside a perturbed network, outside the property
                   k for k, g in [("x", gx)] + [(jax.tree_util.keystr(p), g) for p, g in jax.tree_util.tree_leaves_with_path(gp)] if not np.all(np.isfinite(_np(g)))]
            if np.isnan(float(v)) or bad:
                _viol(ctx, u, "C18", f"C18:{name}", f"{name} built with {case}: log_prob({np.ravel(x).tolist()}) = {float(v)!r}" + (f" is finite but the gradient w.r.t. {bad[:3]} is not" if bad else ""),
                      dict(entry=name, args=case, x=np.asarray(x).tolist(), condition=None if c is None else _np(c).tolist()))
                break


# ------------------------------------------------------------------ wrappers, training loops, losses
def unit_c12(ctx):
    L = _L()
    rng, jnp, jax, B, W = ctx.rng, L["jnp"], L["jax"], L["B"], L["W"]
    u = ctx.unit("argcov-wrapper-arguments", "wrappers built from python scalars / bools, NumPy scalars and arrays, float32, integer dtype, keyword and positional Lambda arguments, "
                                             "invert_on_init both ways, inside dict / list / tuple containers: unwrap == the NumPy value, is idempotent, leaves other leaves alone")
    sp = lambda v: np.logaddexp(_np(v), 0.0)
    for rep in range(6):
        (a, ak), (b_, bk), hw = _num(rng, 0.5, 4), _num(rng, -3, 3), _pick(rng, ARR_HOW)
        arr, cond = _arr(rng, rng.uniform(1, 4, (2, 3)), hw), [True, False, np.bool_(True), np.array([True, False, True]), np.array([1, 0, 1]), jnp.asarray([False, True, True])][int(rng.integers(0, 6))]
        w2 = _arr(rng, rng.normal(0, 1, (2, 3)) + 2, ["np64", "np32", "jax32", "jax64"][int(rng.integers(0, 4))])
        tree = {"reparam-inv": W.BijectionReparam(arr, B.SoftPlus()), "reparam-raw": W.BijectionReparam(K(a, ak), B.SoftPlus(), invert_on_init=False),
                "reparam-default": (W.BijectionReparam(jnp.asarray(_np(arr)), B.Exp((3,))), 7, "text"), "where": [W.Where(cond, K(a, ak), W.BijectionReparam(arr, B.SoftPlus()))],
                "lambda": W.Lambda(lambda p, q=1.0, *, r: p * q + r, K(a, ak), r=arr), "lambda-pos": W.Lambda(lambda p, q: p - q, arr, K(b_, bk)),
                "frozen": W.NonTrainable({"np": _np(arr), "py": a, "f32": np.float32(b_)}), "nt": W.non_trainable((_np(arr), a, np.arange(3), jnp.asarray(_np(arr), dtype=jnp.float32))),
                "wn": W.WeightNormalization(w2), "plain": (arr, K(b_, bk))}
        A_, c_ = _np(arr), np.asarray(cond).astype(bool)
        exp = {"reparam-inv": A_, "reparam-raw": sp(a), "reparam-default": (A_, 7, "text"), "where": [np.where(c_, a, A_)], "lambda": a * 1.0 + A_, "lambda-pos": A_ - b_,
               "frozen": {"np": A_, "py": a, "f32": b_}, "nt": (A_, a, np.arange(3), A_), "wn": _np(w2) / np.linalg.norm(_np(w2), axis=-1, keepdims=True) * 1.0, "plain": (A_, b_)}
        exp["wn"] = exp["wn"] * (1.0 / np.linalg.norm(_np(w2), axis=-1, keepdims=True))  # scale initialised to 1/||row||
        case = dict(a=a, b=b_, arr=A_.tolist(), cond=np.asarray(cond).tolist(), kinds=[ak, bk, hw, type(cond).__name__])
        u.count((rep, case), tag="tree")
        got = W.unwrap(tree)
        errs = []
        for (pg, g), (pe, ex) in zip(jax.tree_util.tree_leaves_with_path(got), jax.tree_util.tree_leaves_with_path(exp)):
            if pg != pe or (isinstance(ex, str) and g != ex) or (not isinstance(ex, str) and (np.shape(g) != np.shape(ex) or not np.allclose(_np(g), _np(ex), rtol=ktol(ak, bk, hw, "32"), atol=1e-6))):
                errs.append(f"unwrap at {jax.tree_util.keystr(pg)} = {np.ravel(np.asarray(g)).tolist()[:4]}, expected {jax.tree_util.keystr(pe)} = {np.ravel(np.asarray(ex)).tolist()[:4]}")
        again = W.unwrap(got)
        if jax.tree_util.tree_structure(again) != jax.tree_util.tree_structure(got) or any(isinstance(n, W.AbstractUnwrappable) for n in jax.tree_util.tree_leaves(got, is_leaf=lambda n: isinstance(n, W.AbstractUnwrappable))):
            errs.append("unwrap is not idempotent / leaves a wrapper behind")
        if errs:
            _viol(ctx, u, "C12", "C12:unwrap-arguments", f"wrapper tree built with {case}: " + "; ".join(errs[:2]), dict(args=case))
    default_optimizer_unit(ctx, "C12")


def default_optimizer_unit(ctx, prop):
    """Both loops with optimizer=None and a learning_rate in every type variant (harness/c12.py / c16.py always pass an optimizer): the run completes, frozen and non-float
    leaves stay bit-identical (C12), one loss per epoch / step is recorded (C16).  Whether the first Adam step has size learning_rate goes to ctx.notes only."""
    import optax
    from flowjax.train import fit_to_data, fit_to_variational_target
    from flowjax.train.losses import ElboLoss

    L = _L()
    rng, jnp, jax, eqx, B, D, W = ctx.rng, L["jnp"], L["jax"], L["eqx"], L["B"], L["D"], L["W"]
    uf = ctx.unit("argcov-default-optimizer", "fit_to_data / fit_to_variational_target with optimizer=None (never run by c12.py / c16.py), learning_rate as python / NumPy / 0-d array / float32, "
                                              "show_progress both ways, NumPy x, steps / num_samples as NumPy ints: the run completes, NonTrainable and non-float leaves are bit-identical, one loss "
                                              "per epoch / step is recorded (the step size vs learning_rate is written to the notes only: it is documentation, not property text)")
    lr_kinds = [FLT_KINDS[int(j)] for j in rng.permutation(6)]
    for rep in range(8):
        lr, lrk = [0.125, 0.25, 0.03125][int(rng.integers(0, 3))], lr_kinds[(rep // 2 + 3 * (rep % 2)) % 6]  # each loop sees >= 3 distinct kinds without an optimizer
        dist = D.Transformed(D.Normal(jnp.asarray(rng.normal(0, 1, 2)), K(1.5, kind_of(rng, 1.5))), W.non_trainable(B.Affine(jnp.asarray([0.5, -0.5]), 2.0)))
        dist = eqx.tree_at(lambda d: d.base_dist.bijection.loc, dist, W.NonTrainable(dist.base_dist.bijection.loc))
        x = rng.normal(0, 1, (12, 2))
        which, given = ["data", "variational"][rep % 2], rep >= 6
        kw = dict(learning_rate=K(lr, lrk), show_progress=bool(rng.integers(0, 2)), return_best=False, **(dict(optimizer=optax.sgd(0.5)) if given else {}))
        case = dict(loop=which, learning_rate=lr, kind=lrk, optimizer="sgd(0.5)" if given else None, show_progress=kw["show_progress"], x=x.tolist())
        uf.count((rep, case), tag=which)
        try:
            if which == "data":
                new, ls = fit_to_data(_key(rng), dist, [x, x.astype(np.float32), jnp.asarray(x)][int(rng.integers(0, 3))], max_epochs=1, batch_size=50, val_prop=0.25, **kw)
            else:
                new, ls = fit_to_variational_target(_key(rng), dist, ElboLoss(lambda v: -0.5 * jnp.sum((v - 1.0) ** 2), num_samples=K(4, kind_of(rng, 4, INT_KINDS[:3]))), steps=K(1, kind_of(rng, 1, INT_KINDS)), **kw)
            errs = []
            is_nt = lambda n: isinstance(n, W.NonTrainable)
            for (p, o), n_ in zip(jax.tree_util.tree_leaves_with_path(dist, is_leaf=is_nt), jax.tree_util.tree_leaves(new, is_leaf=is_nt)):
                frozen = is_nt(o) or not eqx.is_inexact_array(o)
                for ol, nl in zip(jax.tree_util.tree_leaves(o), jax.tree_util.tree_leaves(n_)):
                    if frozen and not (np.array_equal(np.asarray(ol), np.asarray(nl)) if eqx.is_array_like(ol) else ol == nl):
                        errs.append(f"frozen / non-float leaf {jax.tree_util.keystr(p)} changed from {np.ravel(np.asarray(ol)).tolist()[:3]} to {np.ravel(np.asarray(nl)).tolist()[:3]}")
                    if not frozen and (np.allclose(np.abs(_np(nl) - _np(ol)), lr, rtol=1e-3 + ktol(lrk)) == given):  # documentation, not property text: a note, never an alarm
                        ctx.notes.append(f"argcov: {which} loop, learning_rate {lr} ({lrk}), optimizer {'given' if given else 'None'}: trainable leaf {jax.tree_util.keystr(p)} moved by "
                                         f"{np.ravel(np.abs(_np(nl) - _np(ol))).tolist()[:2]} in its first step (documented: Adam(learning_rate) unless an optimizer is given)")
            n_l = len(ls["train"]) if which == "data" else len(ls)
            if n_l != 1 or (which == "data" and len(ls["val"]) != 1):
                errs.append(f"{n_l} losses recorded for one epoch / step")
        except Exception as ex:  # noqa: BLE001
            errs = [f"raised {type(ex).__name__}: {str(ex)[:120]}"]
        if errs:
            _viol(ctx, uf, prop, f"{prop}:default-optimizer:{which}", f"{which} loop with {dict((k, v) for k, v in case.items() if k != 'x')}: " + "; ".join(errs[:2]), dict(args=case))


def unit_c15(ctx):
    """The clauses of C15 on the call trace of the real fit_to_data (callback loss + counting optimiser of harness/c15.py) under argument forms that harness/c15.py never
    passes: x / condition as NumPy arrays (float64, float32, integer dtype), batch_size as NumPy ints and larger than the data, val_prop as NumPy floats, show_progress=True."""
    from harness import c15

    S = c15._setup()
    rng, jnp, jax = ctx.rng, S["jnp"], S["jax"]
    u = ctx.unit("argcov-data-arguments", "fit_to_data with NumPy-typed x / condition / batch_size / val_prop, batch_size > n, show_progress=True: rows pair x with their own condition, "
                                          "train and validation rows are disjoint and of the documented sizes, a training row is used at most once per epoch in full batches, keys are "
                                          "fresh, the same key reproduces the run")
    for rep in range(6):
        n, epochs = int(rng.integers(4, 25)), int(rng.integers(1, 4))
        vp = float(rng.integers(1, n)) / n if rng.integers(0, 2) else [0.25, 0.5, 0.125][int(rng.integers(0, 3))]
        nt = n - round(vp * n)
        if not 0 < nt < n:
            continue
        bs = int([rng.integers(1, nt + 1), nt, n + int(rng.integers(0, 50)), 10 ** 6][int(rng.integers(0, 4))])
        bsk, vpk, xh, ch = kind_of(rng, bs, ("pyint", "np.int64")), kind_of(rng, 0.5, ("pyfloat", "np.float64", "np0d", "jax0d")), int(rng.integers(0, 4)), int(rng.integers(0, 5))
        form = lambda a, h: [a, a.astype(np.float32), a.astype(np.int32), jnp.asarray(a, dtype=jnp.float32), None][h]
        xid = np.repeat(np.arange(n, dtype=float)[:, None], c15.XCOLS, 1)
        x, c = form(xid, xh), form(c15.COND_TAG + xid, ch)
        show, seed = bool(rng.integers(0, 2)), int(rng.integers(0, 2 ** 31))
        case = dict(n=n, epochs=epochs, val_prop=vp, batch_size=bs, kinds=[bsk, vpk], x_form=xh, condition_form=ch, show_progress=show, seed=seed)
        u.count(case, tag=f"x{xh}c{ch}")

        def once():
            c15._seen.clear()
            d, _ = S["fit_to_data"](S["jr"].PRNGKey(seed), S["M"](jnp.array(0.0)), x, condition=c, loss_fn=S["loss_fn"], max_epochs=epochs, max_patience=c15.BIG_PATIENCE,
                                    batch_size=K(bs, bsk), val_prop=K(vp, vpk), optimizer=S["opt"], return_best=False, show_progress=show)
            jax.effects_barrier()
            calls = [(p, kb, c15._decode(xa, 0), c15._decode(ca, c15.COND_TAG)) for (p, kb, xa, ca) in c15._seen]
            c15._seen.clear()
            return calls, int(d.p)
        try:
            calls, final = once()
            errs = []
            ps = [q[0] for q in calls] + [final]
            kinds = ["T" if ps[i + 1] == ps[i] + 1 else "V" for i in range(len(calls))]
            eb = min(bs, nt)
            per_t, per_v = nt // eb, (n - nt) // min(bs, n - nt)
            if kinds != (["T"] * per_t + ["V"] * per_v) * epochs:
                errs.append(f"call pattern {''.join(kinds)} is not {epochs} x ({per_t} gradient steps of {eb} rows + {per_v} validation calls)")
            T, V = set(), set()
            for i, (p, kb, xr, cr) in enumerate(calls):
                if -1 in xr or (cr is not None and cr != xr):
                    errs.append(f"call {i}: x rows {xr} are paired with condition rows {cr}")
                if len(set(xr)) != len(xr) or len(xr) != (eb if kinds[i] == "T" else min(bs, n - nt)):
                    errs.append(f"call {i} ({kinds[i]}): rows {xr}: repeated rows or not a full batch")
                (T if kinds[i] == "T" else V).update(xr)
            for e_ in range(epochs):
                rows = [r for i, q in enumerate(calls) if kinds[i] == "T" and i // max(per_t + per_v, 1) == e_ for r in q[2]]
                if len(set(rows)) != len(rows):
                    errs.append(f"epoch {e_}: a training row is used twice: {sorted(rows)}")
            if T & V or len(T) > nt or len(V) > n - nt or (per_t * eb == nt and len(T) != nt):
                errs.append(f"rows in gradient steps {sorted(T)} and validation rows {sorted(V)} are not disjoint parts of sizes {nt} / {n - nt}")
            if len({q[1] for q in calls}) != len(calls):
                errs.append("a key is handed to two loss calls")
            if once() != (calls, final):
                errs.append("the same key does not reproduce the run")
        except Exception as ex:  # noqa: BLE001
            errs = [f"raised {type(ex).__name__}: {str(ex)[:120]}"]
        if errs:
            _viol(ctx, u, "C15", "C15:data-arguments", f"fit_to_data with {case}: " + "; ".join(errs[:2]), dict(args=case))


def unit_c16(ctx):
    """Scripted loss + counting optimiser of harness/c16.py; the arguments harness/c16.py passes as python values are given as NumPy / 0-d jax values, plus batch_size > n,
    show_progress=True, NumPy x, val_prop as a NumPy float, steps in every integer variant; the clauses are c16.oracle_data / c16.oracle_var."""
    from harness import c16

    S = c16._setup()
    rng, jnp = ctx.rng, S["jnp"]
    u = ctx.unit("argcov-loop-arguments", "fit_to_data(max_epochs / max_patience as python int, np.int64, 0-d NumPy / jax arrays; batch_size np.int64; val_prop np.float64 / 0-d; return_best np.bool_; "
                                          "show_progress=True; NumPy x; batch_size > n) and fit_to_variational_target(steps in every integer variant, show_progress=True): stopping epoch, "
                                          "recorded losses and returned parameters as the property states")
    for rep in range(60 if ctx.quick else 600):
        Ln = int(rng.integers(1, 8))
        vals = [int(v) for v in (rng.permutation(np.arange(1, Ln + 1)) if rng.integers(0, 2) else rng.integers(1, 4, Ln))]
        rb, show = bool(rng.integers(0, 2)), rng.random() < 0.3
        rbv = [rb, np.bool_(rb)][int(rng.integers(0, 2))]
        if rep % 2:
            P, m, nb = int(rng.integers(0, 4)), int(rng.integers(0, Ln + 1)), int(rng.integers(1, 3))
            pk, mk, bk, vk = kind_of(rng, P, INT_KINDS), kind_of(rng, m, INT_KINDS), kind_of(rng, 3, ("pyint", "np.int64")), kind_of(rng, 0.5, ("pyfloat", "np.float64", "np0d", "jax0d"))  # batch_size is a static jit argument: hashable kinds only
            big = nb == 1 and bool(rng.integers(0, 2))  # one training batch per epoch: a batch_size above n must behave as batch_size = n_train
            table = np.full(c16.TLEN, 9999, dtype=np.int64)
            table[[e_ * nb for e_ in range(1, Ln + 1)]] = vals
            n = 3 * nb + 1
            x = np.arange(float(n))[:, None]
            case = dict(loop="fit_to_data", vals=vals, max_patience=P, max_epochs=m, return_best=rb, batches_per_epoch=nb, batch_size=n + 7 if big else 3, kinds=[pk, mk, bk, vk, type(rbv).__name__], show_progress=show)
            u.count(case, tag="data")
            try:
                d, ls = S["fit_to_data"](S["jr"].PRNGKey(0), S["M"](jnp.array(0.0), jnp.asarray(table)), [x, x.astype(np.float32), jnp.asarray(x)][int(rng.integers(0, 3))], loss_fn=S["data_loss"],
                                         max_epochs=K(m, mk), max_patience=K(P, pk), batch_size=K(case["batch_size"], bk), val_prop=K(1.0 / n, vk), optimizer=S["counting"](), return_best=rbv, show_progress=show)
                errs = c16.oracle_data(vals, P, m, rb, nb, (int(d.p), [float(v) for v in ls["train"]], [float(v) for v in ls["val"]]))
            except Exception as ex:  # noqa: BLE001
                errs = [f"raised {type(ex).__name__}: {str(ex)[:120]}"]
        else:
            steps = int(rng.integers(0, Ln + 1))
            sk = kind_of(rng, steps, INT_KINDS)
            table = np.full(c16.TLEN, 9999, dtype=np.int64)
            table[: Ln] = vals
            case = dict(loop="fit_to_variational_target", losses=vals, steps=steps, return_best=rb, kinds=[sk, type(rbv).__name__], show_progress=show)
            u.count(case, tag="variational")
            try:
                d, ls = S["fit_var"](S["jr"].PRNGKey(0), S["M"](jnp.array(0.0), jnp.asarray(table)), S["var_loss"], steps=K(steps, sk), optimizer=S["counting"](), return_best=rbv, show_progress=show)
                errs = c16.oracle_var(vals, steps, rb, (int(d.p), [float(v) for v in ls]))
            except Exception as ex:  # noqa: BLE001
                errs = [f"raised {type(ex).__name__}: {str(ex)[:120]}"]
        if errs:
            _viol(ctx, u, "C16", f"C16:{case['loop']}", f"{case['loop']} with {case}: " + "; ".join(errs[:2]), dict(args=case))
    default_optimizer_unit(ctx, "C16")


def unit_c17(ctx):
    from harness import c17, flowcases
    from flowjax.train import losses as LS

    L = _L()
    rng, jnp, eqx, B, D, F, W = ctx.rng, L["jnp"], L["eqx"], L["B"], L["D"], L["F"], L["W"]
    u = ctx.unit("argcov-loss-arguments", "MaximumLikelihoodLoss (x as NumPy / float32, condition by keyword, key given / omitted), ElboLoss (num_samples as NumPy ints, stick_the_landing "
                                          "both ways), ContrastiveLoss (n_contrastive = batch - 1 and smaller, condition None, non-Normal priors built from type variants) on models built with non-default keywords: "
                                          "value == the defining estimator computed with NumPy from the public methods; contrastive rows distinct others; loss >= 0")
    part = lambda d: eqx.partition(d, eqx.is_inexact_array, is_leaf=lambda n: isinstance(n, W.NonTrainable))
    for rep in range(4 if ctx.quick else 20):
        dim, cd = int(rng.integers(1, 4)), [None, 2][int(rng.integers(0, 2))]
        base = D.StandardNormal((dim,))
        flows = [lambda: F.masked_autoregressive_flow(_key(rng), base_dist=base, cond_dim=cd, flow_layers=2, nn_width=dim + 2, nn_depth=int(rng.choice([0, 2])), nn_activation=jnp.tanh, invert=bool(rng.integers(0, 2))),
                 lambda: F.planar_flow(_key(rng), base_dist=base, cond_dim=cd, flow_layers=2, invert=False, negative_slope=K(*_num(rng, 0.25, 3, allowed=("pyint", "pyfloat"))), **({} if cd is None else dict(width_size=3, depth=0))),
                 lambda: D.Transformed(D.StudentT(K(*_num(rng, 2, 9)), jnp.zeros(dim), K(*_num(rng, 0.5, 2))), B.Affine(jnp.asarray(rng.normal(0, 1, dim)), K(*_num(rng, 0.5, 3))))]
        j = int(rng.integers(0, 3))
        d = flows[j]()
        cd = d.cond_shape and cd
        d = flowcases.perturb(d, rng, 0.3)
        p, st_ = part(d)
        Bn = int(rng.integers(3, 8))
        xh = int(rng.integers(0, 3))
        x64 = rng.normal(0, 1.2, (Bn, dim))
        x = [x64, x64.astype(np.float32), jnp.asarray(x64, dtype=jnp.float32)][xh]
        xe = _np(x)  # the values the loss actually receives
        c = None if cd is None else jnp.asarray(rng.normal(0, 1, (Bn, cd)))
        key, errs = _key(rng), []
        case = dict(model=["maf(nn_depth, tanh)", "planar_flow(invert=False, negative_slope)", "Transformed(StudentT, Affine)"][j], dim=dim, cond_dim=cd, batch=Bn, x_form=xh, x=x64.tolist(), key=_np(key).tolist())
        lp = lambda xs, cc=None: _np(d.log_prob(jnp.asarray(xs), *(() if cd is None else (c if cc is None else cc,))))
        try:
            u.count((rep, "ml", case), tag="ml")
            ml = LS.MaximumLikelihoodLoss()
            got = [float(ml(p, st_, jnp.asarray(x) if xh < 2 else x, condition=c)), float(ml(p, st_, jnp.asarray(x), c, key)), float(ml(p, st_, jnp.asarray(x), c, key=None))]
            if not all(abs(g - c17.np_ml(lp(xe))) <= 1e-9 * max(1, abs(g)) for g in got):
                errs.append(f"MaximumLikelihoodLoss = {got} (condition by keyword / with key / key=None), minus the mean log-probability is {c17.np_ml(lp(xe))!r}")
            if cd is None and "StudentT" not in case["model"]:
                ns, nk = int(rng.integers(1, 6)), kind_of(rng, 3, ("pyint", "np.int64"))
                u.count((rep, "elbo", ns, nk), tag="elbo")
                target = lambda v: -0.5 * jnp.sum((v - 0.5) ** 2) + jnp.sum(jnp.sin(v))
                vals = [float(LS.ElboLoss(target, K(ns, nk), stick_the_landing=stl)(p, st_, key)) for stl in (False, True)]
                xs, lq = d.sample_and_log_prob(key, (ns,))
                ref = c17.np_elbo(_np(lq), [float(target(v)) for v in xs])
                if not all(abs(v - ref) <= 1e-8 * max(1, abs(ref)) for v in vals):
                    errs.append(f"ElboLoss(num_samples={ns} as {nk}) = {vals} (stick_the_landing False / True), mean(log q - target) over the samples of the key is {ref!r}")
            n = [Bn - 1, int(rng.integers(1, Bn))][int(rng.integers(0, 2))]
            nk = "pyint"  # a NumPy-typed n_contrastive is vmapped as if it were data (ValueError): outside the documented `int`, see ARGCOV.md
            prior = [D.Normal(jnp.zeros(dim), 2.0), D.StudentT(3, jnp.zeros(dim), 1.5), D.Laplace(jnp.zeros(dim), K(2, kind_of(rng, 2)))][int(rng.integers(0, 3))]
            u.count((rep, "contrastive", n, nk), tag="contrastive")
            got = float(LS.ContrastiveLoss(prior, K(n, nk))(p, st_, jnp.asarray(xe), c, key))
            idxs = np.asarray(LS._get_contrastive_idxs(key, Bn, n))
            LQ = np.stack([lp(xe, None if cd is None else jnp.broadcast_to(c[i], (Bn, cd))) for i in range(Bn)])
            ref, _rows = c17.np_contrastive(LQ, _np(prior.log_prob(jnp.asarray(xe))), idxs.tolist())
            errs += c17.idx_clauses(idxs, Bn, n)[:1]
            if not abs(got - ref) <= 1e-8 * max(1, abs(ref)) or got < -1e-12:
                errs.append(f"ContrastiveLoss(n_contrastive={n} as {nk}) = {got!r}, the softmax cross-entropy over rows {idxs.tolist()} is {ref!r}")
        except Exception as ex:  # noqa: BLE001
            errs.append(f"raised {type(ex).__name__}: {str(ex)[:120]}")
        if errs:
            _viol(ctx, u, "C17", "C17:loss-arguments", f"losses on {dict((k, v) for k, v in case.items() if k not in ('x', 'key'))}: " + "; ".join(errs[:2]), dict(args=case))
    c17._free_compiled()


def run_units(ctx, prop):
    _USED.clear()
    return globals()[f"unit_{prop.lower()}"](ctx)
