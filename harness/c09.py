"""C09 -- autoregressive, coupling and block structure holds for all weights.

Tie (exact / boolean unless said otherwise), against the extracted Coq model Model/Masks.v:
  mask-helpers      flowjax.masks.{rank_based_mask, block_diag_mask, block_tril_mask} vs the model, exhaustive size grid
  maf-masks         the masks inside real MaskedAutoregressive objects (Where.cond, and the zero pattern of the UNWRAPPED
                    weights after every raw weight was replaced by 1) vs Model.maf_masks
  maf-dependence    jax.jacobian sparsity of the real transformer-parameter function and of transform, raw leaves replaced
                    (random large of both signs / all positive / after a gradient step), vs Model.maf_param_dep /
                    maf_transform_dep (subset for arbitrary weights, equality for the all-positive assignment)
  maf-values        integer-valued weights and inputs (exact float arithmetic): the real parameter network and the real
                    transform (custom 1- and 2-parameter transformers) vs Model.maf_params / maf_transform, bit for bit
  coupling          Jacobian pattern of real Coupling objects vs Model.coupling_dep; exact values vs Model.coupling_transform
  bnaf              masks / unwrapped weights / Jacobians / values of real BlockAutoregressiveNetwork objects vs
                    Model.bnaf_tril_masks, bnaf_diag_masks, reach, bnaf_weight (1e-9), bnaf_transform (1e-9)
Search oracle (independent of the model): the Jacobian patterns themselves -- parameters strictly lower triangular in x,
transform lower triangular, first coupling block the identity, BNAF lower triangular with positive diagonal -- and the
bitwise invariance of outputs under changes of the inputs they must not depend on; the documented closed forms of the masks.
"""

import itertools
import warnings

import numpy as np

from harness.common import fhex, fparse

PROPERTY = "C09"
GROUPS = ["masks"]
EXTRA_PROPS = ["Props/X09_bnaf.v", "Props/X01_autoreg.v"]  # BNAF positivity/monotonicity for all raw weights + bridge to the inverter; the concrete masked conditioner
MANIFEST = {
    "design_ref": "DESIGN.md 4.9",
    "technique": "Coq proof by induction over layers / sizes about an executable Gallina model generic in the numeric carrier "
                 "(Model/Masks.v) + exact correspondence of the extracted model with the real masks, Jacobian sparsity and values",
    "text": "18 theorems (all closed under the global context) about an executable model of rank_based_mask / block_diag_mask / "
            "block_tril_mask, the rank formulas of MaskedAutoregressive (incl. the % 0 = 0 case of dim 1 and the -1 ranks of the "
            "condition), the masked MLP, Coupling.transform and the block autoregressive network, over an ARBITRARY numeric carrier "
            "with the single algebraic hypothesis 0*a = 0 and an arbitrary activation. For ALL raw weights, biases, dims, cond dims, "
            "widths, depths (0 included) and parameter counts: the transformer parameters of coordinate i depend only on x_<i (and on "
            "the condition), y_i only on x_<=i; for width >= dim-1 (unconditional) / >= dim (conditional) every permitted dependency "
            "has an all-true mask path, and every condition entry reaches every parameter; the model's reachability matrix is true "
            "exactly on such paths and 'false' implies independence for all weights; Coupling returns its first block unchanged and "
            "coordinate i >= d depends on itself, the first block and the condition for an arbitrary conditioner; BNAF output i does "
            "not depend on x_j, j > i; the mask helpers equal their closed forms for every size and offset; the Where mask is applied "
            "at evaluation (training cannot un-mask). PARTIAL: 'strictly positive Jacobian diagonal' of BNAF is proved as strict "
            "monotonicity of y_i in x_i over any ordered carrier (C09_bnaf_monotone_partial), not in derivative form, and takes "
            "'diagonal-block weights positive' as a hypothesis (what softplus + weight normalisation deliver; checked numerically on "
            "the real unwrapped weights). The model is tied to /repo on every run: masks exactly (helpers on a size grid, masks inside "
            "real MaskedAutoregressive / BlockAutoregressiveNetwork objects after unwrap), dependence through jax.jacobian sparsity "
            "after replacing every raw weight leaf (random large, all-positive, after a gradient step) against the model's "
            "reachability matrices, values bit for bit on integer-valued networks.",
    "note": "Trusted: Coq kernel; extraction (ExtrOcamlBasic); OCaml driver; harness. 0*a = 0 fails for non-finite IEEE values "
            "(0*inf = NaN): 'arbitrary inputs/weights' means finite ones. A zero Jacobian entry is local evidence of "
            "independence only; it is complemented by bitwise value-invariance under large input changes. The model is hand "
            "written and tied to the code by sampled exact correspondence.",
}
_state = {}


# ----------------------------------------------------------------------------------------------------
# setup
# ----------------------------------------------------------------------------------------------------
def _setup():
    if _state:
        return _state
    warnings.filterwarnings("ignore")
    from typing import ClassVar

    import equinox as eqx
    import jax
    import jax.numpy as jnp
    import jax.random as jr
    from flowjax import masks as fmasks
    from flowjax.bijections import (AbstractBijection, Affine, BlockAutoregressiveNetwork, Coupling, Loc,
                                    MaskedAutoregressive, RationalQuadraticSpline)
    from flowjax.wrappers import Where, unwrap

    class Lin2(AbstractBijection):
        """y = a*x + b: a two-parameter transformer whose parameters are visible exactly in the output."""
        a: jax.Array
        b: jax.Array
        shape: tuple = ()
        cond_shape: ClassVar[None] = None

        def transform(self, x, condition=None):
            return self.a * x + self.b

        def transform_and_log_det(self, x, condition=None):
            return self.a * x + self.b, jnp.log(jnp.abs(self.a))

        def inverse(self, y, condition=None):
            return (y - self.b) / self.a

        def inverse_and_log_det(self, y, condition=None):
            return (y - self.b) / self.a, -jnp.log(jnp.abs(self.a))

    def transformer(name):
        if name == "affine":
            return Affine()
        if name == "rqs":
            return RationalQuadraticSpline(knots=2, interval=4)
        if name == "loc":
            return Loc(jnp.array(1.0))
        if name == "lin2":
            return Lin2(jnp.array(2.0), jnp.array(3.0))
        raise ValueError(name)

    _state.update(dict(eqx=eqx, jax=jax, jnp=jnp, jr=jr, fmasks=fmasks, MAF=MaskedAutoregressive, BNAF=BlockAutoregressiveNetwork,
                       Coupling=Coupling, Where=Where, unwrap=unwrap, transformer=transformer))
    return _state


TAU = {"loc": "loc:0x1p+0", "lin2": "lin2:0x1p+1:0x1.8p+1"}  # initial parameters added by the ravelled constructor


# ----------------------------------------------------------------------------------------------------
# wire helpers
# ----------------------------------------------------------------------------------------------------
def ilist(xs):
    xs = [int(v) for v in xs]
    return ",".join(map(str, xs)) if xs else "-"


def fvec(v):
    v = np.asarray(v, dtype=np.float64).ravel()
    return ",".join(fhex(x) for x in v) if v.size else "-"


def fmat(m):
    m = np.asarray(m, dtype=np.float64)
    if m.shape[0] == 0:
        return "-"
    return ";".join((",".join(fhex(x) for x in row) if row.size else "e") for row in m)


def fmats(ms):
    return "/".join(fmat(m) for m in ms) if ms else "-"


def fvecs(vs):
    return "/".join((fvec(v) if np.asarray(v).size else "e") for v in vs) if vs else "-"


def parse_bmats(tokens):
    """Parse a sequence of 'R C bits' triples and 'K' counted lists as written by the driver; returns a reader."""
    pos = [0]

    def mat():
        r, c, bits = int(tokens[pos[0]]), int(tokens[pos[0] + 1]), tokens[pos[0] + 2]
        pos[0] += 3
        a = np.array([ch == "1" for ch in (bits if bits != "-" else "")], dtype=bool)
        return a.reshape(r, c) if r * c else np.zeros((r, c), bool)

    def mats():
        k = int(tokens[pos[0]])
        pos[0] += 1
        return [mat() for _ in range(k)]

    return mat, mats


def parse_floats(s):
    return np.array([] if s in ("-", "") else [fparse(t) for t in s.split(",")], dtype=np.float64)


def cond_tok(cd):
    return -1 if cd is None else int(cd)


def same_shape_eq(a, b):
    a, b = np.asarray(a), np.asarray(b)
    if a.size == 0 and b.size == 0 and a.shape[0] == b.shape[0]:
        return True
    return a.shape == b.shape and bool((a == b).all())


# ----------------------------------------------------------------------------------------------------
# raw-leaf replacement ("eqx.tree_at on the raw leaves")
# ----------------------------------------------------------------------------------------------------
def replace_leaves(tree, gen):
    """Replace every inexact-array leaf of `tree` by gen(leaf) -- the raw trainable arrays, wrappers untouched."""
    s = _setup()
    eqx, jax, jnp = s["eqx"], s["jax"], s["jnp"]
    params, static = eqx.partition(tree, eqx.is_inexact_array)
    leaves, treedef = jax.tree_util.tree_flatten(params)
    new = [jnp.asarray(gen(np.asarray(l)), dtype=l.dtype) for l in leaves]
    return eqx.combine(jax.tree_util.tree_unflatten(treedef, new), static)


def gen_weights(kind, r):
    if kind == "random":      # both signs, large
        return lambda l: r.normal(0.0, 5.0, size=l.shape)
    if kind == "positive":    # every permitted path visible
        return lambda l: np.abs(r.normal(0.0, 0.5, size=l.shape)) + 0.5
    if kind == "ones":
        return lambda l: np.ones(l.shape)
    if kind == "int":         # exact float arithmetic
        return lambda l: r.integers(-3, 4, size=l.shape).astype(np.float64)
    if kind == "init":
        return lambda l: l
    raise ValueError(kind)


_jit = {}
_jit_evictions = [0]


def jitted(kind, cfg, build, fn):
    """(F, J) compiled once per (kind, shape): F(params, z) and its Jacobian w.r.t. z, with the module's inexact leaves as an
    argument (so that replacing the raw weights does not recompile) and everything else -- masks, wrappers, activation --
    closed over from a freshly constructed real object.  fn(module, z) evaluates the real methods."""
    s = _setup()
    eqx, jax = s["eqx"], s["jax"]
    key = (kind,) + tuple(sorted((k, str(v)) for k, v in cfg.items()))
    if key not in _jit:
        if len(_jit) >= 12:   # cases of one shape are consecutive: keep few executables alive, and drop JAX's own caches
            _jit.clear()      # now and then (thousands of compiled shapes exhaust memory in the thorough tier)
            _jit_evictions[0] += 1
            if _jit_evictions[0] % 25 == 0:
                jax.clear_caches()
        _, static = eqx.partition(build(cfg), eqx.is_inexact_array)

        def F(params, z):
            return fn(eqx.combine(params, static), z)

        _jit[key] = (jax.jit(F), jax.jit(jax.jacobian(F, argnums=1)))
    return _jit[key]


def leaves_of(m):
    s = _setup()
    return s["eqx"].filter(m, s["eqx"].is_inexact_array)


# ----------------------------------------------------------------------------------------------------
# unit 1: the mask helpers
# ----------------------------------------------------------------------------------------------------
def run_mask_helpers(ctx):
    s = _setup()
    jnp, fm = s["jnp"], s["fmasks"]
    u = ctx.unit("mask-helpers", "rank_based_mask / block_diag_mask / block_tril_mask vs the model and vs their documented closed "
                                 "forms; block shapes 1..3 x 1..3 (1..5 thorough), 1..3 (4) blocks, offsets -2..2, rank vectors of "
                                 "length 0..4 (6) with repeated and negative ranks; non-trivial = the mask has a true and a false entry")
    cases, reqs = [], []
    r = ctx.rng
    B, N = (3, 3) if ctx.quick else (5, 4)
    for bh, bw, n in itertools.product(range(1, B + 1), range(1, B + 1), range(1, N + 1)):
        cases.append(("bdiag", bh, bw, n))
        reqs.append(f"bdiag {bh} {bw} {n}")
        for k in ((0,) if ctx.quick and (bh > 2 or bw > 2) else (0, -1, 1) if ctx.quick else (-2, -1, 0, 1, 2)):
            cases.append(("btril", bh, bw, n, k))
            reqs.append(f"btril {bh} {bw} {n} {k}")
    L = 5 if ctx.quick else 7
    for _ in range(60 if ctx.quick else 1500):
        a = [int(v) for v in r.integers(-2, 6, size=int(r.integers(0, L)))]
        b = [int(v) for v in r.integers(-2, 6, size=int(r.integers(0, L)))]
        for eq in (False, True):
            cases.append(("rank", a, b, eq))
            reqs.append(f"rank {ilist(a)} {ilist(b)} {int(eq)}")
    out = ctx.model(reqs)
    for case, mo in zip(cases, out):
        mat, _ = parse_bmats(mo.split())
        model = mat()
        if case[0] == "bdiag":
            _, bh, bw, n = case
            impl = np.asarray(fm.block_diag_mask((bh, bw), n))
            rr, cc = np.indices(impl.shape)
            ref = (rr // bh) == (cc // bw) if impl.shape == (bh * n, bw * n) else None
            cj = dict(fn="block_diag_mask", block_shape=[bh, bw], n_blocks=n)
        elif case[0] == "btril":
            _, bh, bw, n, k = case
            impl = np.asarray(fm.block_tril_mask((bh, bw), n, k))
            rr, cc = np.indices(impl.shape)
            ref = np.maximum(0, cc // bw - k) <= rr // bh if impl.shape == (bh * n, bw * n) else None
            cj = dict(fn="block_tril_mask", block_shape=[bh, bw], n_blocks=n, k=k)
        else:
            _, a, b, eq = case
            impl = np.asarray(fm.rank_based_mask(jnp.asarray(a, dtype=int), jnp.asarray(b, dtype=int), eq=eq))
            A, Bv = np.asarray(a, dtype=int), np.asarray(b, dtype=int)
            ref = (Bv[:, None] >= A[None, :]) if eq else (Bv[:, None] > A[None, :])
            cj = dict(fn="rank_based_mask", in_ranks=a, out_ranks=b, eq=eq)
        u.count(cj, nontrivial=bool(impl.any() and not impl.all()), tag=case[0])
        oracle_bad = ref is None or not same_shape_eq(impl, ref)
        if not same_shape_eq(impl, model) or oracle_bad:
            u.disagreements += 1
            ctx.violation(sig=f"masks.{cj['fn']}:{'pattern' if oracle_bad else 'model-mismatch'}",
                          what=f"{cj['fn']}{tuple(v for k_, v in cj.items() if k_ != 'fn')} returns {impl.astype(int).tolist()}; "
                               f"documented pattern {None if ref is None else ref.astype(int).tolist()}; model {model.astype(int).tolist()}",
                          case=cj, found_input=oracle_bad, unit=u.name, expected=model.astype(int).tolist(),
                          observed=impl.astype(int).tolist(), broken="correspondence mask-helpers / C09_block_*_closed_form, C09_rank_mask_spec",
                          reproducer="cd /verif && ./check C09 --replay <this file>")
    # larger block counts / sizes against the documented closed form only (no model call): every (block shape, n_blocks) up to 12 x 12 x 24,
    # offsets -2..2 (seeded change C09f derived block indices from a float linspace: wrong at (5, 7), (10, 11), (11, 17), ... only)
    sizes = list(itertools.product(range(1, 13), range(1, 13), range(1, 25)))
    if ctx.quick:   # a seed-rotated sample: all (1, bw) / (bh, 1) blocks with bw, bh in {5, 7, 10, 11} plus 60 random triples (the calls are eager JAX loops)
        keep = [t for t in sizes if (t[0] == 1 and t[1] in (5, 7, 10, 11)) or (t[1] == 1 and t[0] in (5, 7, 10, 11))]
        keep = [keep[int(j)] for j in r.choice(len(keep), size=70, replace=False)]
        rest = [t for t in sizes if t not in keep]
        sizes = keep + [rest[int(j)] for j in r.choice(len(rest), size=60, replace=False)]
    else:   # thorough: every row / column block shape and a sample of 200 of the other 2900 triples
        keep = [t for t in sizes if t[0] == 1 or t[1] == 1]
        rest = [t for t in sizes if t[0] > 1 and t[1] > 1]
        sizes = keep + [rest[int(j)] for j in r.choice(len(rest), size=200, replace=False)]
    for i_sz, (bh, bw, n) in enumerate(sizes):
        if i_sz % 25 == 24:
            # every block of every size is a separately compiled scatter: thousands of live XLA executables exhaust the process's
            # memory mappings (the thorough tier segfaulted inside XLA's compile step); drop them regularly
            s["jax"].clear_caches()
        rr, cc = np.indices((bh * n, bw * n))
        got = np.asarray(fm.block_diag_mask((bh, bw), n))
        u.count(("bdiag-large", bh, bw, n), nontrivial=n > 1, tag="bdiag-large")
        if got.shape != rr.shape or not np.array_equal(got, (rr // bh) == (cc // bw)):
            ctx.violation(sig="masks.block_diag_mask:pattern-large", what=f"block_diag_mask(({bh}, {bw}), {n}) differs from the documented block-diagonal pattern"
                          f"{'' if got.shape != rr.shape else ' at ' + str(np.argwhere(got != ((rr // bh) == (cc // bw)))[:3].tolist())}",
                          case=dict(fn="block_diag_mask", block_shape=[bh, bw], n_blocks=n), found_input=True, unit=u.name, broken="mask-helpers (oracle) / C09_block_diag_closed_form")
        for k in ((0, -1) if ctx.quick else (-1, 0, 1)):
            got = np.asarray(fm.block_tril_mask((bh, bw), n, k))
            ref = np.maximum(0, cc // bw - k) <= rr // bh
            u.count(("btril-large", bh, bw, n, k), nontrivial=n > 1, tag="btril-large")
            if got.shape != ref.shape or not np.array_equal(got, ref):
                ctx.violation(sig="masks.block_tril_mask:pattern-large", what=f"block_tril_mask(({bh}, {bw}), {n}, k={k}) differs from the documented block-lower-triangular pattern"
                              f"{'' if got.shape != ref.shape else ' at (row, column) ' + str(np.argwhere(got != ref)[:3].tolist())}",
                              case=dict(fn="block_tril_mask", block_shape=[bh, bw], n_blocks=n, k=k), found_input=True, unit=u.name, broken="mask-helpers (oracle) / C09_block_tril_closed_form")
    # rank arrays of every integer dtype, with values up to the ends of the dtype's range (a sentinel such as INT_MIN for "always
    # visible" inputs, unsigned ranks): the documented pattern is the comparison of the ranks AS INTEGERS (seeded change C09e compared
    # through a difference, which wraps).  Reference: python integers.
    for dt in ("int8", "uint8", "int16", "int32", "uint32", "int64"):
        info = np.iinfo(dt)
        for rep in range(2 if ctx.quick else 12):
            pool = [info.min, info.min + 1, info.max, info.max - 1, 0, 1, 2, 3] + ([-1] if info.min < 0 else [])
            a = [int(pool[int(r.integers(len(pool)))]) for _ in range(int(r.integers(1, 6)))]
            b = [int(pool[int(r.integers(len(pool)))]) for _ in range(int(r.integers(1, 6)))]
            for eq in (True, False):
                for lib in ("jax", "numpy"):
                    mk = (lambda v: jnp.asarray(np.asarray(v, dtype=dt))) if lib == "jax" else (lambda v: np.asarray(v, dtype=dt))
                    try:
                        impl = np.asarray(fm.rank_based_mask(mk(a), mk(b), eq=eq))
                    except Exception as e:  # noqa: BLE001
                        impl = None
                        err = f"{type(e).__name__}: {str(e)[:80]}"
                    ref = np.array([[(bo >= ai) if eq else (bo > ai) for ai in a] for bo in b], dtype=bool)
                    cj = dict(fn="rank_based_mask", in_ranks=a, out_ranks=b, eq=eq, dtype=dt, array=lib)
                    u.count(cj, nontrivial=bool(ref.any() and not ref.all()), tag=f"rank:{dt}")
                    if impl is None or not same_shape_eq(impl, ref):
                        ctx.violation(sig="masks.rank_based_mask:pattern-dtype",
                                      what=f"rank_based_mask(in_ranks={a}, out_ranks={b}, eq={eq}) on {lib} {dt} arrays returns {err if impl is None else impl.astype(int).tolist()}; "
                                           f"the ranks compared as integers give {ref.astype(int).tolist()}",
                                      case=cj, found_input=True, unit=u.name, expected=ref.astype(int).tolist(), observed=None if impl is None else impl.astype(int).tolist(),
                                      broken="mask-helpers (oracle): rank comparison for every integer dtype / C09_rank_mask_spec")
    ctx.sample(dict(unit="mask-helpers", case=dict(fn="block_tril_mask", block_shape=[2, 1], n_blocks=2, k=0),
                    value=np.asarray(fm.block_tril_mask((2, 1), 2)).astype(int).tolist()))


# ----------------------------------------------------------------------------------------------------
# units 2-4: MaskedAutoregressive
# ----------------------------------------------------------------------------------------------------
def maf_build(cfg, key=0):
    s = _setup()
    return s["MAF"](s["jr"].PRNGKey(key), transformer=s["transformer"](cfg["tr"]), dim=cfg["dim"], cond_dim=cfg["cond"],
                    nn_width=cfg["width"], nn_depth=cfg["depth"],
                    **({"nn_activation": s["jnp"].tanh} if cfg.get("act") == "tanh" else {}))


def maf_npar(m, dim):
    w = m.masked_autoregressive_mlp.layers[-1].weight
    shape = (w.if_true if hasattr(w, "if_true") else w).shape
    return shape[0] // dim


def maf_masks_of(m):
    """(declared masks from the Where wrappers or None, effective 0/1 pattern of the unwrapped weights with all raw weights = 1)"""
    s = _setup()
    declared = []
    for l in m.masked_autoregressive_mlp.layers:
        w = l.weight
        declared.append(np.asarray(w.cond).astype(bool) if isinstance(w, s["Where"]) else None)
    ones = s["unwrap"](replace_leaves(m, gen_weights("ones", None)))
    effective = [np.asarray(l.weight) for l in ones.masked_autoregressive_mlp.layers]
    return declared, effective


def maf_fn(cfg):
    s = _setup()
    jnp, unwrap = s["jnp"], s["unwrap"]
    dim, cd = cfg["dim"], cfg["cond"]

    def fn(m, z):
        xx, cc = z[:dim], (None if cd is None else z[dim:])
        nn_in = xx if cc is None else jnp.hstack((xx, cc))
        return jnp.concatenate([unwrap(m).masked_autoregressive_mlp(nn_in), m.transform(xx, cc), m.transform_and_log_det(xx, cc)[0]])

    return fn


def maf_jacobians(m, cfg, x, c):
    """dependency patterns observed on the implementation: parameters of coordinate i vs (x, c); y_i vs (x, c)."""
    s = _setup()
    jnp = s["jnp"]
    dim, cd = cfg["dim"], cfg["cond"]
    Fj, Jj = jitted("maf", cfg, maf_build, maf_fn(cfg))
    params = leaves_of(m)
    F = lambda zz: Fj(params, zz)
    z = jnp.asarray(np.concatenate([x, c]) if cd is not None else x)
    J = np.asarray(Jj(params, z))
    npar = (J.shape[0] - 2 * dim) // dim
    Jp = J[: dim * npar].reshape(dim, npar, -1)
    if not np.isfinite(J).all():
        raise FloatingPointError("non-finite Jacobian")   # outside the premise (finite values); callers skip the case
    # outputs of transform and of transform_and_log_det (two code paths): a dependence through either counts
    dep_y = (np.abs(J[dim * npar: dim * npar + dim]) > 0) | (np.abs(J[dim * npar + dim:]) > 0)
    return (np.abs(Jp) > 0).any(axis=1), dep_y, F, z, npar


def maf_oracle(dep_p, dep_y, dim):
    """the property's own statement on the observed patterns (x columns only)"""
    errs = []
    for i in range(dim):
        for j in range(dim):
            if j >= i and dep_p[i, j]:
                errs.append(f"forbidden-parameter-dependence|the transformer parameters of coordinate {i} depend on x_{j}")
            if j > i and dep_y[i, j]:
                errs.append(f"forbidden-output-dependence|output {i} depends on x_{j}")
    return errs


def maf_perturb_oracle(F, z, dim, npar, r):
    """bitwise invariance: changing x_t.. must not change the parameters of coordinates <= t nor outputs < t"""
    s = _setup()
    jnp = s["jnp"]
    t = int(r.integers(0, dim))
    z2 = np.array(z, dtype=np.float64)
    z2[t:dim] = r.normal(0.0, 30.0, size=dim - t)
    a, b = np.asarray(F(z)), np.asarray(F(jnp.asarray(z2)))
    errs = []
    if not (np.isfinite(a).all() and np.isfinite(b).all()):
        return errs, t, z2.tolist()   # non-finite values: outside the premise of the property (0*inf = NaN)
    if not np.array_equal(a[: (t + 1) * npar], b[: (t + 1) * npar]):
        i = int(np.argmax(a[: (t + 1) * npar] != b[: (t + 1) * npar])) // npar
        errs.append(f"forbidden-parameter-dependence|the transformer parameters of coordinate {i} change when only x_{t}.. change")
    o1, o2 = dim * npar, dim * npar + dim
    if not (np.array_equal(a[o1: o1 + t], b[o1: o1 + t]) and np.array_equal(a[o2: o2 + t], b[o2: o2 + t])):
        errs.append(f"forbidden-output-dependence|an output before {t} changes when only x_{t}.. change")
    return errs, t, z2.tolist()


def maf_case_inputs(cfg, r, positive):
    dim, cd = cfg["dim"], cfg["cond"]
    if positive:
        x = r.uniform(0.1, 0.9, size=dim)
        c = r.uniform(0.1, 0.9, size=cd or 0)
    else:
        x = r.normal(0.0, 2.0, size=dim)
        c = r.normal(0.0, 2.0, size=cd or 0)
    return x, c


def maf_check_dependence(ctx, u, cfg, weights, sub, mout):
    """One case of unit maf-dependence; returns True iff everything agrees."""
    s = _setup()
    r = np.random.default_rng(sub)
    m = maf_build(cfg, key=sub % 1000)
    if weights == "trained":      # a real gradient step on ALL raw parameters (training cannot un-mask), from N(0,1) weights
        eqx, jax, jnp = s["eqx"], s["jax"], s["jnp"]
        m0 = replace_leaves(m, lambda l: r.normal(0.0, 1.0, size=l.shape))
        params, static = eqx.partition(m0, eqx.is_inexact_array)
        xs, cs = maf_case_inputs(cfg, r, False)

        def loss(p):
            mm = eqx.combine(p, static)
            y, ld = mm.transform_and_log_det(jnp.asarray(xs), None if cfg["cond"] is None else jnp.asarray(cs))
            return jnp.sum(jnp.tanh(y)) + 0.1 * jnp.tanh(ld)

        g = jax.grad(loss)(params)
        params = jax.tree_util.tree_map(lambda p_, g_: p_ - 3.0 * g_ - 0.3, params, g)
        m = eqx.combine(params, static)
        if not all(bool(np.isfinite(np.asarray(l)).all()) for l in jax.tree_util.tree_leaves(params)):
            m = m0   # non-finite update: outside the premise (finite weights)
    elif weights == "positive" and cfg.get("act") == "tanh":
        # small positive weights: 1 - tanh(h)^2 is exactly 0 in floats for |h| > 19, which would hide a permitted dependency
        m = replace_leaves(m, lambda l: np.abs(r.normal(0.0, 0.2, size=l.shape)) + 0.1)
    else:
        m = replace_leaves(m, gen_weights(weights, r))
    x, c = maf_case_inputs(cfg, r, weights == "positive")
    try:
        dep_p, dep_y, F, z, npar = maf_jacobians(m, cfg, x, c)
    except FloatingPointError:
        ctx.notes.append(f"maf-dependence: non-finite Jacobian for {cfg} / {weights} / {sub}: case skipped (premise: finite values)")
        return True
    mat, _ = parse_bmats(mout.split())
    mp, my = mat(), mat()
    dim = cfg["dim"]
    errs = maf_oracle(dep_p, dep_y, dim)
    perr, t, z2 = maf_perturb_oracle(F, z, dim, npar, r)
    errs += perr
    complete = weights == "positive"
    ok_p = bool((dep_p <= mp).all()) and (not complete or bool((dep_p == mp).all()))
    ok_y = bool((dep_y <= my).all()) and (not complete or cfg["tr"] == "rqs" or bool((dep_y == my).all()))
    thr = (cfg["width"] >= dim - 1) if cfg["cond"] is None else (cfg["width"] >= dim)
    if complete and thr:  # the property's completeness clause, evaluated without the model
        for i in range(dim):
            for j in range(i):
                if not dep_p[i, j]:
                    errs.append(f"missing-dependence|width {cfg['width']} >= threshold but the parameters of coordinate {i} do not depend on x_{j} (all-positive weights)")
    if complete and cfg["cond"] and not dep_p[:, dim:].all():   # "freely on the condition": needs one hidden unit only
        errs.append("missing-condition-dependence|a condition entry does not reach some coordinate's parameters (all-positive weights)")
    cj = dict(kind="maf-dependence", cfg=cfg, weights=weights, sub=int(sub), z=[float(v) for v in np.asarray(z)], perturbed_from=t, z2=z2)
    u.count(cj, nontrivial=bool(dep_p.any() or dim == 1), tag=f"{weights}/{'cond' if cfg['cond'] is not None else 'uncond'}/depth{cfg['depth']}")
    if len(u.hashes) % 60 == 1:
        ctx.sample(dict(unit=u.name, cfg=cfg, weights=weights, param_dependence=dep_p.astype(int).tolist(), model=mp.astype(int).tolist()))
    if errs or not ok_p or not ok_y:
        u.disagreements += 1
        ctx.violation(
            sig=f"MaskedAutoregressive:{'cond' if cfg['cond'] is not None else 'uncond'}:" + (errs[0].split('|')[0] if errs else f"dependence-pattern-mismatch:{weights}"),
            what=(f"MaskedAutoregressive{cfg} with {weights} raw weights at (x, condition) = {[float(v) for v in np.asarray(z)]}: " + "; ".join(e.split('|', 1)[1] for e in errs[:3]) if errs else
                  f"dependence pattern of the real network differs from the model ({weights} weights): parameters {dep_p.astype(int).tolist()} "
                  f"vs model {mp.astype(int).tolist()}; transform {dep_y.astype(int).tolist()} vs model {my.astype(int).tolist()}"),
            case=cj, found_input=bool(errs), unit=u.name, expected=dict(params=mp.astype(int).tolist(), transform=my.astype(int).tolist()),
            observed=dict(params=dep_p.astype(int).tolist(), transform=dep_y.astype(int).tolist()),
            broken="correspondence maf-dependence / C09_maf_params_autoregressive, C09_maf_output_autoregressive, C09_maf_no_missing_dependency",
            reproducer="cd /verif && ./check C09 --replay <this file>")
        return False
    return True


def maf_check_masks(ctx, u, cfg, mout):
    m = maf_build(cfg)
    declared, effective = maf_masks_of(m)
    npar = maf_npar(m, cfg["dim"])
    _, mats = parse_bmats(mout.split())
    model = mats()
    cj = dict(kind="maf-masks", cfg=cfg, npar=npar)
    nontriv = any(e.any() and not e.all() for e in effective)
    u.count(cj, nontrivial=nontriv, tag=f"dim{cfg['dim']}/{'cond' if cfg['cond'] is not None else 'uncond'}")
    bad = None
    if len(model) != len(effective):
        bad = f"{len(effective)} layers, model has {len(model)}"
    else:
        for k, (d, e, mm) in enumerate(zip(declared, effective, model)):
            if not same_shape_eq(e != 0, mm) or not bool(np.isin(e, (0.0, 1.0)).all()):
                bad = f"layer {k}: unwrapped weight (raw weights all 1) is {e.tolist()}, model mask {mm.astype(int).tolist()}"
                break
            if d is not None and not same_shape_eq(d, mm):
                bad = f"layer {k}: Where.cond {d.astype(int).tolist()}, model mask {mm.astype(int).tolist()}"
                break
    if bad:
        u.disagreements += 1
        # run the property's own oracle at this configuration before reporting
        r = np.random.default_rng(7)
        found = []
        for weights in ("positive", "random"):
            mm_ = replace_leaves(m, gen_weights(weights, r))
            x, c = maf_case_inputs(cfg, r, weights == "positive")
            dep_p, dep_y, F, z, npar_ = maf_jacobians(mm_, cfg, x, c)
            found += maf_oracle(dep_p, dep_y, cfg["dim"])
            found += maf_perturb_oracle(F, z, cfg["dim"], npar_, r)[0]
            thr = (cfg["width"] >= cfg["dim"] - 1) if cfg["cond"] is None else (cfg["width"] >= cfg["dim"])
            if weights == "positive" and thr and any(not dep_p[i, j] for i in range(cfg["dim"]) for j in range(i)):
                found.append("missing-dependence|a permitted dependency is missing although the width is at least the threshold")
        ctx.violation(sig=f"MaskedAutoregressive:masks:{'cond' if cfg['cond'] is not None else 'uncond'}:{'oracle' if found else 'model-mismatch'}",
                      what=f"masks inside MaskedAutoregressive{cfg} differ from the model: {bad}" + (f"; oracle: {found[0].split('|', 1)[1]}" if found else ""),
                      case=cj, found_input=bool(found), unit=u.name, expected=[mm.astype(int).tolist() for mm in model],
                      observed=[e.tolist() for e in effective], broken="correspondence maf-masks (Model.maf_masks) / rank formulas of C09_maf_*",
                      reproducer="cd /verif && ./check C09 --replay <this file>")
        return False
    return True


def maf_value_request(cfg, npar, ws, bs, x, c, with_transform):
    head = f"{cfg['dim']} {cond_tok(cfg['cond'])} {cfg['width']} {cfg['depth']} {npar} {cfg.get('act') or 'relu'}"
    tail = f"{fmats(ws)} {fvecs(bs)} {fvec(x)} {fvec(c)}"
    return (f"maftrans {head} {TAU[cfg['tr']]} {tail}") if with_transform else (f"mafparams {head} {tail}")


def maf_values_impl(cfg, sub, kind):
    """real network with raw leaves replaced; returns raw weights/biases (BEFORE masking), inputs, real params and outputs"""
    s = _setup()
    jnp, unwrap = s["jnp"], s["unwrap"]
    r = np.random.default_rng(sub)
    m = replace_leaves(maf_build(cfg, key=sub % 1000), gen_weights(kind, r))
    layers = m.masked_autoregressive_mlp.layers
    ws = [np.asarray(l.weight.if_true if hasattr(l.weight, "if_true") else l.weight) for l in layers]
    bs = [np.asarray(l.bias) for l in layers]
    dim, cd = cfg["dim"], cfg["cond"]
    if kind == "int":
        x, c = r.integers(-4, 5, size=dim).astype(float), r.integers(-4, 5, size=cd or 0).astype(float)
    else:
        x, c = r.normal(0, 1.5, size=dim), r.normal(0, 1.5, size=cd or 0)
    xx, cc = jnp.asarray(x), (None if cd is None else jnp.asarray(c))
    um = unwrap(m)
    params = np.asarray(um.masked_autoregressive_mlp(xx if cc is None else jnp.hstack((xx, cc))))
    y = np.asarray(m.transform(xx, cc))
    return ws, bs, x, c, params, y


def close(a, b, tol):
    a, b = np.asarray(a, float), np.asarray(b, float)
    if a.shape != b.shape:
        return False
    return bool(np.all((a == b) | (np.abs(a - b) <= tol * np.maximum(1.0, np.abs(b))) | (np.isnan(a) & np.isnan(b))))


NPARS = {"affine": 2, "rqs": 8, "loc": 1, "lin2": 2}


def maf_shapes(ctx):
    """Base shapes (dim, cond, width, depth) shared by the three MAF units (JAX compiles once per shape, so the units draw
    their cases from one list).  Grid: dim 1..5 x cond None,1,2,3 x width 1..7 x depth 0..3, plus cond_dim=0 shapes."""
    r = ctx.rng
    grid = [(d, c, w, dp) for d, c, w, dp in itertools.product(range(1, 6), [None, 1, 2, 3], range(1, 8), range(0, 4))]
    extra = [(d, 0, w, dp) for d, w, dp in itertools.product([1, 2, 3], [1, 2, 4], [0, 1, 2])]
    # boundary-directed: dim = 1 (the % 0 case) both ways, width below / at / above the completeness threshold, depth 0
    must = [(1, None, 3, 1), (1, 2, 2, 2), (1, None, 1, 0), (2, None, 1, 1), (3, None, 1, 2), (3, None, 2, 1), (3, 1, 2, 1), (3, 1, 3, 1),
            (4, None, 3, 3), (4, 2, 3, 1), (4, 2, 4, 2), (5, None, 4, 1), (5, 3, 5, 2), (5, None, 7, 0), (2, 3, 1, 0), (2, 0, 2, 1), (3, 0, 4, 2),
            (2, None, 4, 1), (3, None, 3, 1), (3, None, 6, 2), (4, None, 7, 1)]
    rest = [g for g in grid + extra if g not in must]
    # thorough: 300 of the remaining shapes (one XLA compilation per shape and transformer kind bounds the volume)
    return must + [rest[i] for i in r.choice(len(rest), size=(15 if ctx.quick else 300), replace=False)]


def run_maf(ctx):
    import time
    t0 = time.time()
    r = ctx.rng
    shapes = maf_shapes(ctx)
    cfgs = [dict(dim=d, cond=c, width=w, depth=dp) for d, c, w, dp in shapes]
    # ---- masks
    u2 = ctx.unit("maf-masks", "masks inside real MaskedAutoregressive objects (Where.cond and the unwrapped weights with every raw weight "
                               "= 1) vs Model.maf_masks; grid dim 1..5 x cond None,0..3 x width 1..7 x depth 0..3 x transformer Affine "
                               "(2 parameters) / RationalQuadraticSpline (8 parameters); quick: 36 shapes incl. dim=1, width below/at/above "
                               "the completeness threshold, depth 0, cond_dim=0; non-trivial = some mask has a true and a false entry")
    sel = [dict(g, tr="affine") for g in cfgs] + [dict(g, tr="rqs") for k, g in enumerate(cfgs) if (not ctx.quick) or k % 4 == 0]
    outs = ctx.model([f"mafmasks {g['dim']} {cond_tok(g['cond'])} {g['width']} {g['depth']} {NPARS[g['tr']]}" for g in sel])
    for g, mo in zip(sel, outs):
        maf_check_masks(ctx, u2, g, mo)
    ctx.notes.append(f"maf-masks: {time.time() - t0:.1f}s")
    t0 = time.time()
    # ---- dependence
    u3 = ctx.unit("maf-dependence", "jax.jacobian sparsity of the real transformer-parameter network and of transform, after replacing "
                                    "every raw inexact leaf (N(0,5^2) both signs / all-positive 0.5+|N| / one large gradient step), vs "
                                    "Model.maf_param_dep and maf_transform_dep (subset; equality for all-positive weights), plus the "
                                    "oracle: strictly-lower / lower triangular patterns and bitwise invariance of parameters and outputs "
                                    "when later inputs change by N(0,30^2); transformers Affine, a*x+b, RationalQuadraticSpline; relu and "
                                    "tanh activations; non-trivial = some dependence exists or dim = 1")
    cases = []
    for k, g in enumerate(cfgs):
        kinds = [("affine", "positive", None), ("affine", "random", None)]
        if k % 3 == 1 or not ctx.quick:
            kinds += [("lin2", "random", None), ("lin2", "positive", None)]
        if k % 3 == 0:
            kinds.append(("affine", "trained", None))
        if k % 4 == 1:
            kinds += [("lin2", "positive", "tanh"), ("lin2", "random", "tanh")]
        if k % 8 == 2 and g["dim"] <= 3:
            kinds += [("rqs", "positive", None), ("rqs", "random", None)]
        if not ctx.quick:
            kinds += [("affine", "random", None), ("affine", "positive", None)]
        for tr, weights, act in kinds:
            cases.append((dict(g, tr=tr, **({"act": act} if act else {})), weights, int(r.integers(1, 2 ** 31 - 1))))
    outs = ctx.model([f"mafdep {g['dim']} {cond_tok(g['cond'])} {g['width']} {g['depth']} {NPARS[g['tr']]}" for g, _, _ in cases])
    for (g, weights, sub), mo in zip(cases, outs):
        maf_check_dependence(ctx, u3, g, weights, sub, mo)
    ctx.notes.append(f"maf-dependence: {time.time() - t0:.1f}s")
    t0 = time.time()
    # ---- values
    u4 = ctx.unit("maf-values", "real masked_autoregressive_mlp(x, condition) and real transform (transformers Loc / a*x+b) vs "
                                "Model.maf_params / maf_transform on integer-valued raw weights, biases and inputs with relu (float "
                                "arithmetic exact: bit-for-bit equality) and on N(0,5^2) weights with tanh (1e-9 relative); the raw "
                                "UNMASKED weights are sent to the model; non-trivial = some parameter output is non-zero")
    vcases, reqs = [], []
    for k, g0 in enumerate(cfgs):
        for tr, kind in ([("lin2", "int"), ("lin2", "int")] + ([("loc", "int")] if k % 2 == 0 else []) + ([("lin2", "random")] if k % 4 == 1 else [])
                         + ([("lin2", "int"), ("loc", "int")] if not ctx.quick else [])):
            g = dict(g0, tr=tr)
            if kind == "random":
                g["act"] = "tanh"
            sub = int(r.integers(1, 2 ** 31 - 1))
            ws, bs, x, c, params, y = maf_values_impl(g, sub, kind)
            npar = NPARS[g["tr"]]
            vcases.append((g, kind, sub, params, y, x, c))
            reqs.append(maf_value_request(g, npar, ws, bs, x, c, False))
            reqs.append(maf_value_request(g, npar, ws, bs, x, c, True))
    outs = ctx.model(reqs)
    for k, (g, kind, sub, params, y, x, c) in enumerate(vcases):
        mp, my = parse_floats(outs[2 * k]), parse_floats(outs[2 * k + 1])
        tol = 0.0 if kind == "int" else 1e-9
        okp, oky = close(params, mp, tol), close(y, my, tol)
        cj = dict(kind="maf-values", cfg=g, weights=kind, sub=sub)
        u4.count(cj, nontrivial=bool(np.any(params != 0)), tag=f"{kind}/{g['tr']}")
        if k % 40 == 0:
            ctx.sample(dict(unit=u4.name, cfg=g, weights=kind, x=x.tolist(), condition=c.tolist(), params=params.tolist(), model_params=mp.tolist()))
        if not (okp and oky):
            u4.disagreements += 1
            ctx.violation(sig=f"MaskedAutoregressive:values:{'params' if not okp else 'transform'}:{'cond' if g['cond'] is not None else 'uncond'}",
                          what=f"MaskedAutoregressive{g} with {kind} raw weights at x={x.tolist()}, condition={c.tolist()}: "
                               f"parameters {params.tolist()} (model {mp.tolist()}), outputs {y.tolist()} (model {my.tolist()})",
                          case=cj, found_input=False, unit=u4.name, expected=dict(params=mp.tolist(), y=my.tolist()),
                          observed=dict(params=params.tolist(), y=y.tolist()), broken="correspondence maf-values (Model.masked_mlp / maf_transform)",
                          reproducer="cd /verif && ./check C09 --replay <this file>")
    ctx.notes.append(f"maf-values: {time.time() - t0:.1f}s")


# ----------------------------------------------------------------------------------------------------
# unit 5: Coupling
# ----------------------------------------------------------------------------------------------------
def coupling_build(cfg, key=0):
    s = _setup()
    return s["Coupling"](s["jr"].PRNGKey(key), transformer=s["transformer"](cfg["tr"]), untransformed_dim=cfg["d"], dim=cfg["dim"],
                         cond_dim=cfg["cond"], nn_width=cfg["width"], nn_depth=cfg["depth"])


def coupling_check(ctx, u, cfg, weights, sub, mdep, mval):
    s = _setup()
    jax, jnp = s["jax"], s["jnp"]
    r = np.random.default_rng(sub)
    cp = replace_leaves(coupling_build(cfg, key=sub % 1000), gen_weights(weights, r))
    dim, d, cd = cfg["dim"], cfg["d"], cfg["cond"]
    if weights == "int":
        x, c = r.integers(-4, 5, size=dim).astype(float), r.integers(-4, 5, size=cd or 0).astype(float)
    elif weights == "positive":
        x, c = r.uniform(0.1, 0.9, size=dim), r.uniform(0.1, 0.9, size=cd or 0)
    else:
        x, c = r.normal(0, 2.0, size=dim), r.normal(0, 2.0, size=cd or 0)

    Fj, Jj = jitted("coupling", cfg, coupling_build,
                    lambda mod, zz: jnp.concatenate([mod.transform(zz[:dim], None if cd is None else zz[dim:]),
                                                     mod.transform_and_log_det(zz[:dim], None if cd is None else zz[dim:])[0]]))
    cparams = leaves_of(cp)
    F = lambda zz: Fj(cparams, zz)
    z = jnp.asarray(np.concatenate([x, c]) if cd is not None else x)
    y_all = np.asarray(F(z))
    J_all = np.asarray(Jj(cparams, z))
    errs = []
    z2, i_inv = None, None
    if dim - d >= 2:   # bitwise invariance: change every transformed coordinate but i_inv
        i_inv = int(r.integers(d, dim))
        z2 = np.array(z)
        for j in range(d, dim):
            if j != i_inv:
                z2[j] = r.normal(0, 30.0)
        y2_all = np.asarray(F(jnp.asarray(z2)))
    for blk, name in ((0, "transform"), (1, "transform_and_log_det")):   # the two code paths
        y, J = y_all[blk * dim:(blk + 1) * dim], J_all[blk * dim:(blk + 1) * dim]
        depb = np.abs(J) > 0
        if not np.array_equal(y[:d], x[:d]):
            errs.append(f"first-block-changed|{name}: the first block is not returned unchanged: y[:{d}]={y[:d].tolist()} x[:{d}]={x[:d].tolist()}")
        eye = np.zeros_like(J[:d])
        eye[:, :d] = np.eye(d)
        if not np.array_equal(J[:d], eye):
            errs.append(f"first-block-jacobian|{name}: the Jacobian rows of the first block are not the identity")
        for i in range(d, dim):
            for j in range(d, dim):
                if j != i and depb[i, j]:
                    errs.append(f"cross-dependence|{name}: output {i} depends on x_{j} (another transformed coordinate)")
        if i_inv is not None:
            yi2 = y2_all[blk * dim + i_inv]
            if np.isfinite(yi2) and np.isfinite(y[i_inv]) and yi2 != y[i_inv]:
                errs.append(f"cross-dependence|{name}: output {i_inv} changes when only the other transformed coordinates change")
    y = y_all[:dim]
    dep = (np.abs(J_all[:dim]) > 0) | (np.abs(J_all[dim:]) > 0)
    mat, _ = parse_bmats(mdep.split())
    md = mat()
    ok = bool((dep <= md).all()) and (weights != "positive" or cfg["tr"] != "affine" or bool((dep == md).all()))
    okv = True
    if mval is not None:
        okv = close(y, parse_floats(mval), 0.0)
    cj = dict(kind="coupling", cfg=cfg, weights=weights, sub=int(sub))
    u.count(cj, nontrivial=bool(dep[d:, :d].any()) if d else True, tag=f"{weights}/{'cond' if cd is not None else 'uncond'}")
    if len(u.hashes) % 50 == 1:
        ctx.sample(dict(unit=u.name, cfg=cfg, weights=weights, jacobian_pattern=dep.astype(int).tolist(), model=md.astype(int).tolist()))
    if errs or not ok or not okv:
        u.disagreements += 1
        ctx.violation(sig=f"Coupling:{'cond' if cd is not None else 'uncond'}:" + (errs[0].split('|')[0] if errs else ("pattern-mismatch" if not ok else "value-mismatch")),
                      what=(f"Coupling{cfg} with {weights} weights at (x, condition) = {[float(v) for v in np.asarray(z)]}: " + "; ".join(e.split('|', 1)[1] for e in errs[:3]) if errs else f"Coupling{cfg} ({weights} weights): Jacobian pattern {dep.astype(int).tolist()} vs model "
                            f"{md.astype(int).tolist()}; y={y.tolist()} model {mval}"),
                      case=cj, found_input=bool(errs), unit=u.name, expected=dict(pattern=md.astype(int).tolist(), y=mval),
                      observed=dict(pattern=dep.astype(int).tolist(), y=y.tolist()),
                      broken="correspondence coupling / C09_coupling_first_block_identity, C09_coupling_dependence",
                      reproducer="cd /verif && ./check C09 --replay <this file>")
        return False
    return True


def coupling_requests(cfg, weights, sub):
    """model requests of one coupling case: the dependence pattern, and for integer weights the exact value"""
    reqs = [f"coupdep {cfg['d']} {cfg['dim']} {cfg['cond'] or 0}"]
    if weights == "int":
        r = np.random.default_rng(sub)
        cp = replace_leaves(coupling_build(cfg, key=sub % 1000), gen_weights(weights, r))
        dim, cd = cfg["dim"], cfg["cond"]
        x, c = r.integers(-4, 5, size=dim).astype(float), r.integers(-4, 5, size=cd or 0).astype(float)
        ws = [np.asarray(l.weight) for l in cp.conditioner.layers]
        bs = [np.asarray(l.bias) for l in cp.conditioner.layers]
        reqs.append(f"coupling {cfg['d']} {dim} {int(cd is not None)} relu {TAU[cfg['tr']]} {fmats(ws)} {fvecs(bs)} {fvec(x)} {fvec(c)}")
    return reqs


def run_coupling(ctx):
    r = ctx.rng
    u = ctx.unit("coupling", "Jacobian pattern of real Coupling.transform w.r.t. (x, condition) vs Model.coupling_dep (subset; equality for "
                             "all-positive weights with Affine), exact values vs Model.coupling_transform on integer-valued weights "
                             "(transformers Loc / a*x+b), oracle: first block bitwise unchanged with identity Jacobian rows, no dependence "
                             "between transformed coordinates; dim 2..5 x untransformed_dim 0..dim-1 x cond None,1,2 x width 1,3 x depth "
                             "0..2; non-trivial = some transformed coordinate depends on the first block")
    grid = [dict(dim=dim, d=d, cond=c, width=w, depth=dp) for dim in range(2, 6) for d in range(0, dim) for c in (None, 1, 2)
            for w in (1, 3) for dp in (0, 1, 2) if not (d == 0 and c is None)]
    n = 34 if ctx.quick else 300
    idx = r.choice(len(grid), size=min(n, len(grid)), replace=False)
    cases = []
    for i in idx:
        g = grid[i]
        for weights, tr in (("random", "affine"), ("positive", "affine"), ("random", "affine"), ("int", "lin2" if r.random() < 0.6 else "loc")):
            if ctx.quick and weights == "int" and r.random() < 0.4:
                continue
            cases.append((dict(g, tr=tr), weights, int(r.integers(1, 2 ** 31 - 1))))
    reqs, spans = [], []
    for g, weights, sub in cases:
        rs = coupling_requests(g, weights, sub)
        spans.append((len(reqs), len(rs)))
        reqs += rs
    outs = ctx.model(reqs)
    for (g, weights, sub), (o, k) in zip(cases, spans):
        coupling_check(ctx, u, g, weights, sub, outs[o], outs[o + 1] if k == 2 else None)


# ----------------------------------------------------------------------------------------------------
# unit 6: BlockAutoregressiveNetwork
# ----------------------------------------------------------------------------------------------------
def bnaf_build(cfg, key=0):
    s = _setup()
    kw = {"activation": s["jnp"].tanh} if cfg.get("act") == "tanh" else {}
    return s["BNAF"](s["jr"].PRNGKey(key), dim=cfg["dim"], cond_dim=cfg["cond"], depth=cfg["depth"], block_dim=cfg["bd"], **kw)


def bnaf_randomize(b, r):
    s = _setup()
    eqx = s["eqx"]
    gen = lambda l: r.normal(0.0, 2.5, size=l.shape)
    b = eqx.tree_at(lambda t: t.layers, b, replace_leaves(b.layers, gen))
    if b.cond_linear is not None:
        b = eqx.tree_at(lambda t: t.cond_linear, b, replace_leaves(b.cond_linear, gen))
    return b


def bnaf_raw_leaves(lin):
    """(w1, w2, scale_raw) of one block_autoregressive_linear, read from the wrapper tree; None if not recognised"""
    try:
        wn = lin.weight
        w1 = np.asarray(wn.weight.if_true.arr.if_true)
        w2 = np.asarray(wn.weight.if_false.if_true)
        sc = np.asarray(wn.scale.arr)[:, 0]
        return w1, w2, sc
    except Exception:
        return None


def bnaf_check(ctx, u, cfg, sub, mout_masks):
    s = _setup()
    jax, jnp, unwrap = s["jax"], s["jnp"], s["unwrap"]
    r = np.random.default_rng(sub)
    b = bnaf_randomize(bnaf_build(cfg, key=sub % 1000), r)
    ub = unwrap(b)
    dim, cd, depth, bd = cfg["dim"], cfg["cond"], cfg["depth"], cfg["bd"]
    toks = mout_masks.split()
    mat, mats = parse_bmats(toks)
    tril, diag, reach = mats(), mats(), mat()
    Ws = [np.asarray(l.weight) for l, _ in ub.layers]
    Bs = [np.asarray(l.bias) for l, _ in ub.layers]
    bad, errs = None, []
    if len(Ws) != len(tril):
        bad = f"{len(Ws)} layers, model has {len(tril)}"
    else:
        for k, (W, t, dg) in enumerate(zip(Ws, tril, diag)):
            if not same_shape_eq(W != 0, t):
                bad = f"layer {k}: zero pattern of the unwrapped weight {(W != 0).astype(int).tolist()} vs block_tril mask of the model {t.astype(int).tolist()}"
                break
            if W.shape == dg.shape and not bool((W[dg] > 0).all()):
                errs.append(f"diagonal-weight-not-positive|layer {k}: a diagonal-block weight is not strictly positive")
    x = r.normal(0, 2.0, size=dim)
    c = r.normal(0, 2.0, size=cd or 0)
    Fj, Jj = jitted("bnaf", cfg, bnaf_build,
                    lambda mod, zz: jnp.concatenate([mod.transform(zz[:dim], None if cd is None else zz[dim:]),
                                                     mod.transform_and_log_det(zz[:dim], None if cd is None else zz[dim:])[0]]))
    bparams = leaves_of(b)
    F2 = lambda xx: Fj(bparams, jnp.concatenate([xx, jnp.asarray(c)]) if cd is not None else xx)
    F = lambda xx: F2(xx)[:dim]
    J2 = np.asarray(Jj(bparams, jnp.asarray(np.concatenate([x, c]) if cd is not None else x)))[:, :dim]
    J = J2[:dim]
    if np.any(np.triu(J2[dim:], 1) != 0) or (cfg.get("act") != "tanh" and not bool((np.diag(J2[dim:]) > 0).all())):
        errs.append("not-lower-triangular|the output of transform_and_log_det has a Jacobian that is not lower triangular with positive diagonal")
    if np.any(np.triu(J, 1) != 0):
        i, j = map(int, np.argwhere(np.triu(J, 1) != 0)[0])
        errs.append(f"not-lower-triangular|output {i} depends on x_{j} (Jacobian not lower triangular)")
    leaky = cfg.get("act") != "tanh"   # tanh saturates in floats (1 - tanh^2 == 0 exactly for |h| > 19): positivity only with LeakyTanh
    if leaky and not bool((np.diag(J) > 0).all()):
        errs.append(f"diagonal-not-positive|Jacobian diagonal not strictly positive: {np.diag(J).tolist()}")
    t = int(r.integers(0, dim))
    x2 = np.array(x)
    x2[t + 1:] = r.normal(0, 30.0, size=dim - t - 1)
    y, y2 = np.asarray(F(jnp.asarray(x))), np.asarray(F(jnp.asarray(x2)))
    if np.isfinite(y).all() and np.isfinite(y2).all() and not np.array_equal(y[: t + 1], y2[: t + 1]):
        errs.append(f"not-lower-triangular|an output <= {t} changes when only x_{t + 1}.. change")
    if leaky:  # increasing in x_i (later coordinates changed arbitrarily, earlier ones fixed); non-strict: the increment may round away
        x3 = np.array(x2)
        x3[t] = x[t] + abs(r.normal(0, 1.0)) + 1e-3
        y3 = np.asarray(F(jnp.asarray(x3)))
        if not (y3[t] >= y[t] - 1e-12 * max(1.0, abs(y[t]))):
            errs.append(f"not-increasing|output {t} decreases when x_{t} increases: {y[t]} -> {y3[t]}")
    ok_reach = J.shape == reach.shape and bool(((J != 0) <= reach).all())
    cj = dict(kind="bnaf", cfg=cfg, sub=int(sub), x=x.tolist(), condition=c.tolist())
    u.count(cj, nontrivial=dim >= 2 or depth >= 1, tag=f"depth{depth}/{'cond' if cd is not None else 'uncond'}")
    if len(u.hashes) % 30 == 1:
        ctx.sample(dict(unit=u.name, cfg=cfg, jacobian=J.tolist(), model_reach=reach.astype(int).tolist()))
    if bad or errs or not ok_reach:
        u.disagreements += 1
        ctx.violation(sig=f"BlockAutoregressiveNetwork:{'cond' if cd is not None else 'uncond'}:" + (errs[0].split('|')[0] if errs else "mask-mismatch"),
                      what=(f"BlockAutoregressiveNetwork{cfg} (raw leaves N(0,2.5^2), seed {sub}) at x = {x.tolist()}, condition = {c.tolist()}: " + "; ".join(e.split('|', 1)[1] for e in errs[:3]) if errs else f"BlockAutoregressiveNetwork{cfg}: {bad or 'Jacobian pattern outside the model reachability'}"),
                      case=cj, found_input=bool(errs), unit=u.name, expected=dict(tril=[t_.astype(int).tolist() for t_ in tril]),
                      observed=dict(weights_nonzero=[(W != 0).astype(int).tolist() for W in Ws], jacobian=J.tolist()),
                      broken="correspondence bnaf / C09_bnaf_triangular, C09_bnaf_monotone",
                      reproducer="cd /verif && ./check C09 --replay <this file>")
        return None
    return b, ub, Ws, Bs, x, c, y


def run_bnaf(ctx):
    r = ctx.rng
    u = ctx.unit("bnaf", "real BlockAutoregressiveNetwork with every raw leaf of its layers replaced by N(0,2.5^2): zero pattern of the "
                         "unwrapped weights vs Model.bnaf_tril_masks, positive diagonal blocks (Model.bnaf_diag_masks), Jacobian lower "
                         "triangular with positive diagonal and inside Model.reach, bitwise invariance under later inputs, strict increase "
                         "in x_i; dim 1..4 x cond None,1,2 x depth 0..3 x block_dim 1..4; non-trivial = dim >= 2 or depth >= 1")
    uv = ctx.unit("bnaf-values", "unwrapped weight of every block_autoregressive_linear vs Model.bnaf_weight computed from the raw leaves "
                                 "(softplus on diagonal blocks, block-tril Where, weight normalisation; 1e-9), and transform(x, condition) "
                                 "with tanh activation vs Model.bnaf_transform on the unwrapped weights (1e-9); non-trivial = depth >= 1")
    grid = [dict(dim=d, cond=c, depth=dp, bd=bd) for d in range(1, 5) for c in (None, 1, 2) for dp in range(0, 4) for bd in range(1, 5)]
    n = 18 if ctx.quick else 192
    idx = r.choice(len(grid), size=min(n, len(grid)), replace=False)
    cases = [(dict(grid[i], act=("tanh" if k % 2 == 0 else None)), int(r.integers(1, 2 ** 31 - 1))) for k, i in enumerate(idx)]
    outs = ctx.model([f"bnafmasks {g['dim']} {g['depth']} {g['bd']}" for g, _ in cases])
    vreqs, vmeta = [], []
    skipped = 0
    for (g, sub), mo in zip(cases, outs):
        res = bnaf_check(ctx, u, g, sub, mo)
        if res is None:
            continue
        b, ub, Ws, Bs, x, c, y = res
        shapes = [(1, 1)] if g["depth"] == 0 else [(g["bd"], 1)] + [(g["bd"], g["bd"])] * (g["depth"] - 1) + [(1, g["bd"])]
        for k, ((lin, _), (bh, bw)) in enumerate(zip(b.layers, shapes)):
            raw = bnaf_raw_leaves(lin)
            if raw is None:
                skipped += 1
                continue
            w1, w2, sc = raw
            vreqs.append(f"bnafw {bh} {bw} {g['dim']} {fmat(w1)} {fmat(w2)} {fvec(sc)}")
            vmeta.append(("w", g, sub, k, Ws[k]))
        if g.get("act") == "tanh":
            has_c = g["cond"] is not None
            cterm = np.asarray(ub.cond_linear.weight) @ c if has_c else np.zeros(0)
            vreqs.append(f"bnaf {g['dim']} {g['depth']} {g['bd']} tanh {fmats(Ws)} {fvecs(Bs)} {int(has_c)} {fvec(cterm)} {fvec(x)}")
            vmeta.append(("t", g, sub, None, y))
    vouts = ctx.model(vreqs)
    for (kind, g, sub, k, impl), mo in zip(vmeta, vouts):
        cj = dict(kind="bnaf-values", what=kind, cfg=g, sub=sub, layer=k)
        if kind == "w":
            model = np.array([[fparse(t) for t in row.split(",")] for row in mo.split(";")]) if mo != "-" else np.zeros((0, 0))
            ok = close(impl, model, 1e-9)
        else:
            model = parse_floats(mo)
            ok = close(impl, model, 1e-9)
        uv.count(cj, nontrivial=g["depth"] >= 1, tag=kind)
        if not ok:
            uv.disagreements += 1
            ctx.violation(sig=f"BlockAutoregressiveNetwork:values:{'weight' if kind == 'w' else 'transform'}",
                          what=f"BlockAutoregressiveNetwork{g}: {'unwrapped weight of layer %s' % k if kind == 'w' else 'transform'} "
                               f"{np.asarray(impl).tolist()} vs model {np.asarray(model).tolist()}",
                          case=cj, found_input=False, unit=uv.name, expected=np.asarray(model).tolist(), observed=np.asarray(impl).tolist(),
                          broken="correspondence bnaf-values (Model.bnaf_weight / bnaf_transform)",
                          reproducer="cd /verif && ./check C09 --replay <this file>")
    if skipped:
        ctx.notes.append(f"bnaf-values: wrapper tree of {skipped} layers not recognised; raw-leaf weight pipeline not compared there")


# ----------------------------------------------------------------------------------------------------
def run_large_dim(ctx):
    """The autoregressive structure for an event dimension above 128 and 256 (rank arithmetic in a narrow integer type wraps there): the
    Jacobian of a real MaskedAutoregressive layer (all-positive weights, so every permitted path is visible) is lower triangular with a
    non-zero diagonal and, the hidden width being >= dim, no permitted dependency is missing; the condition reaches every output.  Oracle
    only.  (Seeded change C09h cast the ranks to int8.)"""
    s = _setup()
    jnp, jax = s["jnp"], s["jax"]
    import equinox as eqx
    import jax.random as jr
    from flowjax.bijections import Affine, MaskedAutoregressive
    from flowjax.wrappers import unwrap

    u = ctx.unit("large-dim", "MaskedAutoregressive(dim 130 / 260, width = dim, depth 1, all-positive weights): Jacobian pattern = strictly-lower + diagonal, all present; "
                              "condition reaches every output (oracle only)")
    for dim, cd in ((130, None), (130, 2)) if ctx.quick else ((130, None), (130, 2), (260, None), (200, 3)):
        m = MaskedAutoregressive(jr.PRNGKey(0), transformer=Affine(), dim=dim, cond_dim=cd, nn_width=dim, nn_depth=1, nn_activation=jnp.tanh)
        params, static = eqx.partition(m, eqx.is_inexact_array)
        params = jax.tree_util.tree_map(lambda l: jnp.abs(l) * 0 + 0.01 + 0.02 * jnp.abs(jnp.sin(jnp.arange(l.size, dtype=float).reshape(l.shape))), params)
        m = eqx.combine(params, static)
        x = jnp.asarray(ctx.rng.normal(0, 1, dim))
        c = None if cd is None else jnp.asarray(ctx.rng.normal(0, 1, cd))
        J = np.asarray(jax.jacobian(lambda v: m.transform(v, c))(x))
        u.count(("large-dim", dim, cd), nontrivial=True, tag=f"dim={dim}")
        errs = []
        up = np.argwhere(np.triu(J, 1) != 0)
        if len(up):
            errs.append(f"{len(up)} forbidden dependencies above the diagonal, e.g. d y[{up[0][0]}] / d x[{up[0][1]}] = {J[tuple(up[0])]!r}")
        if np.any(np.diag(J) == 0):
            errs.append(f"zero diagonal entry at {int(np.argmax(np.diag(J) == 0))}")
        low = np.argwhere((np.tril(J, -1) == 0) & (np.tril(np.ones_like(J), -1) > 0))
        if len(low):
            errs.append(f"{len(low)} permitted dependencies missing although width >= dim, e.g. d y[{low[0][0]}] / d x[{low[0][1]}] = 0")
        if cd is not None:
            Jc = np.asarray(jax.jacobian(lambda cc: m.transform(x, cc))(c))
            if np.any(np.all(Jc == 0, axis=1)):
                errs.append(f"output {int(np.argmax(np.all(Jc == 0, axis=1)))} does not depend on the condition")
        if errs:
            ctx.violation(sig="maf:large-dim:pattern", what=f"MaskedAutoregressive(dim={dim}, cond_dim={cd}, nn_width={dim}): " + "; ".join(errs), case=dict(unit="large-dim", dim=dim, cond_dim=cd),
                          found_input=True, unit=u.name, expected="lower-triangular Jacobian, complete below the diagonal", observed="; ".join(errs)[:300],
                          broken="autoregressive structure for every size / C09_maf_autoregressive, C09_maf_complete")


def run(ctx):
    import os
    import time
    only = os.environ.get("VERIF_C09_ONLY")  # development aid: run a subset of the units (names: mask_helpers,maf,coupling,bnaf)
    for f in (run_mask_helpers, run_maf, run_coupling, run_bnaf, run_large_dim):
        if only and f.__name__[4:] not in only.split(","):
            ctx.notes.append(f"{f.__name__}: skipped (VERIF_C09_ONLY={only})")
            continue
        t0 = time.time()
        f(ctx)
        import resource
        ctx.notes.append(f"{f.__name__}: {time.time() - t0:.1f}s, max RSS {resource.getrusage(resource.RUSAGE_SELF).ru_maxrss // 1024} MB")
    ctx.assumptions += [
        "finite weights, activations and inputs (0*a = 0 is the only algebraic fact the dependence theorems use; it fails for inf/NaN)",
        "a Jacobian entry that is exactly zero is taken as 'no dependence observed at this point'; complemented by bitwise invariance under large input changes",
        "raw weights are replaced on the inexact array leaves of the module (eqx.partition/combine = tree_at on every raw leaf); the Where / softplus / weight-norm wrappers are left as constructed",
        "MaskedAutoregressive / Coupling are run with transformers Affine, RationalQuadraticSpline(knots=2), Loc and a two-parameter a*x+b bijection defined in the harness",
    ]
    ctx.trusted.append("ocaml/drv_masks.ml: request parser, float instance (+., *., relu/tanh, softplus, sqrt-sum-of-squares) of the carrier-generic model")
    from harness import flowcases
    flowcases.int_dtype_unit(ctx, "C09", bijections=True, distributions=False)


def replay(ctx, rep):
    c = rep["case"]
    kind = c.get("kind")
    npars = NPARS
    if c.get("unit") == "large-dim":
        n0 = len(ctx.violations)
        run_large_dim(ctx)
        hits = [v for v in ctx.violations[n0:] if v["sig"] == rep.get("sig")]
        for v in hits:
            print("still failing:", v["what"][:300])
        return not hits
    if "fn" in c:  # mask helper
        s = _setup()
        jnp, fm = s["jnp"], s["fmasks"]
        if c["fn"] == "block_diag_mask":
            bh, bw = c["block_shape"]
            impl = np.asarray(fm.block_diag_mask((bh, bw), c["n_blocks"]))
            rr, cc = np.indices(impl.shape)
            ref = (rr // bh) == (cc // bw)
            model = parse_bmats(ctx.model([f"bdiag {bh} {bw} {c['n_blocks']}"])[0].split())[0]()
        elif c["fn"] == "block_tril_mask":
            bh, bw = c["block_shape"]
            impl = np.asarray(fm.block_tril_mask((bh, bw), c["n_blocks"], c["k"]))
            rr, cc = np.indices(impl.shape)
            ref = np.maximum(0, cc // bw - c["k"]) <= rr // bh
            model = parse_bmats(ctx.model([f"btril {bh} {bw} {c['n_blocks']} {c['k']}"])[0].split())[0]()
        else:
            a, b = c["in_ranks"], c["out_ranks"]
            impl = np.asarray(fm.rank_based_mask(jnp.asarray(a, dtype=int), jnp.asarray(b, dtype=int), eq=c["eq"]))
            ref = (np.asarray(b, int)[:, None] >= np.asarray(a, int)[None, :]) if c["eq"] else (np.asarray(b, int)[:, None] > np.asarray(a, int)[None, :])
            model = parse_bmats(ctx.model([f"rank {ilist(a)} {ilist(b)} {int(c['eq'])}"])[0].split())[0]()
        print("implementation", impl.astype(int).tolist(), "documented", ref.astype(int).tolist(), "model", model.astype(int).tolist())
        return impl.shape == ref.shape and same_shape_eq(impl, ref) and same_shape_eq(impl, model)
    sink = type(ctx)(ctx.prop, ctx.tier, ctx.seed)  # collect violations without writing into this run's bookkeeping
    sink.groups = ctx.groups
    sink.violation = lambda **kw: print("  ", kw.get("what", "")[:600])
    u = sink.unit("replay")
    if kind == "maf-dependence":
        g = c["cfg"]
        mo = ctx.model([f"mafdep {g['dim']} {cond_tok(g['cond'])} {g['width']} {g['depth']} {npars[g['tr']]}"])[0]
        return maf_check_dependence(sink, u, g, c["weights"], c["sub"], mo)
    if kind == "maf-masks":
        g = c["cfg"]
        mo = ctx.model([f"mafmasks {g['dim']} {cond_tok(g['cond'])} {g['width']} {g['depth']} {npars[g['tr']]}"])[0]
        return maf_check_masks(sink, u, g, mo)
    if kind == "maf-values":
        g = c["cfg"]
        ws, bs, x, cc, params, y = maf_values_impl(g, c["sub"], c["weights"])
        o = ctx.model([maf_value_request(g, npars[g["tr"]], ws, bs, x, cc, False), maf_value_request(g, npars[g["tr"]], ws, bs, x, cc, True)])
        tol = 0.0 if c["weights"] == "int" else 1e-9
        print("params", params.tolist(), "model", o[0], "y", y.tolist(), "model", o[1])
        return close(params, parse_floats(o[0]), tol) and close(y, parse_floats(o[1]), tol)
    if kind == "coupling":
        g = c["cfg"]
        o = ctx.model(coupling_requests(g, c["weights"], c["sub"]))
        return coupling_check(sink, u, g, c["weights"], c["sub"], o[0], o[1] if len(o) == 2 else None)
    if kind == "bnaf":
        g = c["cfg"]
        mo = ctx.model([f"bnafmasks {g['dim']} {g['depth']} {g['bd']}"])[0]
        return bnaf_check(sink, u, g, c["sub"], mo) is not None
    if kind == "bnaf-values":
        g = c["cfg"]
        mo = ctx.model([f"bnafmasks {g['dim']} {g['depth']} {g['bd']}"])[0]
        res = bnaf_check(sink, u, g, c["sub"], mo)
        if res is None:
            return False
        b, ub, Ws, Bs, x, cc, y = res
        if c["what"] == "t":
            has_c = g["cond"] is not None
            cterm = np.asarray(ub.cond_linear.weight) @ cc if has_c else np.zeros(0)
            o = ctx.model([f"bnaf {g['dim']} {g['depth']} {g['bd']} tanh {fmats(Ws)} {fvecs(Bs)} {int(has_c)} {fvec(cterm)} {fvec(x)}"])[0]
            print("transform", y.tolist(), "model", o)
            return close(y, parse_floats(o), 1e-9)
        shapes = [(1, 1)] if g["depth"] == 0 else [(g["bd"], 1)] + [(g["bd"], g["bd"])] * (g["depth"] - 1) + [(1, g["bd"])]
        k = c["layer"]
        raw = bnaf_raw_leaves(b.layers[k][0])
        if raw is None:
            return True
        o = ctx.model([f"bnafw {shapes[k][0]} {shapes[k][1]} {g['dim']} {fmat(raw[0])} {fmat(raw[1])} {fvec(raw[2])}"])[0]
        model = np.array([[fparse(t) for t in row.split(",")] for row in o.split(";")])
        return close(Ws[k], model, 1e-9)
    print("obligation replay: rebuild and re-check", c)
    return False
