"""C01 -- every bijection is invertible, both ways.

Tie: every leaf class x {transform, inverse, transform_and_log_det, inverse_and_log_det} x parameters away from
initialisation x boundary-directed inputs: the real flowjax object vs the extracted Coq model (Model/Leaves.v), value by
value (bit-exact pipelines compared at 1e-9 rel all the same).
Oracle (the property itself, on the implementation alone): inverse(transform(x)) ~ x and transform(inverse(y)) ~ y with a
tolerance scaled by the map's conditioning (measured on the two float neighbours of the intermediate point), the
'..._and_log_det' point equals the plain method's point; also on the bijection of every flow factory and on random
combinator nestings (search level: no extracted model for those here).
"""

import math

import numpy as np

from harness import leaves as lv
from harness.common import fhex, fparse

PROPERTY = "C01"
GROUPS = ["leaves", "bij", "autoreg"]
EXTRA_PROPS = ["Props/X01_bij.v", "Props/X01_autoreg.v", "Props/X09_bnaf.v"]  # inverse / log-det laws for every combinator tree (Model/Bij.v)
MANIFEST = {
    "design_ref": "DESIGN.md 4.1",
    "technique": "Coq proofs over R of both inverse laws for every leaf formula (incl. boundary points) and for chain/invert/lift/autoregressive wiring + executed correspondence of the extracted model with the real bijections",
    "text": "Theorems over the reals about the executable Gallina models of the leaf bijections (coq/Model/Leaves.v, shaped like the code): "
            "inv(fwd x) = x and fwd(inv y) = y for ALL real x / all y in the codomain and all valid parameters, including the exact points the "
            "formulas branch on (LeakyTanh +-max_val, spline interval ends and knots), preserved by elementwise lifting, Chain, Invert and the "
            "coupling / masked-autoregressive wiring for an ARBITRARY conditioner; see coq/Props/C01.v for the exact list and for what is "
            "marked _partial. The same definitions, extracted to OCaml and run in IEEE doubles, are compared on every run with the real "
            "flowjax objects (all four methods, perturbed parameters, negative scales, boundary-directed inputs). Exact over R; float rounding "
            "is not modelled; flows and combinator nestings are covered by the property's own round-trip oracle only (search level).",
    "note": "Trusted: Coq kernel, axioms of Reals/Coquelicot as printed by Print Assumptions (see evidence), extraction (ExtrOcamlBasic), "
            "OCaml float primitives (libm), harness. The theorems are about the model; the code is tied by sampled correspondence.",
}


def _cond_tol(obj, direction, mid, x, base=1e-9):
    """base*max(1,|x|) + 16 * (change of the returning map across the two float neighbours of the intermediate point)."""
    back = obj.inverse if direction == "fwd" else obj.transform
    m = np.asarray(mid, dtype=float)
    lo = np.asarray(back(lv.lib()["jnp"].asarray(np.nextafter(m, -np.inf))), dtype=float)
    hi = np.asarray(back(lv.lib()["jnp"].asarray(np.nextafter(m, np.inf))), dtype=float)
    d = np.abs(hi - lo)
    d = np.where(np.isfinite(d), d, 0.0)
    return base * np.maximum(1.0, np.abs(x)) + 16 * d


def roundtrip_errors(spec, obj, direction, x):
    """The property's own oracle on the implementation.  Returns a list of error strings (empty = holds or skipped)."""
    jnp = lv.lib()["jnp"]
    k = spec["kind"]
    xj = jnp.asarray(x)
    fw, bw = (obj.transform, obj.inverse) if direction == "fwd" else (obj.inverse, obj.transform)
    fwld, bwld = (obj.transform_and_log_det, obj.inverse_and_log_det) if direction == "fwd" else (obj.inverse_and_log_det, obj.transform_and_log_det)
    try:
        mid = np.asarray(fw(xj), dtype=float)
        mid2 = np.asarray(fwld(xj)[0], dtype=float)
    except NotImplementedError:
        return []
    errs = []
    if not np.array_equal(mid, mid2, equal_nan=True) and not np.allclose(mid, mid2, rtol=1e-12, atol=0, equal_nan=True):
        errs.append(f"{'transform' if direction == 'fwd' else 'inverse'}_and_log_det returns a different point than the plain method: {mid2} vs {mid}")
    x = np.asarray(x, dtype=float)
    # domain guards: the property quantifies over the domain (codomain) of each map
    if not np.all(np.isfinite(x)):
        return errs
    if direction == "inv":
        if k in ("exp", "softplus") and np.any(x <= 0):
            return errs
        if k == "tanh" and np.any(np.abs(x) >= 1):
            return errs
    if not np.all(np.isfinite(mid)):
        # float saturation is excused only where the TRUE image leaves the double range: exp(x) for x > 709
        if k == "exp" and direction == "fwd" and np.all(np.isfinite(mid) | (x > 709)):
            return errs
        i = int(np.argmax(~np.isfinite(mid).ravel()))
        errs.append(f"{'transform' if direction == 'fwd' else 'inverse'}({x.ravel()[i]!r}) = {mid.ravel()[i]!r}: non-finite image of a finite point of the "
                    f"{'domain' if direction == 'fwd' else 'codomain'}, so the round trip cannot return it")
        return errs
    if k in ("exp", "softplus") and direction == "fwd" and (np.any(mid == 0) or np.any(x > 30) or np.any(x < -30)):
        return errs  # saturation / catastrophic conditioning in floats
    if k == "tanh" and direction == "fwd" and np.any(np.abs(x) > 15):
        return errs
    if k == "tanh" and direction == "inv" and np.any(np.abs(x) > 1 - 1e-12):
        return errs
    if k == "leaky" and np.any(np.abs(x) > 1e3):
        pass
    try:
        back = np.asarray(bw(jnp.asarray(mid)), dtype=float)
    except NotImplementedError:
        return errs
    if k in ("tri", "planar"):
        tol = 1e-7 * np.maximum(1.0, np.max(np.abs(x)))
    else:
        # the elementwise transcendental / affine leaves round-trip to rounding level (a few ulp x conditioning, which the second term
        # measures): base 1e-12 instead of 1e-9 for them (seeded change C01g was off by exp(-y) ~ 2e-9 at y ~ 20, i.e. 5e5 ulp)
        tol = _cond_tol(obj, direction, mid, x, base=1e-12 if k in ("exp", "softplus", "tanh", "leaky", "affine", "loc", "scale") else 1e-9)
    bad = ~(np.abs(back - x) <= tol)
    if np.any(bad):
        i = int(np.argmax(bad.ravel()))
        errs.append(f"{'inverse(transform(x))' if direction == 'fwd' else 'transform(inverse(y))'} = {back.ravel()[i]!r} for input {x.ravel()[i]!r} "
                    f"(intermediate {mid.ravel()[i]!r}, tolerance {np.ravel(tol)[i] if np.ndim(tol) else tol:.3g})")
    return errs


def _case_json(spec, method, x):
    return dict(spec=spec, method=method, x=[fhex(v) for v in np.asarray(x, dtype=float).ravel()])


def run(ctx):
    rng = ctx.rng
    specs = lv.gen_specs(rng, ctx.quick)
    u = ctx.unit("leaf-tie", "real leaf bijection (4 methods) vs extracted Model/Leaves.v at IEEE doubles; parameters perturbed / negative scales; "
                             "inputs = every comparison constant of the formula with float neighbours, 0, +-1, +-1e4, random; non-trivial = "
                             "parameters differ from initialisation or the input is a boundary point")
    uo = ctx.unit("roundtrip-oracle", "property's own statement on the implementation: both round trips with conditioning-scaled tolerance, "
                                      "and-log-det point = plain point; non-trivial = finite intermediate, not skipped by a domain guard")
    jobs, reqs = [], []
    for spec in specs:
        obj = lv.make_obj(spec)
        params = lv.model_params(spec, obj)
        for direction, methods in (("fwd", ("fwd", "fwdld")), ("inv", ("inv", "invld"))):
            xs = lv.inputs_for(spec, obj, direction, rng, n_random=4 if ctx.quick else 12)
            ncrit = len(lv.critical_points(spec, obj, direction))
            for i, x in enumerate(xs):
                for m in methods:
                    jobs.append((spec, obj, m, x, i < ncrit))
                    reqs.append(lv.request(spec, obj, m, x, params))
    outs = ctx.model(reqs, "leaves")
    for (spec, obj, m, x, is_crit), line in zip(jobs, outs):
        mod = lv.parse_model(line)
        imp = lv.run_impl(obj, m, x)
        key = (spec["kind"], m, str(spec), [fhex(v) for v in np.ravel(x)])
        u.count(key, nontrivial=True, tag=f"{spec['kind']}:{m}:{'boundary' if is_crit else 'other'}")
        if len(u.hashes) % 700 == 1:
            ctx.sample(dict(case=_case_json(spec, m, x), model=line[:160], implementation=str(imp)[:160]))
        agree = lv.same(mod, imp)
        errs = []
        if m in ("fwd", "inv"):
            errs = roundtrip_errors(spec, obj, m, x)
            uo.count(key, nontrivial=bool(np.all(np.isfinite(np.asarray(x, dtype=float)))), tag=spec["kind"])
        if not agree or errs:
            u.disagreements += (not agree)
            cls = type(obj).__name__
            ctx.violation(
                sig=f"{cls}.{m}:{'oracle' if errs else 'model-mismatch'}",
                what=(f"{cls}: " + "; ".join(errs)) if errs else f"{cls}.{m}: model {line[:120]} != implementation {str(imp)[:120]}",
                case=_case_json(spec, m, x), found_input=bool(errs), unit=u.name, expected=line[:300], observed=str(imp)[:300],
                broken="correspondence leaf-tie (Model/Leaves.v) / theorems of Props/C01.v about this leaf",
                reproducer="cd /verif && ./check C01 --replay <this file>",
            )
    flows_oracle(ctx)
    from harness import bijinv
    from harness import flowcases
    flowcases.int_dtype_unit(ctx, "C01", bijections=True)
    from harness import autoreg
    autoreg.run_units(ctx, theorems=False)  # real MaskedAutoregressive / Coupling layers (conditioner MLP included) vs Model/AutoregNet.v
    bijinv.run_units(ctx)  # combinator trees: exact round trips + opposite log-dets, real flowjax vs extracted Model/Bij.v
    ctx.assumptions += ["inputs restricted to the domain (codomain) of each map and to magnitudes where the float image does not saturate",
                        "theorems are over R: float rounding is outside the model"]


# ---------------------------------------------------------------- flows and combinators: search level only
def flows_oracle(ctx):
    from harness import flowcases as fc

    jnp = lv.lib()["jnp"]
    uf = ctx.unit("flows-roundtrip-oracle", "round trips through flow.bijection of the flow factories and through combinator nestings of leaves "
                                            "(perturbed parameters, with/without condition); implementation only; tolerance 5e-5*(1+|x|) (bisection-inverted: 5e-3)")
    rng = ctx.rng
    for name, dim, cond, bij, tol in fc.flow_bijections(ctx):
        for _ in range(2 if ctx.quick else 6):
            x = rng.normal(0, 1.5, bij.shape)
            c = None if cond is None else jnp.asarray(rng.normal(0, 1, cond))
            for direction in ("fwd", "inv"):
                a, b = (bij.transform, bij.inverse) if direction == "fwd" else (bij.inverse, bij.transform)
                try:
                    mid = a(jnp.asarray(x), c)
                    back = np.asarray(b(mid, c), dtype=float)
                except NotImplementedError:
                    continue
                except Exception as e:  # a bijection that raises on a valid input of its own domain does not invert it
                    ctx.violation(sig=f"flow:{name}:{direction}:raised", what=f"{name} (dim {dim}, cond {cond}): {direction} round trip raised {type(e).__name__}: {str(e)[:120]} at x={np.ravel(x).tolist()}",
                                  case=dict(flow=name, dim=dim, cond=cond, direction=direction, x=[fhex(v) for v in np.ravel(x)]), found_input=True,
                                  unit=uf.name, expected="x", observed=type(e).__name__, broken="round-trip oracle on flow.bijection")
                    continue
                uf.count((name, dim, cond, direction, [fhex(v) for v in np.ravel(x)]), nontrivial=True, tag=name)
                # the '..._and_log_det' variant returns the same point as the plain method (analytic directions only: cheap)
                if not (name.startswith("bnaf") and ((direction == "fwd") == (type(bij).__name__ == "Invert"))):
                    ald = bij.transform_and_log_det if direction == "fwd" else bij.inverse_and_log_det
                    try:
                        mid2 = np.asarray(ald(jnp.asarray(x), c)[0], dtype=float)
                        if not np.allclose(mid2, np.asarray(mid, dtype=float), rtol=1e-12, atol=1e-12, equal_nan=True):
                            ctx.violation(sig=f"flow:{name}:{direction}:and-log-det-point", what=f"{name} (dim {dim}, cond {cond}): {'transform' if direction == 'fwd' else 'inverse'}_and_log_det "
                                          f"returns the point {np.ravel(mid2).tolist()} but the plain method returns {np.ravel(np.asarray(mid)).tolist()} at x={np.ravel(x).tolist()}",
                                          case=dict(flow=name, dim=dim, cond=cond, direction=direction, x=[fhex(v) for v in np.ravel(x)]), found_input=True,
                                          unit=uf.name, broken="and_log_det point = plain point (flows)")
                    except NotImplementedError:
                        pass
                if not np.all(np.isfinite(np.asarray(mid))):
                    continue
                err = float(np.max(np.abs(back - x)))
                scale = float(np.max(np.abs(x))) + 1.0
                slack = 0.0
                if err > tol * scale * 50 and not name.startswith("bnaf"):
                    # conditioning: how much does the returning map move when the intermediate point moves by ~2 ulp?
                    # (perturbed MAF scales can be tiny: the intermediate values are huge and the round trip loses digits)
                    m_ = np.asarray(mid, dtype=float)
                    try:
                        hi_ = np.asarray(b(jnp.asarray(m_ * (1 + 4.5e-16) + 1e-300), c), dtype=float)
                        lo_ = np.asarray(b(jnp.asarray(m_ * (1 - 4.5e-16) - 1e-300), c), dtype=float)
                        d_ = np.abs(hi_ - lo_)
                        slack = 64.0 * float(np.max(np.where(np.isfinite(d_), d_, 0.0)))
                    except Exception:  # noqa: BLE001
                        slack = 0.0
                if not err <= tol * scale * 50 + slack:
                    ctx.violation(sig=f"flow:{name}:{direction}", what=f"{name} (dim {dim}, cond {cond}): round trip {direction} error {err:.3g} at x={np.ravel(x).tolist()}",
                                  case=dict(flow=name, dim=dim, cond=cond, direction=direction, x=[fhex(v) for v in np.ravel(x)]), found_input=True,
                                  unit=uf.name, expected="x", observed=back.tolist(), broken="round-trip oracle on flow.bijection")


def replay(ctx, rep):
    c = rep["case"]
    if "layer" in c:   # a real MaskedAutoregressive / Coupling layer case of harness/autoreg.py
        from harness import autoreg

        return autoreg.replay_case(ctx, rep)
    if isinstance(c.get("spec"), (list, tuple)):   # a combinator tree of harness/bijinv.py (built by harness.c08.build): both round trips on the recorded point
        from harness import c08

        jnp = c08.fj()["jnp"]
        b = c08.build(c["spec"])
        x = jnp.asarray(np.array(c["x"], dtype=float).reshape(c["x_shape"]))
        cc = None if c.get("c") is None else jnp.asarray(np.array(c["c"], dtype=float).reshape(c["c_shape"]))
        ok = True
        for first, second in (("transform", "inverse"), ("inverse", "transform")):
            try:
                mid = getattr(b, first)(x, cc)
                back = np.asarray(getattr(b, second)(mid, cc), dtype=float)
            except NotImplementedError:
                continue
            good = bool(np.all(np.isfinite(np.asarray(mid)))) and np.allclose(back, np.asarray(x), rtol=1e-9, atol=1e-9)
            print(f"{second}({first}(x)) == x:", good)
            ok = ok and (good or not np.all(np.isfinite(np.asarray(mid))))
        return ok
    if "spec" not in c:
        print("flow-level replay: re-run ./check C01 (the flows oracle is seeded)")
        return False
    spec, m = c["spec"], c["method"]
    obj = lv.make_obj(spec)
    x = np.array([fparse(v) for v in c["x"]], dtype=float).reshape(tuple(spec.get("shape", ())))
    line = ctx.model([lv.request(spec, obj, m, x)], "leaves")[0]
    imp = lv.run_impl(obj, m, x)
    errs = roundtrip_errors(spec, obj, m, x) if m in ("fwd", "inv") else []
    print("model", line, "\nimplementation", imp, "\noracle", errs)
    return lv.same(lv.parse_model(line), imp) and not errs
