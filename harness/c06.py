"""C06 -- batched calls equal elementwise unbatched calls with NumPy broadcasting.

Tie: the extracted Coq model (Model/Vectorize.v) produces, for the shapes of one call, the output shape and a *plan*:
for every output element I the slice of x, of the condition and the position of the PRNG key (in the one jr.split the
code performs) that the unbatched method is called with -- or Err.  The harness executes that plan against the real
flowjax distributions: batched output[I] must equal the implementation's own unbatched call on the planned slices with
the planned key; shapes exact; raises iff the model says Err.

Oracle (independent of the model): the property's statement in plain NumPy -- np.broadcast_shapes / np.broadcast_to the
inputs, loop over np.ndindex calling the unbatched public method; sample shape law; no two batch elements share a draw
(exact, with the condition held constant along the batch); the same key gives the same result (twice, and from sample
vs sample_and_log_prob); the log-probs returned with the samples are those of the samples under their own condition.
"""

import itertools
import json

import numpy as np

PROPERTY = "C06"
GROUPS = ["vect"]
MANIFEST = {
    "design_ref": "DESIGN.md 4.6",
    "technique": "Coq proof (lists/nat, all ranks and shapes) about an executable model of jnp.vectorize-as-used, lax.broadcast_shapes and "
                 "_get_sample_keys (Model/Vectorize.v) + execution of the model's per-element plan against the real distributions",
    "text": "Theorems (closed under the global context) for ALL event/condition shapes, batch shapes and sample_shapes: log_prob's output shape is "
            "NumPy's broadcast of the two batch shapes (broadcast_shapes proved equal to the right-aligned size-1-stretch rule, Err exactly on a "
            "mismatching axis); output element I is the unbatched method on (x[bproj I], c[bproj I]) and bproj is proved to be indexing of the "
            "explicitly broadcast_to-ed array for unequal ranks as well; sample/sample_and_log_prob return sample_shape ++ cond_batch (++ event), "
            "element I = S++C is the unbatched method on condition[C] with key number ravel(I) of split(key, prod(sample_shape ++ cond_batch)): one "
            "key per output element, never shared (NoDup, given split yields distinct keys); with no batch dims the plan is the single unbatched "
            "call with split(key,1)[0]; the plan is Ok exactly when the trailing dims match and the batch shapes broadcast. The model is tied to "
            "/repo on every run by executing its plan against real distributions whose value depends on x and the condition (Normal/StudentT "
            "with array parameters, AdditiveCondition-transformed families of event rank 0-2 x condition rank 0-2, conditional coupling / masked "
            "autoregressive flows, Reshape-wrapped flows) on a lattice of batch shapes (size-1 axes, unequal ranks, empty batches) and a "
            "malformed stream; values to 1e-12 relative.",
    "note": "Trusted: Coq kernel; extraction (ExtrOcamlBasic); OCaml driver; harness. Assumed, not verified: jr.split yields pairwise distinct keys; "
            "jax.vmap/jnp.vectorize evaluate the wrapped function per element as documented (tied by execution only); _sample/_log_prob return arrays of "
            "the declared shapes. sample_shape or condition batch of size 0 makes sample() raise (reshape of 1 key into 0) -- modelled as Err, theorems "
            "carry prod <> 0. Float rounding is outside the model: batched vs unbatched values are compared to 1e-12*max(1,|v|).",
}

# AST fingerprints (docstrings dropped; computed by /venv's python 3.12) of the anchored functions the model was written
# against.  A difference is never an alarm by itself: the quick tier then runs with twice the random configurations and the
# evidence says so (DESIGN 1.4).
ANCHORS = {
    "flowjax/distributions.py": {
        "AbstractDistribution.log_prob": "45ac2a141f", "AbstractDistribution.sample": "43f2dbfa84",
        "AbstractDistribution.sample_and_log_prob": "e29e43c0f9", "AbstractDistribution._vectorize": "8652f4d512",
        "AbstractDistribution._get_sample_keys": "bb8291748f", "AbstractDistribution._sample_and_log_prob": "95cb98ac5d",
    },
    "flowjax/utils.py": {"_get_ufunc_signature": "59521a40cf", "arraylike_to_array": "b4eb8ea9bc"},
}


def changed_anchors():
    import ast
    import hashlib
    import os

    from harness import common

    changed = []
    for f, names in ANCHORS.items():
        try:
            tree = ast.parse(open(os.path.join(common.REPO, f)).read())
        except (OSError, SyntaxError):
            changed += list(names)
            continue
        defs = {}
        for node in tree.body:
            if isinstance(node, ast.FunctionDef):
                defs[node.name] = node
            if isinstance(node, ast.ClassDef):
                for n in node.body:
                    if isinstance(n, ast.FunctionDef):
                        defs[node.name + "." + n.name] = n
        for nm, want in names.items():
            n = defs.get(nm)
            if n is None:
                changed.append(nm)
                continue
            b = n.body
            if b and isinstance(b[0], ast.Expr) and isinstance(getattr(b[0], "value", None), ast.Constant) and isinstance(b[0].value.value, str):
                b = b[1:]
            src = ast.dump(ast.Module(body=b, type_ignores=[])) + ast.dump(n.args)
            if hashlib.sha1(src.encode()).hexdigest()[:10] != want:
                changed.append(nm)
    return changed


RTOL = 1e-12
LP_TOL = 1e-7  # sample_and_log_prob's log-prob (forward path) vs log_prob of that sample (inverse path): oracle only
_state = {}


# ----------------------------------------------------------------------------------------------------------------------
# distributions under test
# ----------------------------------------------------------------------------------------------------------------------
class D:
    """One distribution under test + lazily jitted unbatched methods."""

    def __init__(self, name, dist, heavy=False):
        self.name, self.dist, self.heavy = name, dist, heavy
        self.dshape = tuple(dist.shape)
        self.cshape = None if dist.cond_shape is None else tuple(dist.cond_shape)
        self._fns = {}

    def fn(self, which):
        """The implementation's own unbatched call, jitted once (all unbatched calls of one distribution share shapes)."""
        if which not in self._fns:
            import equinox as eqx
            from flowjax.wrappers import unwrap

            d = self.dist
            if which == "log_prob":  # public method on unbatched arguments
                f = (lambda x, c: d.log_prob(x, c)) if self.cshape is not None else (lambda x, c: d.log_prob(x))
            elif which == "_sample":  # the unbatched method the plan's key is handed to
                f = (lambda k, c: unwrap(d)._sample(k, c)) if self.cshape is not None else (lambda k, c: unwrap(d)._sample(k))
            elif which == "_sample_and_log_prob":
                f = (lambda k, c: unwrap(d)._sample_and_log_prob(k, c)) if self.cshape is not None else (lambda k, c: unwrap(d)._sample_and_log_prob(k))
            else:
                raise KeyError(which)
            self._fns[which] = eqx.filter_jit(f)
        return self._fns[which]


def _perturb(tree, key, scale=0.4):
    import equinox as eqx
    import jax
    import jax.random as jr
    from flowjax import wrappers

    params, static = eqx.partition(tree, eqx.is_inexact_array, is_leaf=lambda l: isinstance(l, wrappers.NonTrainable))
    leaves, td = jax.tree_util.tree_flatten(params)
    keys = jr.split(key, max(1, len(leaves)))
    leaves = [l + scale * jr.normal(k, l.shape, l.dtype) for l, k in zip(leaves, keys)]
    return eqx.combine(jax.tree_util.tree_unflatten(td, leaves), static)


E_SHAPES = [(), (2,), (2, 3)]
C_SHAPES = [(), (3,), (1, 2)]


def build_zoo(zoo_seed, only=None):
    """name -> D.  Deterministic in zoo_seed.  `only`: build just that one (replay)."""
    import warnings

    import jax.numpy as jnp
    import jax.random as jr
    from flowjax.bijections import AdditiveCondition, Affine, RationalQuadraticSpline, Reshape
    from flowjax.distributions import Laplace, Normal, StandardNormal, StudentT, Transformed
    from flowjax.flows import coupling_flow, masked_autoregressive_flow

    warnings.filterwarnings("ignore")
    rng = np.random.default_rng([zoo_seed, 606])
    zoo = {}

    def want(name):
        return only is None or only == name

    def arr(shape, lo=None):
        a = rng.normal(size=shape)
        if lo is not None:
            a = np.abs(a) + lo
        return jnp.asarray(a)

    # ---- unconditional families with array parameters, event rank 0-2
    for sh in E_SHAPES:
        nm = f"Normal{list(sh)}"
        loc, sc = arr(sh), arr(sh, 0.3)
        if want(nm):
            zoo[nm] = D(nm, Normal(loc, sc))
    if want("StandardNormal[2]"):  # no bijection underneath: nothing but _vectorize checks its argument shapes
        zoo["StandardNormal[2]"] = D("StandardNormal[2]", StandardNormal((2,)))
    for sh in [(), (3,)]:
        nm = f"StudentT{list(sh)}"
        df, loc, sc = arr(sh, 2.0), arr(sh), arr(sh, 0.3)
        if want(nm):
            zoo[nm] = D(nm, StudentT(df, loc, sc))
    # ---- conditional, event rank 0-2 x condition rank 0-2: value depends on x and on the condition
    bases = itertools.cycle(["normal", "studentt", "laplace"])
    for sh, csh in itertools.product(E_SHAPES, C_SHAPES):
        nm = f"Additive{list(sh)}|{list(csh)}"
        n, m = int(np.prod(sh, dtype=int)), int(np.prod(csh, dtype=int))
        W = jnp.asarray(rng.normal(size=(n, m)))
        b = next(bases)
        loc, sc, df = arr(sh), arr(sh, 0.3), arr(sh, 2.0)
        if not want(nm):
            continue
        base = {"normal": lambda: Normal(loc, sc), "studentt": lambda: StudentT(df, loc, sc), "laplace": lambda: Laplace(loc, sc)}[b]()

        def f(c, W=W, sh=sh):
            return (W @ jnp.tanh(c.reshape(-1)) + 0.1 * jnp.sum(c**2)).reshape(sh)

        zoo[nm] = D(nm, Transformed(base, AdditiveCondition(f, sh, csh)))
    # ---- conditional flows (parameters perturbed away from the identity-like initialisation)
    k = jr.PRNGKey(zoo_seed)
    k1, k2, k3, k4, p1, p2, p3, p4 = jr.split(k, 8)
    if want("coupling[3]|[2]"):
        fl = coupling_flow(k1, base_dist=Normal(jnp.zeros(3)), cond_dim=2, transformer=Affine(), flow_layers=2, nn_width=5)
        zoo["coupling[3]|[2]"] = D("coupling[3]|[2]", _perturb(fl, p1), heavy=True)
    if want("maf_rqs[2]|[3]"):
        fl = masked_autoregressive_flow(k2, base_dist=StandardNormal((2,)), cond_dim=3, flow_layers=1, nn_width=5,
                                        transformer=RationalQuadraticSpline(knots=4, interval=3))
        zoo["maf_rqs[2]|[3]"] = D("maf_rqs[2]|[3]", _perturb(fl, p2), heavy=True)
    if want("maf_scalar[]|[]"):  # scalar event, scalar condition
        fl = masked_autoregressive_flow(k3, base_dist=StandardNormal((1,)), cond_dim=1, flow_layers=2, nn_width=4)
        zoo["maf_scalar[]|[]"] = D("maf_scalar[]|[]", _perturb(Transformed(StandardNormal(()), Reshape(fl.bijection, (), ())), p3), heavy=True)
    if want("coupling_reshaped[2, 2]|[1, 2]"):  # event rank 2, condition rank 2
        fl = coupling_flow(k4, base_dist=StandardNormal((4,)), cond_dim=2, flow_layers=2, nn_width=5)
        zoo["coupling_reshaped[2, 2]|[1, 2]"] = D("coupling_reshaped[2, 2]|[1, 2]",
                                                   _perturb(Transformed(StandardNormal((2, 2)), Reshape(fl.bijection, (2, 2), (1, 2))), p4), heavy=True)
    return zoo


# ----------------------------------------------------------------------------------------------------------------------
# model requests
# ----------------------------------------------------------------------------------------------------------------------
def _sh(s):
    return "N" if s is None else (",".join(str(int(v)) for v in s) if len(s) else "-")


def _unsh(s):
    if s == "N":
        return None
    return () if s == "-" else tuple(int(v) for v in s.split(","))


def model_request(d, case):
    if case["method"] == "log_prob":
        return f"lp {_sh(d.dshape)} {_sh(d.cshape)} {_sh(case['x_shape'])} {_sh(case['c_shape'])}"
    return f"sm {_sh(d.dshape)} {_sh(d.cshape)} {_sh(case['ss'])} {_sh(case['c_shape'])}"


def parse_plan(line, sampling):
    """-> dict(err=kind) or dict(out=..., full=..., n=..., entries=[(I, a, Ic)])."""
    t = line.split(" ")
    if t[0] == "err":
        return {"err": t[1]}
    if t[0] != "ok":
        raise RuntimeError("driver: " + line)
    if sampling:
        out, full, n, ents = _unsh(t[1]), _unsh(t[2]), int(t[3]), t[4]
    else:
        out, full, n, ents = _unsh(t[1]), _unsh(t[1]), None, t[2]
    entries = []
    if ents != ".":
        for e in ents.split("|"):
            a, b, c = e.split(":")
            entries.append((_unsh(a), int(b) if sampling else _unsh(b), _unsh(c)))
    return {"out": out, "full": full, "n": n, "entries": entries}


# ----------------------------------------------------------------------------------------------------------------------
# running one case on the implementation
# ----------------------------------------------------------------------------------------------------------------------
def gen_inputs(d, case):
    """Inputs of a case, deterministic in case['data_seed']."""
    import jax.random as jr

    rng = np.random.default_rng([int(case["data_seed"]), 17])
    x = c = key = None
    if case["method"] == "log_prob":
        x = rng.normal(size=tuple(case["x_shape"]))
    else:
        key = jr.PRNGKey(int(case["data_seed"]) % (2**31))
    if case["c_shape"] is not None:
        cs = tuple(case["c_shape"])
        if case.get("const_cond") and d.cshape is not None and len(cs) >= len(d.cshape) and cs[len(cs) - len(d.cshape):] == d.cshape:
            c = np.broadcast_to(rng.normal(size=d.cshape), cs).copy()  # the same condition at every batch position
        else:
            c = rng.normal(size=cs)
    return x, c, key


def call_impl(d, case, x, c, key):
    """-> ("ok", numpy outputs tuple) | ("raise", "ExcType: message")."""
    try:
        m = case["method"]
        if m == "log_prob":
            r = (d.dist.log_prob(x, c) if (c is not None or d.cshape is not None) else d.dist.log_prob(x),)
        elif m == "sample":
            r = (d.dist.sample(key, tuple(case["ss"]), c),)
        else:
            r = d.dist.sample_and_log_prob(key, tuple(case["ss"]), c)
        return "ok", tuple(np.asarray(a) for a in r)
    except Exception as e:  # noqa: BLE001  -- every rejection counts as "raises"
        return "raise", f"{type(e).__name__}: {str(e)[:160]}"


ERR_PATTERNS = {
    "arraylike": "to be arraylike", "ndim": "does not have enough dimensions", "dimsize": "inconsistent size for core dimension",
    "broadcast": "Incompatible shapes for broadcasting", "trailing": "Expected trailing dimensions matching", "reshape": "cannot reshape",
}


def close(a, b, tol=RTOL):
    a, b = np.asarray(a, dtype=float), np.asarray(b, dtype=float)
    if a.shape != b.shape:
        return False
    fin = np.isfinite(a) & np.isfinite(b)
    if not np.array_equal(np.isnan(a), np.isnan(b)) or not np.array_equal(a[~fin & ~np.isnan(a)], b[~fin & ~np.isnan(a)]):
        return False
    return bool(np.all(np.abs(a[fin] - b[fin]) <= tol * np.maximum(1.0, np.abs(b[fin]))))


class Memo:
    """Memo of the (deterministic) unbatched calls of one case, keyed by the bytes of the arguments."""

    def __init__(self, d):
        self.d, self.m = d, {}
        self.calls = 0

    def __call__(self, which, a, c):
        a = np.asarray(a)
        key = (which, a.tobytes(), None if c is None else np.asarray(c).tobytes())
        if key not in self.m:
            self.calls += 1
            r = self.d.fn(which)(a, c)
            self.m[key] = tuple(np.asarray(v) for v in r) if isinstance(r, tuple) else np.asarray(r)
        return self.m[key]


def check_plan(d, case, plan, status, outs, x, c, key, memo, stats):
    """Execute the model's plan against the implementation's outputs.  -> list of disagreement strings."""
    import jax.random as jr

    if "err" in plan:
        if status == "raise":
            kind = plan["err"]
            stats["errkind_match" if ERR_PATTERNS[kind] in outs else "errkind_other"] += 1
            return []
        return [f"model says the call raises ({plan['err']}) but the implementation returned arrays of shape {[o.shape for o in outs]}"]
    if status == "raise":
        return [f"model plans output batch shape {plan['out']} but the implementation raised {outs}"]
    m = case["method"]
    dis = []
    cond = d.cshape is not None
    if m == "log_prob":
        lp = outs[0]
        if tuple(lp.shape) != plan["out"]:
            return [f"log_prob shape {tuple(lp.shape)} != model {plan['out']}"]
        for I, Ix, Ic in plan["entries"]:
            ref = memo("log_prob", x[Ix], c[Ic] if cond else None)
            stats["elements"] += 1
            stats["bit_identical"] += int(np.array_equal(ref, lp[I], equal_nan=True))
            if not close(lp[I], ref):
                dis.append(f"log_prob(x, c)[{I}] = {lp[I]!r} but the unbatched log_prob(x[{Ix}], c[{Ic}]) = {ref!r}")
                break
        return dis
    s = outs[0]
    if tuple(s.shape) != plan["full"]:
        return [f"{m} sample shape {tuple(s.shape)} != model {plan['full']}"]
    if m == "sample_and_log_prob" and tuple(outs[1].shape) != plan["out"]:
        return [f"sample_and_log_prob log-prob shape {tuple(outs[1].shape)} != model {plan['out']}"]
    keys = np.asarray(jr.split(key, plan["n"]))  # replay of the one split, along the model's key path
    for I, k, Ic in plan["entries"]:
        cc = c[Ic] if cond else None
        stats["elements"] += 1
        if m == "sample":
            ref = memo("_sample", keys[k], cc)
            stats["bit_identical"] += int(np.array_equal(ref, s[I]))
            if not close(s[I], ref):
                dis.append(f"sample(key, {tuple(case['ss'])}, c)[{I}] = {s[I]!r} but _sample(split(key,{plan['n']})[{k}], c[{Ic}]) = {ref!r}")
                break
        else:
            rs, rl = memo("_sample_and_log_prob", keys[k], cc)
            stats["bit_identical"] += int(np.array_equal(rs, s[I]) and np.array_equal(rl, outs[1][I]))
            if not (close(s[I], rs) and close(outs[1][I], rl)):
                dis.append(f"sample_and_log_prob(key, {tuple(case['ss'])}, c)[{I}] = ({s[I]!r}, {outs[1][I]!r}) but "
                           f"_sample_and_log_prob(split(key,{plan['n']})[{k}], c[{Ic}]) = ({rs!r}, {rl!r})")
                break
    return dis


# ----------------------------------------------------------------------------------------------------------------------
# the property's own statement (no model)
# ----------------------------------------------------------------------------------------------------------------------
def well_formed(d, case):
    """Is the input inside the property's quantifier?  -> (batch shapes...) or None.  Plain NumPy."""
    if d.cshape is not None and case["c_shape"] is None:
        return None
    nd = len(d.dshape)
    cb = ()
    if d.cshape is not None:
        cs, nc = tuple(case["c_shape"]), len(d.cshape)
        if len(cs) < nc or cs[len(cs) - nc:] != d.cshape:
            return None
        cb = cs[: len(cs) - nc]
    if case["method"] == "log_prob":
        xs = tuple(case["x_shape"])
        if len(xs) < nd or xs[len(xs) - nd:] != d.dshape:
            return None
        xb = xs[: len(xs) - nd]
        try:
            out = tuple(np.broadcast_shapes(xb, cb))
        except ValueError:
            return None
        return {"xb": xb, "cb": cb, "out": out}
    ss = tuple(case["ss"])
    if int(np.prod(ss + cb, dtype=int)) == 0:
        return None  # empty sample: see MANIFEST note (the implementation raises; outside the statement as read here)
    return {"ss": ss, "cb": cb, "out": ss + cb}


def oracle(d, case, status, outs, x, c, key, memo, extra=True):
    """The statement of C06 evaluated on the implementation alone.  -> list of failures (strings)."""
    wf = well_formed(d, case)
    if wf is None:
        return []
    if status == "raise":
        return [f"{case['method']} rejects a well-formed batched call: {outs}"]
    m, out, cond = case["method"], wf["out"], d.cshape is not None
    errs = []
    if m == "log_prob":
        lp = outs[0]
        if tuple(lp.shape) != out:
            return [f"log_prob returns shape {tuple(lp.shape)}; NumPy broadcasting of the batch shapes {wf['xb']} and {wf['cb']} is {out}"]
        xbb = np.broadcast_to(x, out + d.dshape)
        cbb = np.broadcast_to(c, out + d.cshape) if cond else None
        for I in np.ndindex(*out):
            ref = memo("log_prob", xbb[I], cbb[I] if cond else None)
            if not close(lp[I], ref):
                errs.append(f"log_prob(x, condition)[{I}] = {float(lp[I])!r} but log_prob(broadcast x[{I}], broadcast condition[{I}]) = {float(ref)!r}")
                break
        return errs
    s = outs[0]
    if tuple(s.shape) != out + d.dshape:
        return [f"{m} returns samples of shape {tuple(s.shape)}; sample_shape + condition batch + event shape = {out + d.dshape}"]
    if m == "sample_and_log_prob" and tuple(outs[1].shape) != out:
        return [f"sample_and_log_prob returns log-probs of shape {tuple(outs[1].shape)}; expected {out}"]
    flat = s.reshape((int(np.prod(out, dtype=int)), -1))
    if len(flat) > 1:
        # no repeated draws.  Exact equality; with the condition constant along the batch (const_cond cases and all
        # unconditional ones) a shared key gives exactly equal rows.
        _, idx, cnt = np.unique(flat, axis=0, return_index=True, return_counts=True)
        if (cnt > 1).any():
            r = flat[idx[np.argmax(cnt > 1)]]
            where = [I for I in np.ndindex(*out) if np.array_equal(s[I].reshape(-1), r)][:2]
            errs.append(f"{m}: batch elements {where} of one batched sample are the same draw {r.tolist()}")
    if extra:
        st2, outs2 = call_impl(d, case, x, c, key)
        if st2 != "ok" or not all(np.array_equal(a, b, equal_nan=True) for a, b in zip(outs, outs2)):
            errs.append(f"{m}: the same key gave a different result on a second call")
        other = dict(case, method="sample" if m == "sample_and_log_prob" else "sample_and_log_prob")
        st3, outs3 = call_impl(d, other, x, c, key)
        if st3 != "ok" or not close(outs3[0], s):
            errs.append("sample and sample_and_log_prob return different samples for the same key")
        pair = outs if m == "sample_and_log_prob" else (outs3 if st3 == "ok" else None)
    else:
        pair = outs if m == "sample_and_log_prob" else None
    if pair is not None and len(pair) == 2:
        # the log-prob returned with element I is the log-prob of that sample under ITS condition (public unbatched call)
        ss = wf["ss"]
        for I in np.ndindex(*out):
            cc = c[I[len(ss):]] if cond else None
            ref = memo("log_prob", pair[0][I], cc)
            if not close(pair[1][I], ref, LP_TOL):
                errs.append(f"sample_and_log_prob[{I}]: returned log-prob {float(pair[1][I])!r} but log_prob(sample[{I}], condition[{I[len(ss):]}]) = {float(ref)!r}")
                break
    return errs


# ----------------------------------------------------------------------------------------------------------------------
# case generation
# ----------------------------------------------------------------------------------------------------------------------
AXES = (1, 2, 3)


def lattice(max_rank):
    out = []
    for r in range(max_rank + 1):
        out += list(itertools.product(AXES, repeat=r))
    return out


def derive(rng, out):
    """A batch shape that broadcasts into `out`: drop leading axes, shrink some axes to 1."""
    k = int(rng.integers(0, len(out) + 1))
    s = list(out[k:])
    for i in range(len(s)):
        if rng.random() < 0.35:
            s[i] = 1
    return tuple(s)


def gen_cases(ctx, zoo, zoo_seed, boost=1):
    rng = ctx.rng
    quick = ctx.quick
    cases = []

    def add(d, method, tag, **kw):
        case = {"dist": d.name, "zoo_seed": zoo_seed, "method": method, "tag": tag, "data_seed": int(rng.integers(0, 2**31)),
                "x_shape": None, "c_shape": None, "ss": None}
        case.update(kw)
        for k in ("x_shape", "c_shape", "ss"):
            if case[k] is not None:
                case[k] = [int(v) for v in case[k]]
        cases.append(case)

    lat2 = lattice(2)
    for di, d in enumerate(zoo.values()):
        cond = d.cshape is not None
        csh = d.cshape if cond else ()
        heavy = d.heavy
        # ---------------- log_prob: pairs of batch shapes
        if quick:
            pairs = [((), ())]
            for _ in range((1 if cond else 3) + 3 * (boost - 1)):
                r = int(rng.integers(1, 4))
                out = tuple(int(v) for v in rng.choice([2, 3], size=r))
                if int(np.prod(out)) > 18:
                    out = out[1:]
                xb, cb = derive(rng, out), (derive(rng, out) if cond else ())
                if not xb and not cb:  # no second scalar case: keep the full batch on one side
                    xb = out
                pairs.append((xb, cb))
            if cond:  # "square" batches: right- and left-alignment of the lower-rank batch give the same shape, different pairing
                n = int(rng.choice([2, 3]))
                pairs.append(((n,), (n, n)) if rng.random() < 0.5 else ((n, n), (n,)))
            fixed = [((4, 1), (5,)), ((1,), (3,)), ((2, 1, 3), (2, 1)), ((), (4,)), ((3,), ()), ((1, 1), (1,)), ((0,), (1,)), ((2, 0), ())]
            for i in rng.choice(len(fixed), size=1, replace=False):
                pairs.append(fixed[int(i)] if cond else (fixed[int(i)][0], ()))
        else:
            pairs = [(a, b) for a in lat2 for b in (lat2 if cond else [()])]
            if heavy:
                pairs = [p for p in pairs if rng.random() < 0.25]
            pairs += [((2, 1, 3), (2, 1)), ((2, 1, 3), (3, 1, 1)), ((1, 2, 1, 2), (2, 1)), ((0,), (1,)), ((2, 0), ()), ((0, 3), (1, 3))]
            for _ in range(10 if heavy else 40):  # rank 3 and 4, unequal ranks, stretched axes
                out = tuple(int(v) for v in rng.choice([1, 2, 3], size=int(rng.integers(3, 5))))
                while int(np.prod(out)) > 36:
                    out = out[1:]
                pairs.append((derive(rng, out), derive(rng, out)))
            if not cond:
                pairs = sorted(set((a, ()) for a, _ in pairs))
        for xb, cb in pairs:
            try:
                np.broadcast_shapes(xb, cb)
                tag = "lp:" + ("scalar" if not xb and not cb else "unequal-rank" if len(xb) != len(cb) and xb and cb else
                               "size1" if (1 in xb or 1 in cb) else "one-sided" if not xb or not cb else "equal")
            except ValueError:
                tag = "lp:malformed-broadcast"
            add(d, "log_prob", tag, x_shape=xb + d.dshape, c_shape=(cb + csh) if cond else None)
        if not cond:  # a condition handed to an unconditional distribution is ignored (excluded argument)
            add(d, "log_prob", "lp:ignored-condition", x_shape=(2,) + d.dshape, c_shape=(7,))
        # ---------------- log_prob: malformed stream
        mal = []
        if d.dshape:
            mal.append(("lp:malformed-trailing-x", (2,) + d.dshape[:-1] + (d.dshape[-1] + 1,), (2,) + csh))
            mal.append(("lp:malformed-ndim-x", d.dshape[1:], csh))
            mal.append(("lp:malformed-trailing-x", d.dshape[::-1] + (5,), csh))
        if cond and d.cshape:
            mal.append(("lp:malformed-trailing-c", (2,) + d.dshape, (2,) + d.cshape[:-1] + (d.cshape[-1] + 1,)))
            mal.append(("lp:malformed-ndim-c", d.dshape, d.cshape[1:]))
        if cond:
            mal.append(("lp:malformed-none-condition", (2,) + d.dshape, None))
            mal.append(("lp:malformed-broadcast", (3,) + d.dshape, (2,) + csh))
            mal.append(("lp:malformed-broadcast", (2, 1) + d.dshape, (3, 2) + csh))
        if quick and len(mal) > 2:
            mal = [mal[int(i)] for i in rng.choice(len(mal), size=2, replace=False)]
        for tag, xs, cs in mal:
            add(d, "log_prob", tag, x_shape=xs, c_shape=cs if cond else None)
        # ---------------- sample / sample_and_log_prob
        if quick:
            nz = [t for t in lat2 if t]

            def pick():
                return nz[int(rng.integers(0, len(nz)))]

            # scalar; sample_shape only; condition batch only (the cond_ndim = 0 slice corner for scalar conditions); both
            spairs = [((), ()), (pick(), ())] + ([((), pick())] if cond else [])
            ss, cb = pick(), (pick() if cond else pick()[:1])
            while int(np.prod(ss + cb, dtype=int)) > 18:
                ss = ss[1:] if len(ss) > 1 else (2,)
                cb = cb[1:] if len(cb) > 1 else cb
            spairs.append((ss, cb) if cond else (ss + cb, ()))
            for _ in range(3 * (boost - 1)):
                a, b = pick(), (pick() if cond else ())
                if int(np.prod(a + b, dtype=int)) <= 18:
                    spairs.append((a if rng.random() < 0.7 else (), b))
            if heavy or not cond:
                pass
            else:
                sfixed = [((3,), (2,)), ((2, 2), (1, 3)), ((2,), (1, 1)), ((1,), (2, 1)), ((1, 2), (3, 1))]
                spairs.append(sfixed[int(rng.integers(0, len(sfixed)))])
        else:
            l1 = lattice(1) + [(2, 2), (1, 3), (2, 1), (3, 1), (1, 1), (3, 2), (2, 1, 2)]
            spairs = [(a, b) for a in l1 for b in (l1 if cond else [()])]
            if heavy:
                spairs = [p for p in spairs if rng.random() < 0.4]
        for j, (ss, cb) in enumerate(spairs):
            # quick: the two methods alternate over the configurations (the oracle's cross-method clause calls the other one)
            for m in (("sample", "sample_and_log_prob") if not quick else (("sample", "sample_and_log_prob")[(j + len(cases)) % 2],)):
                tag = "smp:" + ("scalar" if not ss and not cb else "sample_shape-only" if not cb else "cond-batch-only" if not ss else "both")
                add(d, m, tag, ss=ss, c_shape=(cb + csh) if cond else None, const_cond=bool(cond and cb and ((j + di) % 2 == 1)))
        smal = [("smp:malformed-empty", (0,), csh), ("smp:malformed-empty", (2, 0), (1,) + csh)]
        if cond:
            smal += [("smp:malformed-empty", (2,), (0,) + csh), ("smp:malformed-none-condition", (2,), None)]
            if d.cshape:
                smal += [("smp:malformed-trailing-c", (2,), (3,) + d.cshape[:-1] + (d.cshape[-1] + 1,)), ("smp:malformed-ndim-c", (2,), d.cshape[1:])]
        else:
            add(d, "sample", "smp:ignored-condition", ss=(2,), c_shape=(7,))
        if quick and len(smal) > 2:
            smal = [smal[int(i)] for i in rng.choice(len(smal), size=2, replace=False)]
        for tag, ss, cs in smal:
            add(d, "sample" if rng.random() < 0.5 else "sample_and_log_prob", tag, ss=ss, c_shape=cs if cond else None)
    return cases


# ----------------------------------------------------------------------------------------------------------------------
# one case, both sides
# ----------------------------------------------------------------------------------------------------------------------
def run_case(d, case, plan_line, stats, extra_oracle):
    x, c, key = gen_inputs(d, case)
    status, outs = call_impl(d, case, x, c, key)
    plan = parse_plan(plan_line, case["method"] != "log_prob")
    memo = Memo(d)
    dis = check_plan(d, case, plan, status, outs, x, c, key, memo, stats)
    errs = oracle(d, case, status, outs, x, c, key, memo, extra=extra_oracle or bool(dis))
    return plan, status, outs, dis, errs


def neighbours(d, case):
    """Cases around a disagreeing one on which the oracle is sensitive (condition constant along the batch; swapped roles)."""
    out = []
    if case["method"] != "log_prob":
        out.append(dict(case, const_cond=True))
        out.append(dict(case, method="sample" if case["method"] != "sample" else "sample_and_log_prob", const_cond=True))
        if d.cshape is not None and case["c_shape"] is not None and case["ss"] is not None:
            nc = len(d.cshape)
            cs = list(case["c_shape"])
            if len(cs) >= nc:
                cb = cs[: len(cs) - nc]
                out.append(dict(case, ss=[], c_shape=list(case["ss"]) + cs, const_cond=True))  # all batch axes on the condition
                out.append(dict(case, ss=list(case["ss"]) + cb, c_shape=list(d.cshape)))  # all batch axes in sample_shape
    return out


def _summ(status, outs):
    if status == "raise":
        return outs
    return {"shapes": [list(o.shape) for o in outs], "head": [np.asarray(o).reshape(-1)[:6].tolist() for o in outs]}


def report(ctx, u, d, case, plan, status, outs, dis, errs, model_line):
    """One violation for a disagreement and/or an oracle failure."""
    found = bool(errs)
    wit = case
    if dis and not errs:  # search around the disagreeing case with the property's own oracle
        for nb in neighbours(d, case):
            x, c, key = gen_inputs(d, nb)
            st, o = call_impl(d, nb, x, c, key)
            e2 = oracle(d, nb, st, o, x, c, key, Memo(d), extra=True)
            if e2:
                found, errs, wit = True, e2, nb
                break
    kind = "oracle" if found else "model-mismatch"
    what = (errs[0] if found else dis[0])
    first = (errs or dis)[0]
    pred = first.split(":")[0].split("[")[0].split("(")[0].strip().replace(" ", "-")[:40]
    ctx.violation(
        sig=f"{case['method']}:{case['tag']}:{kind}:{pred}",
        what=f"{d.name} (shape {d.dshape}, cond_shape {d.cshape}) {what}" + (f" [model disagreement: {dis[0]}]" if dis and found else ""),
        case={k: wit[k] for k in ("dist", "zoo_seed", "method", "tag", "data_seed", "x_shape", "c_shape", "ss") if k in wit} | {"const_cond": bool(wit.get("const_cond"))},
        found_input=found, unit=u.name, expected=model_line[:400], observed=_summ(status, outs),
        broken="correspondence batching-plan (Model.Vectorize.plan_logprob / plan_sample) / theorems C06_*",
        reproducer="cd /verif && ./check C06 --replay <this file> --no-build   # or: PYTHONPATH=$VERIF_REPO:/verif JAX_PLATFORMS=cpu /venv/bin/python -c \"from harness import common, c06; "
                   "common.init_jax(); import json; c = json.load(open('<this file>'))['case']; d = c06.build_zoo(c['zoo_seed'], only=c['dist'])[c['dist']]; x, cond, key = c06.gen_inputs(d, c); "
                   "print(c06.call_impl(d, c, x, cond, key))\"  (the distribution is rebuilt from (dist, zoo_seed), the inputs from data_seed)",
    )


# ----------------------------------------------------------------------------------------------------------------------
# broadcast_to / bproj self-tie against NumPy
# ----------------------------------------------------------------------------------------------------------------------
def numpy_unit(ctx):
    """The spec-side definitions the theorems are stated with (broadcast_shapes, broadcast_to, tsub, ndindex, ravel, bproj) vs NumPy."""
    u = ctx.unit("numpy-spec", "Model.Vectorize.{broadcast_shapes, broadcast_to, tsub, bproj, ndindex, ravel, run_logprob} vs np.broadcast_shapes / "
                               "np.broadcast_to / indexing / np.ndindex / np.ravel_multi_index on the 4-valued axis lattice {0,1,2,3} up to rank 3; "
                               "non-trivial = ranks differ or a size-1 axis is stretched")
    rng = ctx.rng
    lat = [s for r in range(4) for s in itertools.product((0, 1, 2, 3), repeat=r)]
    pairs = [(a, b) for a in lat for b in lat]
    if ctx.quick:
        pairs = [pairs[int(i)] for i in rng.choice(len(pairs), size=500, replace=False)]
    reqs, meta = [], []
    for a, b in pairs:
        reqs.append(f"bs {_sh(a)} {_sh(b)}")
        meta.append(("bs", a, b))
        try:
            out = tuple(np.broadcast_shapes(a, b))
        except ValueError:
            continue
        if int(np.prod(out, dtype=int)) == 0 or int(np.prod(out, dtype=int)) > 40:
            continue
        t = rng.integers(0, 1000, size=a)
        reqs.append(f"bto {_sh(a)} {_sh(out)} {_sh(t.reshape(-1)) if t.size else '-'}")
        meta.append(("bto", a, out, t))
        I = tuple(int(rng.integers(0, n)) for n in out)
        reqs.append(f"bproj {_sh(a)} {_sh(out)} {_sh(I)}")
        meta.append(("bproj", a, out, t, I))
        reqs.append(f"ndindex {_sh(out)}")
        meta.append(("ndindex", out))
        reqs.append(f"ravel {_sh(out)} {_sh(I)}")
        meta.append(("ravel", out, I))
    # run_logprob (tab/lookup over the plan) with an integer f
    for _ in range(60 if ctx.quick else 600):
        ds = lat[int(rng.integers(0, 13))]
        cs = lat[int(rng.integers(0, 13))]
        ds, cs = tuple(max(1, v) for v in ds), tuple(max(1, v) for v in cs)
        out = tuple(int(v) for v in rng.choice([2, 3], size=int(rng.integers(0, 3))))
        xb, cb = derive(rng, out), derive(rng, out)
        xv, cv = rng.integers(0, 9, size=xb + ds), rng.integers(0, 9, size=cb + cs)
        reqs.append(f"runlp {_sh(ds)} {_sh(cs)} {_sh(xb + ds)} {_sh(cb + cs)} {_sh(xv.reshape(-1))} {_sh(cv.reshape(-1))}")
        meta.append(("runlp", ds, cs, xb, cb, xv, cv))
    res = ctx.model(reqs)
    for m, r in zip(meta, res):
        ok, nontrivial, exp = True, False, None
        if m[0] == "bs":
            try:
                exp = "ok " + _sh(np.broadcast_shapes(m[1], m[2]))
            except ValueError:
                exp = "err broadcast"
            nontrivial = len(m[1]) != len(m[2]) or 1 in m[1] or 1 in m[2]
        elif m[0] == "bto":
            exp = _sh(np.broadcast_to(m[3], m[2]).reshape(-1))
            nontrivial = tuple(m[1]) != tuple(m[2])
        elif m[0] == "bproj":
            _, a, out, t, I = m
            J = _unsh(r)
            ok = len(J) == len(a) and all(j < n for j, n in zip(J, a)) and t[J] == np.broadcast_to(t, out)[I]
            exp = r if ok else "index with t[J] == broadcast_to(t)[I]"
            nontrivial = tuple(a) != tuple(out)
        elif m[0] == "ndindex":
            exp = "|".join(_sh(I) for I in np.ndindex(*m[1]))
            nontrivial = len(m[1]) > 1
        elif m[0] == "ravel":
            exp = str(int(np.ravel_multi_index(m[2], m[1]))) if m[1] else "0"
            nontrivial = len(m[1]) > 1
        else:
            _, ds, cs, xb, cb, xv, cv = m
            out = tuple(np.broadcast_shapes(xb, cb))
            xbb, cbb = np.broadcast_to(xv, out + ds), np.broadcast_to(cv, out + cs)
            vals = [1000 * int(xbb[I].sum()) + int(cbb[I].sum()) for I in np.ndindex(*out)]
            exp = f"ok {_sh(out)} {_sh(vals)}"
            nontrivial = xb != out or cb != out
        u.count((m[0],) + tuple(str(v) for v in m[1:3]) + (r,), nontrivial=nontrivial, tag=m[0])
        if r != exp:
            u.disagreements += 1
            ctx.violation(sig=f"numpy-spec:{m[0]}", what=f"model {m[0]} on {[str(v)[:60] for v in m[1:]]} gives {r[:120]}, NumPy gives {exp[:120]}",
                          case={"spec": m[0], "args": [np.asarray(v).tolist() for v in m[1:]]}, found_input=False, unit=u.name, expected=exp[:300],
                          observed=r[:300], broken="the NumPy-facing definitions of Model/Vectorize.v (spec side of bproj_spec / broadcast_shapes_spec)")


# ----------------------------------------------------------------------------------------------------------------------
def large_batch_oracle(ctx, uo):
    """One key per output element also for LARGE batches (more than 2**16 elements in one call): no repeated draws.  Cheap
    distributions only.  (Seeded change C06c shared keys between blocks of 65536 elements.)"""
    import jax.numpy as jnp
    import jax.random as jr
    from flowjax.bijections import AdditiveCondition
    from flowjax.distributions import Normal, Transformed

    key = jr.PRNGKey(int(ctx.rng.integers(0, 2**31)))
    cases = [("Normal() sample_shape (70001,)", Normal(), (70001,), None),
             ("Transformed(Normal(), AdditiveCondition) sample_shape (300,) x condition batch (250,)",
              Transformed(Normal(), AdditiveCondition(lambda c: c, (), ())), (300,), jnp.zeros(250))]
    for name, d, ss, c in cases:
        for meth in ("sample", "sample_and_log_prob"):
            out = d.sample(key, ss, condition=c) if meth == "sample" else d.sample_and_log_prob(key, ss, condition=c)[0]
            out = np.asarray(out, dtype=float).ravel()
            n_distinct = len(np.unique(out))
            uo.count(("large-batch", name, meth), nontrivial=True, tag="large-batch")
            if n_distinct != out.size:
                first = int(np.argmax(np.diff(np.sort(out)) == 0))
                ctx.violation(sig=f"large-batch:{meth}:same-draw", what=f"{name}: {meth} returned {out.size} elements of which only {n_distinct} are distinct "
                              f"(a continuous law: repeated values mean batch elements shared a key)", found_input=True,
                              case=dict(unit="large-batch", dist=name, method=meth, sample_shape=list(ss), cond_batch=None if c is None else list(c.shape),
                                        key=np.asarray(key).tolist()), unit=uo.name, expected=out.size, observed=n_distinct,
                              broken="oracle (one key per output element) / C06_keys_never_shared")


def empty_batch_oracle(ctx, uo):
    """log_prob with a zero-size batch axis on x and / or the condition (an empty batch, e.g. after filtering data): the result shape is
    np.broadcast_shapes(x batch, condition batch) like for any other batch.  Only log_prob (sampling with a zero-size shape raises on the
    unchanged tree and is outside the statement).  (Seeded change C06f returned early for empty x without broadcasting the condition.)"""
    import jax.numpy as jnp
    import jax.random as jr
    from flowjax.bijections import AdditiveCondition
    from flowjax.distributions import Normal, StandardNormal, Transformed
    from flowjax.flows import coupling_flow

    flow = coupling_flow(jr.PRNGKey(int(ctx.rng.integers(0, 2**31))), base_dist=StandardNormal((3,)), cond_dim=2, flow_layers=1, nn_width=4)
    scal = Transformed(Normal(), AdditiveCondition(lambda c: c.sum(), (), (2,)))
    for name, d, ev in (("coupling_flow(dim 3, cond_dim 2)", flow, (3,)), ("Transformed(Normal(), AdditiveCondition) scalar event", scal, ())):
        for xb, cb in (((0,), ()), ((0,), (0,)), ((0,), (4, 1)), ((2, 0), (1,)), ((0, 1), (5,)), ((3,), (0, 1)), ((0,), (1,)), ((1, 0), (4, 1, 1))):
            x = jnp.zeros((*xb, *ev))
            c = jnp.ones((*cb, 2))
            expected = tuple(np.broadcast_shapes(xb, cb))
            uo.count(("empty-batch", name, xb, cb), nontrivial=True, tag="empty-batch")
            try:
                got = tuple(np.shape(d.log_prob(x, c)))
            except Exception as e:  # noqa: BLE001
                got = f"{type(e).__name__}: {str(e)[:80]}"
            if got != expected:
                ctx.violation(sig="empty-batch:log_prob:shape", what=f"{name}: log_prob with x batch shape {xb} and condition batch shape {cb} returned {got}; NumPy broadcasting gives {expected}",
                              case=dict(unit="empty-batch", dist=name, x_batch=list(xb), cond_batch=list(cb)), found_input=True, unit=uo.name, expected=list(expected), observed=str(got),
                              broken="oracle (batch shapes broadcast like NumPy), zero-size axes")


def large_logprob_oracle(ctx, uo):
    """log_prob on a batch of more than 2**15 (and 2**16) elements whose condition broadcasts along a NON-leading size-one axis: every
    row block equals the same call made row by row (small batches, covered by the other units).  (Seeded change C06g processed large
    batches in chunks and expanded the condition cyclically.)"""
    import jax.numpy as jnp
    import jax.random as jr
    from flowjax.bijections import AdditiveCondition, Affine, Chain
    from flowjax.distributions import Normal, Transformed

    r = ctx.rng
    d = Transformed(Normal(jnp.zeros(2), jnp.asarray([1.0, 0.5])), Chain([AdditiveCondition(lambda c: jnp.stack([c.sum(), c[0] - c[1]]), (2,), (2,)), Affine(jnp.ones(2), jnp.asarray([2.0, 0.7]))]))
    for xb, cb in (((190, 180), (190, 1)), ((300, 230), (1, 230)), ((40, 30, 35), (40, 1, 35)), ((260, 260), (260, 260))):
        X = r.normal(0, 1.5, (*xb, 2))
        C = r.normal(0, 1.0, (*cb, 2))
        full = np.asarray(d.log_prob(jnp.asarray(X), jnp.asarray(C)), dtype=float)
        exp_shape = tuple(np.broadcast_shapes(xb, cb))
        uo.count(("large-logprob", xb, cb), nontrivial=True, tag="large-logprob")
        err = None
        if full.shape != exp_shape:
            err = f"returned shape {full.shape}, NumPy broadcasting gives {exp_shape}"
        else:
            Cb = np.broadcast_to(C, (*exp_shape, 2))
            rows = sorted({int(v) for v in r.integers(0, xb[0], size=6)} | {0, xb[0] - 1})
            for i in rows:
                part = np.asarray(d.log_prob(jnp.asarray(X[i]), jnp.asarray(Cb[i])), dtype=float)
                if not np.allclose(part, full[i], rtol=1e-12, atol=1e-12):
                    j = np.unravel_index(int(np.argmax(np.abs(part - full[i]))), part.shape)
                    err = f"element {(i, *map(int, j))}: {full[i][j]!r} in the large call, {part[j]!r} when row {i} is evaluated alone"
                    break
        if err:
            ctx.violation(sig="large-logprob:pairing", what=f"log_prob with x batch {xb} and condition batch {cb} ({int(np.prod(exp_shape))} elements): {err}",
                          case=dict(unit="large-logprob", x_batch=list(xb), cond_batch=list(cb)), found_input=True, unit=uo.name, expected="every element equals the unbatched call on its slice",
                          observed=err, broken="oracle: batched element == unbatched call (batches above 2**15 elements)")


def deep_condition_sampling_oracle(ctx, uo):
    """sample / sample_and_log_prob with a condition that has THREE or four leading batch axes (and a sample_shape on top): one independent
    draw per output element.  With an additive condition the base noise is the sample minus the shift, so repeated noise is visible as
    repeated values.  (Seeded change C06i sized the key array from the last two batch axes of the condition only.)"""
    import jax.numpy as jnp
    import jax.random as jr
    from flowjax.bijections import AdditiveCondition
    from flowjax.distributions import Normal, Transformed

    d = Transformed(Normal(jnp.zeros(2)), AdditiveCondition(lambda c: jnp.stack([c.sum(), c[0]]), (2,), (2,)))
    r = ctx.rng
    for cb, ss in (((3, 4, 5), ()), ((2, 3, 2, 2), ()), ((3, 2, 4), (2,)), ((2, 1, 3), (3, 2))):
        C = r.normal(0, 1, (*cb, 2))
        key = jr.PRNGKey(int(r.integers(0, 2**31 - 1)))
        for meth in ("sample", "sample_and_log_prob"):
            out = d.sample(key, ss, condition=jnp.asarray(C)) if meth == "sample" else d.sample_and_log_prob(key, ss, condition=jnp.asarray(C))[0]
            out = np.asarray(out, dtype=float)
            uo.count(("deep-condition", cb, ss, meth), nontrivial=True, tag="deep-condition-sampling")
            exp_shape = (*ss, *cb, 2)
            err = None
            if out.shape != exp_shape:
                err = f"shape {out.shape} instead of sample_shape + condition batch + event = {exp_shape}"
            else:
                noise = out - np.stack([C.sum(-1), C[..., 0]], axis=-1)
                nd = len(np.unique(np.round(noise.ravel(), 12)))
                if nd != noise.size:
                    err = f"only {nd} distinct base draws among {noise.size} output coordinates (elements share a key)"
            if err:
                ctx.violation(sig=f"deep-condition:{meth}", what=f"{meth}(key, {ss}, condition batch {cb}): {err}", case=dict(unit="deep-condition", cond_batch=list(cb), sample_shape=list(ss), method=meth),
                              found_input=True, unit=uo.name, expected="one independent draw per element", observed=err, broken="oracle (one key per output element) / C06_keys_never_shared")


def deep_batch_oracle(ctx, uo):
    """Batch ranks 4 and 5 with a condition batch that broadcasts through size-one axes and has fewer leading axes than x: element
    I of log_prob equals the unbatched call on (x[I], condition[projected I]) (NumPy rule).  Sampled indices.  (Seeded change C06e.)"""
    import jax.numpy as jnp
    from flowjax.bijections import AdditiveCondition
    from flowjax.distributions import Normal, Transformed

    rng = ctx.rng
    d = Transformed(Normal(jnp.zeros(2), jnp.asarray([0.7, 1.3])), AdditiveCondition(lambda c: jnp.tanh(c[:2]) * 2.0 + c[2], (2,), (3,)))
    for xb, cb in (((2, 3, 4, 5), (4, 1)), ((2, 3, 1, 5), (4, 5)), ((2, 1, 3, 2, 2), (3, 1, 2)), ((3, 2, 2, 2), (2,)), ((2, 2, 2, 3), (1, 1, 1, 1))):
        x = rng.normal(0, 1, xb + (2,))
        c = rng.normal(0, 1, cb + (3,))
        out_shape = np.broadcast_shapes(xb, cb)
        got = np.asarray(d.log_prob(jnp.asarray(x), jnp.asarray(c)), dtype=float)
        uo.count(("deep-batch", xb, cb), nontrivial=True, tag="deep-batch")
        errs = []
        if got.shape != out_shape:
            errs.append(f"shape {got.shape}, NumPy broadcasting gives {out_shape}")
        else:
            xB, cB = np.broadcast_to(x, out_shape + (2,)), np.broadcast_to(c, out_shape + (3,))
            for _ in range(12):
                I = tuple(int(rng.integers(0, n)) for n in out_shape)
                ref = float(d.log_prob(jnp.asarray(xB[I]), jnp.asarray(cB[I])))
                if not abs(got[I] - ref) <= 1e-12 * max(1.0, abs(ref)):
                    errs.append(f"element {I} is {got[I]!r} but the unbatched call on the broadcast slices gives {ref!r}")
                    break
        if errs:
            ctx.violation(sig="deep-batch", what=f"log_prob with x batch {xb} and condition batch {cb}: " + "; ".join(errs), found_input=True,
                          case=dict(unit="deep-batch", x_batch=list(xb), cond_batch=list(cb), seed=int(ctx.seed)), unit=uo.name, broken="oracle: batched element == unbatched call (batch rank >= 4)")


def support_edge_oracle(ctx, uo):
    """Batched == unbatched ALSO where the log-density is -inf (points outside a bounded support) or the input is non-finite:
    element I of the batched call equals the unbatched call on that element, as a CLASS (-inf stays -inf).  (Seeded change C06d
    gave unbatched calls their own clean-up of non-finite values.)"""
    import jax.numpy as jnp
    import flowjax.distributions as D
    from flowjax.bijections import Affine

    dists = [("Uniform", D.Uniform(-1.0, 2.0)), ("Exponential", D.Exponential(1.5)), ("LogNormal", D.LogNormal(0.2, 0.7)),
             ("Uniform[2]", D.Uniform(jnp.asarray([-1.0, 0.0]), jnp.asarray([2.0, 0.5]))),
             ("Transformed(Uniform, Affine)", D.Transformed(D.Uniform(0.0, 1.0), Affine(1.0, 2.0))), ("Normal", D.Normal(0.0, 1.0))]
    pts = [-5.0, -1.0, 0.0, 0.25, 2.0, 2.5, 1e6, -1e-300, float("inf"), float("-inf"), float("nan")]
    for name, d in dists:
        xs = np.array(pts) if d.shape == () else np.stack([np.array(pts), np.array(pts[::-1])], axis=-1)
        batched = np.asarray(d.log_prob(jnp.asarray(xs)), dtype=float)
        for i in range(len(pts)):
            single = float(d.log_prob(jnp.asarray(xs[i])))
            uo.count(("support-edge", name, i), nontrivial=not np.isfinite(batched[i]), tag="support-edge")
            same = (np.isnan(single) and np.isnan(batched[i])) or single == batched[i] or abs(single - batched[i]) <= 1e-12 * max(1.0, abs(single))
            if not same:
                ctx.violation(sig=f"support-edge:{name}", what=f"{name}.log_prob: element {i} of the batched call is {batched[i]!r} but the unbatched call on x = {np.ravel(xs[i]).tolist()} gives {single!r}",
                              case=dict(unit="support-edge", dist=name, x=np.ravel(xs[i]).tolist()), found_input=True, unit=uo.name,
                              expected=float(batched[i]), observed=single, broken="oracle: batched element == unbatched call (also at -inf)")


def run(ctx):
    zoo_seed = int(ctx.seed)
    numpy_unit(ctx)
    zoo = build_zoo(zoo_seed)
    u = ctx.unit("batching-plan", "batched log_prob / sample / sample_and_log_prob of real distributions (Normal, StudentT with array parameters; "
                                  "AdditiveCondition-transformed Normal/StudentT/Laplace for event rank 0-2 x condition rank 0-2; conditional coupling, "
                                  "MAF(RQS), Reshape-wrapped flows; parameters perturbed) vs the unbatched method on the slices and key planned by "
                                  "Model.Vectorize.plan_logprob/plan_sample; batch shapes from the lattice {1,2,3}^r, r<=3 (+ empty batches) with unequal "
                                  "ranks and size-1 axes; malformed stream (non-broadcastable, wrong trailing dims, too few dims, condition=None, empty "
                                  "sample): raises iff model Err; non-trivial = at least two output elements, or a rejection")
    uo = ctx.unit("oracle", "the statement of C06 in plain NumPy on the implementation alone (np.broadcast_shapes/np.broadcast_to + loop over np.ndindex "
                            "calling the unbatched public method; shape law; no repeated draw; same key same result; log-prob of the returned sample); "
                            "non-trivial = at least two output elements")
    ch = changed_anchors()
    if ch:
        ctx.notes.append(f"anchored source differs from the fingerprints the model was written against: {ch}; "
                         + ("quick tier run with the doubled random configuration volume" if ctx.quick else "thorough tier unchanged"))
    else:
        ctx.notes.append("AST fingerprints of the 8 anchored functions (distributions.py, utils.py) match the ones the model was written against")
    cases = gen_cases(ctx, zoo, zoo_seed, boost=2 if (ch and ctx.quick) else 1)
    lines = ctx.model([model_request(zoo[c["dist"]], c) for c in cases])
    stats = {"elements": 0, "bit_identical": 0, "errkind_match": 0, "errkind_other": 0, "unbatched_calls": 0}
    n_extra = 0
    for i, (case, line) in enumerate(zip(cases, lines)):
        d = zoo[case["dist"]]
        sampling = case["method"] != "log_prob"
        # determinism / cross-method oracle clauses cost two more batched calls: low volume for the flows, every 2nd otherwise
        extra = sampling and (i % (4 if ctx.quick else 2) == 0)
        n_extra += extra
        plan, status, outs, dis, errs = run_case(d, case, line, stats, extra)
        nel = int(np.prod(plan["out"], dtype=int)) if "out" in plan else 0
        u.count({k: case[k] for k in ("dist", "method", "x_shape", "c_shape", "ss")} | {"cc": bool(case.get("const_cond"))},
                nontrivial=(nel >= 2 or "err" in plan), tag=case["tag"])
        if well_formed(d, case) is not None:
            uo.count({k: case[k] for k in ("dist", "method", "x_shape", "c_shape", "ss")} | {"cc": bool(case.get("const_cond"))},
                     nontrivial=nel >= 2, tag=case["method"])
        if i % max(1, len(cases) // 10) == 0:
            ctx.sample({"case": {k: v for k, v in case.items() if k != "zoo_seed"}, "model": line[:200], "observed": _summ(status, outs)})
        if dis or errs:
            u.disagreements += bool(dis)
            uo.disagreements += bool(errs)
            report(ctx, u if dis else uo, d, case, plan, status, outs, dis, errs, line)
    tot = max(1, stats["elements"])
    ctx.notes.append(f"batching-plan: {stats['elements']} output elements compared with the unbatched call, {stats['bit_identical']} bit-identical "
                     f"({100.0 * stats['bit_identical'] / tot:.1f}%), the rest within {RTOL} relative; rejections: {stats['errkind_match']} with the error "
                     f"message of the check the model names, {stats['errkind_other']} other; determinism/cross-method oracle clauses on {n_extra} sampling cases")
    ctx.assumptions += [
        "jr.split(key, n) yields pairwise distinct keys (Section hypothesis split_inj of C06_keys_never_shared)",
        "the unbatched _log_prob/_sample of the distributions under test return arrays of the declared shape (jnp.vectorize's output-dimension check is not modelled)",
        "legacy uint32[2] PRNG keys (the signature's (2) core dimension); typed keys are outside the model",
        "empty sample_shape/condition batch (size 0): sample raises (modelled as Err EReshape); the oracle treats it as outside the statement",
    ]
    large_batch_oracle(ctx, uo)
    support_edge_oracle(ctx, uo)
    deep_batch_oracle(ctx, uo)
    empty_batch_oracle(ctx, uo)
    large_logprob_oracle(ctx, uo)
    deep_condition_sampling_oracle(ctx, uo)


def replay(ctx, rep):
    c = rep["case"]
    if "spec" in c or "obligation" in c or "traceback" in c:
        print("not an input replay (spec/obligation): rebuild and re-run the check", c)
        return False
    oracles = {"large-batch": large_batch_oracle, "support-edge": support_edge_oracle, "deep-batch": deep_batch_oracle, "empty-batch": empty_batch_oracle, "large-logprob": large_logprob_oracle, "deep-condition": deep_condition_sampling_oracle}
    if c.get("unit") in oracles:  # model-free oracle units: re-run the unit (same seed) and look for the same signature
        import numpy as _np

        ctx.rng = _np.random.default_rng(_np.random.PCG64(int(rep.get("seed", 0))))
        n0 = len(ctx.violations)
        oracles[c["unit"]](ctx, ctx.unit("oracle", ""))
        hits = [v for v in ctx.violations[n0:] if v["sig"] == rep.get("sig")]
        for v in hits:
            print("still failing:", v["what"][:300])
        return not hits
    zoo = build_zoo(int(c["zoo_seed"]), only=c["dist"])
    d = zoo[c["dist"]]
    line = ctx.model([model_request(d, c)])[0]
    stats = {"elements": 0, "bit_identical": 0, "errkind_match": 0, "errkind_other": 0}
    plan, status, outs, dis, errs = run_case(d, c, line, stats, True)
    print("model:", line[:300])
    print("observed:", json.dumps(_summ(status, outs), default=str)[:400])
    print("model-vs-implementation:", dis or "agree")
    print("oracle:", errs or "holds")
    return not dis and not errs
