"""C17 -- loss functions compute their defining estimators.

Tie.  The three loss classes of flowjax/train/losses.py are called on real distributions (Normal, masked
autoregressive and coupling flows, conditional and unconditional, parameters perturbed away from
initialisation, wrappers left in place) and compared with the extracted Coq model (Model/Losses.v, group
`loss`) which is fed with the distribution's PUBLIC log_prob / sample / sample_and_log_prob outputs at the
same key.  `_get_contrastive_idxs` is compared exactly with the discrete index model, whose `choice`
primitive is supplied with the replayed results of jr.choice at the replayed keys.  Gradients: eqx.filter_grad
of the ELBO with stick-the-landing must be the path derivative (computed independently: vjp of `sample` applied
to the x-gradient of log q - target, no stop_gradient anywhere), without it path + score; the same ELBO model
run in dual-number arithmetic reproduces <grad, v> for a random direction v.

Oracle (independent of the model): the estimator formulas of the property text in plain NumPy on the public
outputs, and the index clauses (n distinct other rows).
"""

import json

import numpy as np

from harness.common import fhex, fparse, hexlist

PROPERTY = "C17"
GROUPS = ["loss"]
MANIFEST = {
    "design_ref": "DESIGN.md 4.17",
    "technique": "Coq proofs over R (lists of any length) about an executable Gallina model of the three losses and of the contrastive "
                 "index sampler (closed, every admissible PRNG behaviour) + executed correspondence of the extracted model with the real "
                 "loss classes (values, indices, gradients)",
    "text": "Theorems: ml_loss = -(sum lps)/n; each ELBO branch is the mean over the split keys of log q(x) - target(x); stick-the-landing "
            "has the same value (given sample_and_log_prob consistent with sample+log_prob); jax's max-shifted logsumexp = ln sum exp; every "
            "contrastive row is the softmax cross-entropy -ln(e^p/(e^p + sum_j e^c_j)), the batch loss the mean over exactly the B rows, never "
            "negative; for EVERY batch size B, n < B, key and every behaviour of jr.split / jr.choice(replace=False) allowed by their hypotheses "
            "the index rows are n distinct elements of {0..B-1} minus {i} (closed under the global context). PARTIAL: the stick-the-landing "
            "gradient statement is proved for the same elbo_loss run in forward-mode dual arithmetic along one scalar parameter direction with "
            "scalar samples (tangent = path term only; plain = path + score; both identified with Coquelicot derivatives); that JAX's AD is "
            "this semantics is not proved -- the tie compares eqx.filter_grad with independently computed path / score gradients instead. "
            "The model is tied to /repo on every run by calling the real MaximumLikelihoodLoss / ElboLoss / ContrastiveLoss / "
            "_get_contrastive_idxs and requiring agreement (1e-10 relative on values, exact on indices, 1e-7 relative on gradients).",
    "note": "Trusted: Coq kernel; extraction (ExtrOcamlBasic); OCaml driver + float NumOps; harness. The distributions are NOT modelled here: "
            "their public methods enter the model as functions (tables of their outputs). Assumed about JAX: jr.split(k,n) has n entries; "
            "jr.choice(replace=False) returns n distinct elements of its argument (checked on every replayed table). Exact over R; float "
            "rounding not modelled.",
}

VTOL = 1e-10   # values: 1e-10 * max(1, |v|)
GTOL = 1e-7    # gradients: relative to max(1, max |entry|)
_S = {}


# ------------------------------------------------------------------------------------------------
# real objects
# ------------------------------------------------------------------------------------------------
def _jx():
    if _S:
        return _S
    import equinox as eqx
    import jax
    import jax.numpy as jnp
    import jax.random as jr
    from flowjax import wrappers
    from flowjax.distributions import Normal
    from flowjax.flows import coupling_flow, masked_autoregressive_flow
    from flowjax.train import losses as L

    _S.update(eqx=eqx, jax=jax, jnp=jnp, jr=jr, wrappers=wrappers, Normal=Normal, coupling_flow=coupling_flow,
              maf=masked_autoregressive_flow, L=L, cache={})
    return _S


def part(dist):
    s = _jx()
    return s["eqx"].partition(dist, s["eqx"].is_inexact_array, is_leaf=lambda l: isinstance(l, s["wrappers"].NonTrainable))


UNCOND = ["Normal2", "MAF2", "MAF2-frozen-base", "Coupling3"]
COND = ["cMAF2", "cCoupling3"]
DIMS = {"Normal2": (2, None), "MAF2": (2, None), "MAF2-frozen-base": (2, None), "Coupling3": (3, None), "cMAF2": (2, 2), "cCoupling3": (3, 2),
        "MAF2-unwrapped": (2, None), "cMAF2-unwrapped": (2, 2)}


def build_dist(name, seed, sd):
    """Deterministic in (name, seed, sd): a distribution whose trainable arrays are init + N(0, sd^2)."""
    s = _jx()
    jnp, jr, eqx = s["jnp"], s["jr"], s["eqx"]
    base = name.replace("-unwrapped", "")

    def make():
        k = jr.PRNGKey(1000 + seed % 3)     # three different initialisations per architecture (construction is slow)
        if base == "Normal2":
            return s["Normal"](jnp.array([0.3, -1.2]), jnp.array([0.7, 2.1]))
        if base in ("MAF2", "MAF2-frozen-base"):
            d = s["maf"](k, base_dist=s["Normal"](jnp.zeros(2)), flow_layers=2, nn_width=4, invert=False)
            if base == "MAF2-frozen-base":
                d = eqx.tree_at(lambda f: f.base_dist, d, replace_fn=s["wrappers"].non_trainable)
            return d
        if base == "Coupling3":
            return s["coupling_flow"](k, base_dist=s["Normal"](jnp.zeros(3)), flow_layers=2, nn_width=4)
        if base == "cMAF2":
            return s["maf"](k, base_dist=s["Normal"](jnp.zeros(2)), cond_dim=2, flow_layers=2, nn_width=4)
        if base == "cCoupling3":
            return s["coupling_flow"](k, base_dist=s["Normal"](jnp.zeros(3)), cond_dim=2, flow_layers=1, nn_width=4)
        raise KeyError(name)
    d = cached(("base", base, seed % 3), make)
    p, st = part(d)
    r = np.random.default_rng(np.random.PCG64(77 + seed))
    p = s["jax"].tree_util.tree_map(lambda l: l + sd * jnp.asarray(r.standard_normal(l.shape)), p)
    d = eqx.combine(p, st)
    if name.endswith("-unwrapped"):
        d = s["wrappers"].unwrap(d)
    return d


TARGETS = {}


def target(name):
    s = _jx()
    jnp = s["jnp"]
    if not TARGETS:
        TARGETS["quad"] = lambda x: -0.5 * jnp.sum((x - 1.0) ** 2)
        TARGETS["wiggle"] = lambda x: -0.25 * jnp.sum(x ** 2) + jnp.sum(jnp.sin(2.0 * x)) - 0.1 * x[0] * x[-1]
    return TARGETS[name]


def flat(tree):
    s = _jx()
    ls = [np.asarray(l, dtype=float).ravel() for l in s["jax"].tree_util.tree_leaves(tree)]
    return np.concatenate(ls) if ls else np.zeros(0)


_MAXD = {"value": 0.0, "grad": 0.0}   # largest scaled differences seen on accepted comparisons (calibration record, goes to evidence notes)


def close(a, b, tol=VTOL):
    a, b = float(a), float(b)
    if np.isnan(a) or np.isnan(b):
        return np.isnan(a) and np.isnan(b)
    if np.isinf(a) or np.isinf(b):
        return a == b
    d = abs(a - b) / max(1.0, abs(a), abs(b))
    if d <= tol:
        _MAXD["value"] = max(_MAXD["value"], d)
    return d <= tol


def vclose(a, b, tol=GTOL):
    a, b = np.asarray(a, float), np.asarray(b, float)
    if a.shape != b.shape or not (np.all(np.isfinite(a)) and np.all(np.isfinite(b))):
        return False
    sc = max(1.0, float(np.max(np.abs(a), initial=0.0)), float(np.max(np.abs(b), initial=0.0)))
    d = float(np.max(np.abs(a - b), initial=0.0)) / sc
    if d <= tol:
        _MAXD["grad"] = max(_MAXD["grad"], d)
    return d <= tol


def _free_compiled(prefixes=None):
    """Drop compiled executables (XLA's CPU JIT runs out of code-section memory after some hundred compilations:
    'LLVM ERROR: Unable to allocate section memory')."""
    s = _jx()
    c = s["cache"]
    for k in [k for k in c if prefixes is None or (isinstance(k, tuple) and k[0] in prefixes)]:
        if not (isinstance(k, tuple) and k[0] == "base"):
            del c[k]
    s["jax"].clear_caches()
    s["eqx"].clear_caches()


def cached(key, make):
    c = _jx()["cache"]
    if key not in c:
        c[key] = make()
    return c[key]


# ------------------------------------------------------------------------------------------------
# the property's own statement in NumPy (search oracle; never uses the model)
# ------------------------------------------------------------------------------------------------
def np_ml(lps):
    return -float(np.mean(np.asarray(lps, float)))


def np_elbo(lq, t):
    return float(np.mean(np.asarray(lq, float) - np.asarray(t, float)))


def np_contrastive(LQ, PR, idxs):
    """mean_i -ln( e^{p_i} / (e^{p_i} + sum_j e^{c_ij}) ), evaluated in log space with NumPy's logaddexp (the literal
    quotient underflows to 0/0 for logits below -745)."""
    LQ, PR = np.asarray(LQ, float), np.asarray(PR, float)
    B = LQ.shape[0]
    rows = []
    for i in range(B):
        p = LQ[i, i] - PR[i]
        cs = np.array([LQ[i, j] - PR[j] for j in idxs[i]])
        rows.append(float(-(p - np.logaddexp.reduce(np.concatenate([[p], cs])))))
    return float(np.mean(rows)), rows


def idx_clauses(idxs, B, n):
    """The index clauses of the property on an observed index array; list of failures (each starts with a stable kind word)."""
    errs = []
    a = np.asarray(idxs)
    if a.shape != (B, n):
        return [f"count: {a.shape[-1] if a.ndim == 2 else a.shape} indices per row instead of n_contrastive = {n} (shape {a.shape}, expected ({B}, {n}))"]
    for i, row in enumerate(a.tolist()):
        if i in row:
            errs.append(f"self: row {i} contains itself: {row}")
        if len(set(row)) != n:
            errs.append(f"repeated: row {i} has repeated rows of the batch: {row}")
        if any(not (0 <= v < B) for v in row):
            errs.append(f"range: row {i} leaves the batch 0..{B - 1}: {row}")
    errs.sort(key=lambda e: e.split(":")[0])
    return errs


# ------------------------------------------------------------------------------------------------
# units
# ------------------------------------------------------------------------------------------------
def _data(r, B, dim, cdim, far=False):
    x = r.standard_normal((B, dim)) * (40.0 if far else 1.5)
    c = None if cdim is None else r.standard_normal((B, cdim)) * 1.2
    return x, c


def _ml_obs(name, seed, sd, x, c):
    """(loss value, public log_prob of the wrapped dist, loss on the pre-unwrapped dist)"""
    s = _jx()
    jnp, jr, eqx = s["jnp"], s["jr"], s["eqx"]
    d = build_dist(name, seed, sd)
    p, st = part(d)
    loss = cached("mlloss", lambda: s["L"].MaximumLikelihoodLoss())
    xx = jnp.asarray(x)
    cc = None if c is None else jnp.asarray(c)
    lp_fn = cached(("lp", name), lambda: eqx.filter_jit(lambda dd, a, b: dd.log_prob(a, b)))
    v = float(loss(p, st, xx, cc, jr.PRNGKey(0)))          # key is ignored by this loss
    v2 = float(loss(p, st, xx, cc)) if x.shape[0] == 2 else v   # ... and optional (one more compilation: only for one batch size)
    lps = np.asarray(lp_fn(d, xx, cc), float)
    return v, v2, lps


def unit_ml(ctx):
    s = _jx()
    r = ctx.rng
    u = ctx.unit("ml-loss", "MaximumLikelihoodLoss(params, static, x, condition) on real distributions (wrappers in place) vs Model.ml_loss "
                            "fed with the public log_prob of the same rows; non-trivial = batch >= 2 and parameters perturbed")
    Bs = [1, 2, 7] if ctx.quick else [1, 2, 3, 7, 16, 33]
    names = ["Normal2", "MAF2-frozen-base", "cMAF2", "cCoupling3"] if ctx.quick else UNCOND + COND
    reps = 2 if ctx.quick else 10
    cases, reqs = [], []
    for name in names:
        dim, cdim = DIMS[name]
        for B in Bs:
            for rep in range(reps):
                seed, sd = int(r.integers(0, 10 ** 6)), float([0.0, 0.4, 0.8][rep % 3] if rep else 0.5)
                far = (rep == reps - 1 and B == Bs[-1])
                x, c = _data(r, B, dim, cdim, far)
                v, v2, lps = _ml_obs(name, seed, sd, x, c)
                cj = dict(unit="ml-loss", dist=name, seed=seed, sd=sd, x=x.tolist(), condition=None if c is None else c.tolist())
                cases.append((cj, v, v2, lps, B, sd, far))
                reqs.append("c17.ml " + hexlist(lps))
    out = ctx.model(reqs)
    for (cj, v, v2, lps, B, sd, far), m in zip(cases, out):
        u.count(cj, nontrivial=(B >= 2 and sd > 0), tag=f"{cj['dist']}/B={B}{'/far' if far else ''}")
        mv, ov = fparse(m), np_ml(lps)
        if len(u.hashes) % 17 == 1:
            ctx.sample(dict(case={k: cj[k] for k in ("unit", "dist", "seed", "sd")}, batch=B, loss=v, model=mv, numpy=ov))
        bad_oracle = not close(v, ov) or not close(v2, ov)
        if bad_oracle or not close(v, mv):
            u.disagreements += 1
            ctx.violation(sig=f"MaximumLikelihoodLoss:{'cond' if cj['condition'] is not None else 'uncond'}:value",
                          what=f"MaximumLikelihoodLoss = {v!r} but -(mean log_prob) = {ov!r} (model {mv!r}) on {cj['dist']} batch {B}",
                          case=cj, found_input=bad_oracle, unit=u.name, expected=ov, observed=v,
                          broken="correspondence ml-loss / theorem C17_ml_loss_spec", reproducer="cd /verif && ./check C17 --replay <this file>")
    # the same loss on a distribution unwrapped beforehand (wrappers must be applied exactly once either way)
    for name in (["MAF2", "cMAF2"] if ctx.quick else ["MAF2", "cMAF2"] * 3):
        dim, cdim = DIMS[name]
        seed = int(r.integers(0, 10 ** 6))
        x, c = _data(r, 5, dim, cdim)
        v, _, lps = _ml_obs(name, seed, 0.6, x, c)
        vu, _, lpsu = _ml_obs(name + "-unwrapped", seed, 0.6, x, c)
        cj = dict(unit="ml-loss", dist=name, seed=seed, sd=0.6, x=x.tolist(), condition=None if c is None else c.tolist(), also_unwrapped=True)
        u.count(cj, nontrivial=True, tag=f"{name}/wrapped-vs-unwrapped")
        if not close(v, vu, 1e-12):
            u.disagreements += 1
            ctx.violation(sig="MaximumLikelihoodLoss:wrapped-vs-unwrapped", what=f"loss on the wrapped distribution {v!r} != on the unwrapped one {vu!r}",
                          case=cj, found_input=True, unit=u.name, expected=vu, observed=v, broken="correspondence ml-loss (unwrap)")
        elif not close(v, np_ml(lpsu)):
            u.disagreements += 1
            ctx.violation(sig=f"MaximumLikelihoodLoss:{'cond' if c is not None else 'uncond'}:value",
                          what=f"MaximumLikelihoodLoss = {v!r} but -(mean log_prob of the unwrapped distribution) = {np_ml(lpsu)!r} on {name} batch 5",
                          case=cj, found_input=True, unit=u.name, expected=np_ml(lpsu), observed=v, broken="correspondence ml-loss / theorem C17_ml_loss_spec")


def _elbo_ref(name, tname, n):
    """One jitted function per (distribution structure, target, n): every reference quantity from PUBLIC methods."""
    s = _jx()
    jax, jnp, eqx = s["jax"], s["jnp"], s["eqx"]
    tgt = target(tname)

    def make():
        @eqx.filter_jit
        def ref(params, static, key, v):
            dist = eqx.combine(params, static)
            x_slp, lq_slp = dist.sample_and_log_prob(key, (n,))
            x_s = dist.sample(key, (n,))
            lq_s = dist.log_prob(x_s)
            t_s, t_slp = jax.vmap(tgt)(x_s), jax.vmap(tgt)(x_slp)
            # path derivative, no stop_gradient anywhere: (d sample / d params)^T applied to grad_x mean(log q - target)
            sample_fn = lambda pp: eqx.combine(pp, static).sample(key, (n,))
            x, vjp = jax.vjp(sample_fn, params)
            gx = jax.grad(lambda xx: (dist.log_prob(xx) - jax.vmap(tgt)(xx)).mean())(x)
            path = vjp(gx)[0]
            # score term: d/d params of mean log q_params(x) at FIXED x
            score = jax.grad(lambda pp: eqx.combine(pp, static).log_prob(x).mean())(params)
            # per-sample directional derivatives along v (inputs of the dual-number model)
            x2, dx = jax.jvp(sample_fn, (params,), (v,))
            lq, pathq = jax.jvp(dist.log_prob, (x2,), (dx,))
            _, sc = jax.jvp(lambda pp: eqx.combine(pp, static).log_prob(x2), (params,), (v,))
            t, patht = jax.jvp(jax.vmap(tgt), (x2,), (dx,))
            return dict(x_s=x_s, lq_s=lq_s, t_s=t_s, x_slp=x_slp, lq_slp=lq_slp, t_slp=t_slp, path=path, score=score,
                        lq=lq, pathq=pathq, sc=sc, t=t, patht=patht)
        return ref
    return cached(("elboref", name, tname, n), make)


def _elbo_loss(tname, n, stl):
    s = _jx()
    eqx = s["eqx"]

    def make():
        L = s["L"].ElboLoss(target(tname), n, stick_the_landing=stl)
        return L, eqx.filter_jit(eqx.filter_value_and_grad(L))
    return cached(("elboloss", tname, n, stl), make)


def _elbo_obs(name, seed, sd, tname, n, keyint, vseed):
    s = _jx()
    jax, jnp, jr = s["jax"], s["jnp"], s["jr"]
    d = build_dist(name, seed, sd)
    p, st = part(d)
    key = jr.PRNGKey(keyint)
    rv = np.random.default_rng(np.random.PCG64(vseed))
    v = jax.tree_util.tree_map(lambda l: jnp.asarray(rv.standard_normal(l.shape)), p)
    ref = _elbo_ref(name, tname, n)(p, st, key, v)
    obs = {}
    for stl in (False, True):
        L, vg = _elbo_loss(tname, n, stl)
        val = float(L(p, st, key))
        val2, g = vg(p, st, key)
        obs[stl] = (val, float(val2), flat(g))
    return ref, obs, flat(v)


def unit_elbo(ctx):
    r = ctx.rng
    u = ctx.unit("elbo-value", "ElboLoss(params, static, key) with and without stick_the_landing vs Model.elbo_loss fed with the public "
                               "sample / log_prob / sample_and_log_prob outputs at the same key; non-trivial = num_samples >= 2 and perturbed parameters")
    g = ctx.unit("elbo-grad", "eqx.filter_grad of ElboLoss: stick_the_landing == path derivative (vjp of sample applied to grad_x(log q - target), "
                              "computed without stop_gradient), plain == path + score; and the dual-number run of Model.elbo_loss == <grad, v>; "
                              "non-trivial = the score term is not ~0 (max entry > 1e-3)")
    combos = ([("Normal2", "quad", 1), ("Normal2", "wiggle", 4), ("MAF2", "quad", 3), ("MAF2-frozen-base", "wiggle", 4)] if ctx.quick else
              [(d, t, n) for d in UNCOND for t in ("quad", "wiggle") for n in (1, 3, 8)])
    reps = 3 if ctx.quick else 10
    cases, reqs = [], []
    for name, tname, n in combos:
        for rep in range(reps):
            seed, sd = int(r.integers(0, 10 ** 6)), float([0.5, 0.9, 0.0, 0.3][rep % 4])
            keyint, vseed = int(r.integers(0, 2 ** 31 - 1)), int(r.integers(0, 10 ** 6))
            cj = dict(unit="elbo", dist=name, seed=seed, sd=sd, target=tname, num_samples=n, key=keyint, vseed=vseed)
            ref, obs, v = _elbo_obs(name, seed, sd, tname, n, keyint, vseed)
            cases.append((cj, ref, obs, v))
            a = {k: np.asarray(ref[k], float) for k in ("lq_s", "t_s", "lq_slp", "t_slp", "lq", "sc", "pathq", "t", "patht")}
            for stl in (0, 1):
                reqs.append(f"c17.elbo {stl} {n} {hexlist(a['lq_s'])} {hexlist(a['t_s'])} {hexlist(a['lq_slp'])} {hexlist(a['t_slp'])}")
                reqs.append(f"c17.elbod {stl} {n} {hexlist(a['lq'])} {hexlist(a['sc'])} {hexlist(a['pathq'])} {hexlist(a['t'])} {hexlist(a['patht'])}")
        _free_compiled(("elboref", "elboloss"))
    out = ctx.model(reqs)
    for ci, (cj, ref, obs, v) in enumerate(cases):
        n, sd = cj["num_samples"], cj["sd"]
        m_val = {0: fparse(out[4 * ci]), 1: fparse(out[4 * ci + 2])}
        m_dual = {0: [fparse(t) for t in out[4 * ci + 1].split()], 1: [fparse(t) for t in out[4 * ci + 3].split()]}
        errs = _elbo_judge(ref, obs, v, m_val, m_dual)
        u.count(cj, nontrivial=(n >= 2 and sd > 0), tag=f"{cj['dist']}/{cj['target']}/n={n}")
        score_max = float(np.max(np.abs(flat(ref["score"])), initial=0.0))
        g.count(cj, nontrivial=score_max > 1e-3, tag=f"{cj['dist']}/{cj['target']}/n={n}")
        if len(u.hashes) % 7 == 1:
            ctx.sample(dict(case=cj, loss_plain=obs[False][0], loss_stl=obs[True][0], model_plain=m_val[0], model_stl=m_val[1],
                            numpy=np_elbo(ref["lq_slp"], ref["t_slp"]), score_term_max=score_max,
                            dir_derivative=dict(stl_impl=float(obs[True][2] @ v), stl_model=m_dual[1][1], plain_impl=float(obs[False][2] @ v), plain_model=m_dual[0][1])))
        if ci % reps == 0 and n <= 5:
            # the model draws one point per key of jr.split(key, n): replay that with the one-key private methods
            bad = _sample_keys_check(cj, ref)
            if bad:
                ctx.violation(sig="sample-keys:assumption", what=bad, case=cj, found_input=False, unit=u.name, broken="model assumption: sample(key, (n,)) = one draw per key of jr.split(key, n)")
        for e in errs:
            unit = g if e["kind"].startswith("grad") else u
            unit.disagreements += 1
            ctx.violation(sig=f"ElboLoss:{e['kind']}", what=e["what"] + f" on {cj['dist']} target {cj['target']} num_samples {n} key {cj['key']}",
                          case=cj, found_input=e["oracle"], unit=unit.name, expected=e.get("expected"), observed=e.get("observed"),
                          broken=e["broken"], reproducer="cd /verif && ./check C17 --replay <this file>")


def _sample_keys_check(cj, ref):
    """dist.sample(key, (n,))[i] == dist._sample(jr.split(key, n)[i]) (and the same for sample_and_log_prob), exactly."""
    s = _jx()
    jr = s["jr"]
    d = s["wrappers"].unwrap(build_dist(cj["dist"], cj["seed"], cj["sd"]))
    keys = jr.split(jr.PRNGKey(cj["key"]), cj["num_samples"])
    for i in range(cj["num_samples"]):
        xi = np.asarray(d._sample(keys[i]))
        xi2, lpi = d._sample_and_log_prob(keys[i])
        if not np.allclose(xi, np.asarray(ref["x_s"][i]), rtol=1e-12, atol=1e-12) or not np.allclose(np.asarray(xi2), np.asarray(ref["x_slp"][i]), rtol=1e-12, atol=1e-12) \
                or not close(float(lpi), float(ref["lq_slp"][i])):
            return f"sample(key, ({cj['num_samples']},))[{i}] is not the draw at jr.split(key, n)[{i}]"
    return None


def _elbo_judge(ref, obs, v, m_val, m_dual):
    """All comparisons of one ELBO case.  oracle=True marks failures of the property's own statement on the implementation."""
    errs = []
    o_plain = np_elbo(ref["lq_slp"], ref["t_slp"])       # the estimator with sample_and_log_prob at the given key
    o_stl = np_elbo(ref["lq_s"], ref["t_s"])             # ... with sample + log_prob
    for stl, ov in ((False, o_plain), (True, o_stl)):
        val, val2, _ = obs[stl]
        tag = "stl" if stl else "plain"
        if not close(val, ov) or not close(val2, ov):
            errs.append(dict(kind=f"value:{tag}", oracle=True, expected=ov, observed=val, broken="correspondence elbo-value / theorem C17_elbo_spec",
                             what=f"ElboLoss(stick_the_landing={stl}) = {val!r} but mean(log q(x) - target(x)) over the samples of the given key = {ov!r}"))
        elif not close(val, m_val[int(stl)]):
            errs.append(dict(kind=f"value:{tag}:model", oracle=False, expected=m_val[int(stl)], observed=val, broken="correspondence elbo-value",
                             what=f"ElboLoss(stick_the_landing={stl}) = {val!r}, model {m_val[int(stl)]!r}"))
    if not close(obs[True][0], obs[False][0]):
        errs.append(dict(kind="value:stl-vs-plain", oracle=True, expected=obs[False][0], observed=obs[True][0], broken="theorem C17_elbo_stl_same_value (hypotheses) / elbo-value",
                         what=f"stick_the_landing changes the VALUE: {obs[True][0]!r} vs {obs[False][0]!r}"))
    path, score = flat(ref["path"]), flat(ref["score"])
    g_stl, g_plain = obs[True][2], obs[False][2]
    if not vclose(g_stl, path):
        has_score = vclose(g_stl, path + score)
        errs.append(dict(kind="grad:stl", oracle=True, expected=path.tolist(), observed=g_stl.tolist(), broken="correspondence elbo-grad / theorem C17_elbo_stl_no_score_term_partial",
                         what="filter_grad of the stick-the-landing ELBO is not the path derivative"
                              + (" (it equals path + score: stop_gradient has no effect)" if has_score else f" (max abs difference {np.max(np.abs(g_stl - path)):.3e})")))
    if not vclose(g_plain, path + score):
        errs.append(dict(kind="grad:plain", oracle=True, expected=(path + score).tolist(), observed=g_plain.tolist(), broken="correspondence elbo-grad",
                         what=f"filter_grad of the plain ELBO is not path + score (max abs difference {np.max(np.abs(g_plain - path - score)):.3e})"))
    # dual-number model: value and directional derivative along v
    for stl in (False, True):
        if any(e["oracle"] and e["kind"].split(":")[-1] in ("stl" if stl else "plain", "stl-vs-plain") for e in errs):
            continue      # already reported with a failing input; the model mismatch adds nothing
        mv, mt = m_dual[int(stl)]
        it = float(obs[stl][2] @ v)
        sc = max(1.0, abs(it), float(np.max(np.abs(obs[stl][2]), initial=0.0)) * float(np.max(np.abs(v), initial=0.0)))
        if not close(obs[stl][0], mv) or not (np.isfinite(mt) and abs(it - mt) <= GTOL * sc):
            errs.append(dict(kind=f"grad:dual:{'stl' if stl else 'plain'}", oracle=False, expected=[mv, mt], observed=[obs[stl][0], it], broken="correspondence elbo-grad (dual-number run of Model.elbo_loss)",
                             what=f"dual-number model (value, tangent) = ({mv!r}, {mt!r}) but implementation value {obs[stl][0]!r}, <grad, v> = {it!r} (stick_the_landing={stl})"))
    return errs


def _idx_fns():
    s = _jx()
    jax, jr = s["jax"], s["jr"]

    def make():
        from functools import partial

        @partial(jax.jit, static_argnums=(1, 2))
        def both(key, B, n):
            # the PRNG calls of _get_contrastive_idxs replayed: keys = split(key, B); row i draws
            # choice(keys[i], <B-1 candidates>, (n,), replace=False) = candidates[choice(keys[i], B-1, (n,), replace=False)]
            keys = jr.split(key, B)
            pos = jax.vmap(lambda k: jr.choice(k, B - 1, (n,), replace=False))(keys)
            return s["L"]._get_contrastive_idxs(key, B, n), pos
        return both
    return cached("idxfns", make)


def _pos_ok(pos, B, n):
    a = np.asarray(pos)
    return a.shape == (B, n) and all(len(set(row)) == n and all(0 <= v < B - 1 for v in row) for row in a.tolist())


def _rows(a):
    return ";".join(",".join(str(int(v)) for v in row) for row in np.asarray(a).tolist())


def unit_idxs(ctx):
    s = _jx()
    jr = s["jr"]
    r = ctx.rng
    u = ctx.unit("contrastive-idxs", "_get_contrastive_idxs(key, B, n) for ALL B in 2..8 (thorough: 2..12), n in 1..B-1, several keys: exact equality with "
                                     "Model.get_contrastive_idxs run with the replayed jr.choice results, and the index clauses; non-trivial = n < B-1 or B >= 3 (the row is not forced)")
    both = _idx_fns()
    Bmax, nkeys = (8, 4) if ctx.quick else (12, 40)
    cases, reqs = [], []
    for B in range(2, Bmax + 1):
        for n in range(1, B):
            for _ in range(nkeys):
                keyint = int(r.integers(0, 2 ** 31 - 1))
                key = jr.PRNGKey(keyint)
                idx, pos = (np.asarray(a) for a in both(key, B, n))
                cases.append((dict(unit="contrastive-idxs", key=keyint, batch_size=B, n_contrastive=n), idx, pos))
                reqs.append(f"c17.idx {B} {n} {_rows(pos)}")
    out = ctx.model(reqs)
    for (cj, idx, pos), m in zip(cases, out):
        B, n = cj["batch_size"], cj["n_contrastive"]
        u.count(cj, nontrivial=(B >= 3), tag=f"B={B}")
        errs = idx_clauses(idx, B, n)
        got = _rows(idx)
        if len(u.hashes) % 40 == 1:
            ctx.sample(dict(case=cj, idxs=idx.tolist(), model=m))
        if not _pos_ok(pos, B, n):
            ctx.violation(sig="jr.choice:assumption", what=f"jr.choice(replace=False) returned a non-admissible draw {pos.tolist()} (hypothesis choice_ok fails)",
                          case=cj, found_input=False, unit=u.name, broken="hypothesis choice_ok")
        if errs or got != m:
            u.disagreements += got != m
            ctx.violation(sig=f"_get_contrastive_idxs:{errs[0].split(':')[0] if errs else 'model-mismatch'}",
                          what=(f"_get_contrastive_idxs(PRNGKey({cj['key']}), {B}, {n}) = {idx.tolist()}: " + "; ".join(errs[:3])) if errs else
                               f"_get_contrastive_idxs(PRNGKey({cj['key']}), {B}, {n}) = {idx.tolist()} but the index model (delete position i from arange(B), choice at key i) gives {m}",
                          case=cj, found_input=bool(errs), unit=u.name, expected=m, observed=got,
                          broken="correspondence contrastive-idxs / theorem C17_contrastive_indices", reproducer="cd /verif && ./check C17 --replay <this file>")


def unit_idxs_large(ctx):
    """The index clauses (each row: n_contrastive DISTINCT OTHER rows of the batch) for batch sizes far above the small exhaustive grid:
    B in {33, 64, 129, 160, 257, 1000}, n in {1, 5, B // 2, B - 1}.  Implementation only (the model tie is the small grid).
    (Seeded change C17g took a cheaper, off-by-one path for batches above 128 rows.)"""
    s = _jx()
    jr = s["jr"]
    r = ctx.rng
    u = ctx.unit("contrastive-idxs-large", "_get_contrastive_idxs(key, B, n) for B up to 1000: every row holds n distinct other rows of the batch (oracle only)")
    Bs = [33, 129, 160, 257] if ctx.quick else [33, 64, 129, 160, 257, 1000]
    for B in Bs:
        for n in sorted({1, 5, B // 2, B - 1}):
            keyint = int(r.integers(0, 2 ** 31 - 1))
            idx = np.asarray(s["L"]._get_contrastive_idxs(jr.PRNGKey(keyint), B, n))
            cj = dict(unit="contrastive-idxs-large", key=keyint, batch_size=B, n_contrastive=n)
            u.count(cj, nontrivial=True, tag=f"B={B}")
            errs = idx_clauses(idx, B, n)
            if errs:
                ctx.violation(sig=f"_get_contrastive_idxs:large:{errs[0].split(':')[0]}", what=f"_get_contrastive_idxs(PRNGKey({keyint}), {B}, {n}): " + "; ".join(e[:120] for e in errs[:3]) + f" ({len(errs)} rows in all)",
                              case=cj, found_input=True, unit=u.name, expected="n distinct other rows in every row", observed=errs[0][:200], broken="index clauses of the property (large batches)")


def _contr_obs(name, seed, sd, B, n, keyint, x, c, prior_scale):
    s = _jx()
    jnp, jr, eqx = s["jnp"], s["jr"], s["eqx"]
    d = build_dist(name, seed, sd)
    p, st = part(d)
    dim, cdim = DIMS[name]
    prior = cached(("prior", dim, prior_scale), lambda: s["Normal"](jnp.zeros(dim), prior_scale * jnp.ones(dim)))
    loss = cached(("closs", dim, prior_scale, n), lambda: s["L"].ContrastiveLoss(prior, n))
    xx = jnp.asarray(x)
    cc = None if c is None else jnp.asarray(c)
    key = jr.PRNGKey(keyint)
    if B <= n:
        try:
            loss(p, st, xx, cc, key)
            return dict(raised=False)
        except ValueError:
            return dict(raised=True)
    v = float(loss(p, st, xx, cc, key))
    if cdim is None:
        tab = cached(("lqtab-u", name), lambda: eqx.filter_jit(lambda dd, a: jnp.broadcast_to(dd.log_prob(a)[None, :], (a.shape[0], a.shape[0]))))
        LQ = np.asarray(tab(d, xx), float)
    else:
        tab = cached(("lqtab", name), lambda: eqx.filter_jit(lambda dd, a, b: dd.log_prob(a[None, :, :], b[:, None, :])))
        LQ = np.asarray(tab(d, xx, cc), float)      # LQ[i, j] = log q(x_j | cond_i)
    PR = np.asarray(prior.log_prob(xx), float)
    idx, pos = (np.asarray(a) for a in _idx_fns()(key, B, n))
    return dict(raised=False, v=v, LQ=LQ, PR=PR, idx=idx, pos=pos)


def unit_contrastive(ctx):
    r = ctx.rng
    u = ctx.unit("contrastive-loss", "ContrastiveLoss(prior, n)(params, static, x, condition, key) vs Model.contrastive_loss (index model with replayed "
                                     "jr.choice + per-row softmax cross-entropy through jax's logsumexp formula + mean) fed with the public log_prob table "
                                     "LQ[i,j] = log q(x_j|cond_i) and prior log-probs; also ValueError iff n >= B; non-trivial = n < B-1 (rows not forced) and perturbed parameters")
    grid = ([("cMAF2", 2, 1), ("cMAF2", 5, 2), ("cMAF2", 5, 4), ("cMAF2", 6, 3), ("cCoupling3", 3, 1), ("cCoupling3", 8, 3)] if ctx.quick else
            [(d, B, n) for d in COND for B in (2, 3, 5, 8) for n in sorted({1, B // 2, B - 1}) if 1 <= n < B] + [("MAF2", 4, 2), ("Normal2", 6, 3)])
    reps = 3 if ctx.quick else 10
    cases, reqs = [], []
    for name, B, n in grid:
        dim, cdim = DIMS[name]
        for rep in range(reps):
            seed, sd = int(r.integers(0, 10 ** 6)), float([0.5, 0.9, 0.0, 0.3][rep % 4])
            keyint = int(r.integers(0, 2 ** 31 - 1))
            x, c = _data(r, B, dim, cdim)
            cj = dict(unit="contrastive-loss", dist=name, seed=seed, sd=sd, batch_size=B, n_contrastive=n, key=keyint, prior_scale=2.0,
                      x=x.tolist(), condition=None if c is None else c.tolist())
            o = _contr_obs(name, seed, sd, B, n, keyint, x, c, 2.0)
            cases.append((cj, o))
            reqs.append(f"c17.contr {n} {B} {hexlist(o['LQ'].ravel())} {hexlist(o['PR'])} {_rows(o['pos'])}")
            reqs.append(f"c17.rows {B} {hexlist(o['LQ'].ravel())} {hexlist(o['PR'])} {_rows(o['idx'])}")
    # n >= B must raise (and the model says None)
    raise_cases = []
    for name, B, n in [("cMAF2", 2, 2), ("cMAF2", 2, 5), ("cCoupling3", 3, 3)]:
        dim, cdim = DIMS[name]
        x, c = _data(r, B, dim, cdim)
        cj = dict(unit="contrastive-loss", dist=name, seed=1, sd=0.3, batch_size=B, n_contrastive=n, key=5, prior_scale=2.0, x=x.tolist(), condition=c.tolist())
        o = _contr_obs(name, 1, 0.3, B, n, 5, x, c, 2.0)
        raise_cases.append((cj, o))
        reqs.append(f"c17.contr {n} {B} {hexlist(np.zeros(B * B))} {hexlist(np.zeros(B))} {_rows(np.zeros((B, n), int))}")
    out = ctx.model(reqs)
    for ci, (cj, o) in enumerate(cases):
        B, n = cj["batch_size"], cj["n_contrastive"]
        u.count(cj, nontrivial=(n < B - 1 and cj["sd"] > 0), tag=f"{cj['dist']}/B={B}/n={n}")
        for e in _contr_judge(cj, o, out[2 * ci], out[2 * ci + 1]):
            u.disagreements += 1
            ctx.violation(sig=f"ContrastiveLoss:{e['kind']}", what=e["what"] + f" on {cj['dist']} batch {B} n_contrastive {n} key {cj['key']}", case=cj,
                          found_input=e["oracle"], unit=u.name, expected=e.get("expected"), observed=e.get("observed"), broken=e["broken"],
                          reproducer="cd /verif && ./check C17 --replay <this file>")
        if len(u.hashes) % 5 == 1:
            ctx.sample(dict(case={k: cj[k] for k in cj if k not in ("x", "condition")}, loss=o["v"], model=fparse(out[2 * ci]), numpy=np_contrastive(o["LQ"], o["PR"], o["idx"])[0], idxs=o["idx"].tolist()))
    for k, (cj, o) in enumerate(raise_cases):
        m = out[2 * len(cases) + k]
        u.count(cj, nontrivial=False, tag="n>=B raises")
        if not o["raised"] or m != "RAISE":
            u.disagreements += 1
            ctx.violation(sig="ContrastiveLoss:no-ValueError", what=f"n_contrastive {cj['n_contrastive']} >= batch {cj['batch_size']}: implementation raised={o['raised']}, model {m}",
                          case=cj, found_input=not o["raised"], unit=u.name, expected="ValueError", observed=str(o), broken="correspondence contrastive-loss (guard)")


def _contr_judge(cj, o, m_full, m_rows):
    B, n = cj["batch_size"], cj["n_contrastive"]
    errs = []
    v = o["v"]
    ierrs = idx_clauses(o["idx"], B, n)
    ov, orow = np_contrastive(o["LQ"], o["PR"], o["idx"])
    mr = fparse(m_rows.split()[0])
    mf = fparse(m_full) if m_full not in ("RAISE",) and not m_full.startswith("ERR") else float("nan")
    if ierrs:
        errs.append(dict(kind="indices:" + ierrs[0].split(":")[0], oracle=True, observed=o["idx"].tolist(), broken="theorem C17_contrastive_indices / contrastive-idxs",
                         what=f"the rows used are not n distinct other rows: {ierrs[0]}"))
    if not (v >= -1e-12):
        errs.append(dict(kind="negative", oracle=True, observed=v, expected=">= 0", broken="theorem C17_contrastive_nonneg", what=f"ContrastiveLoss = {v!r} < 0"))
    # independent of _get_contrastive_idxs altogether: with ALL other rows as contrastive set the loss is maximal, and it is
    # THE value when n = B-1 (no freedom left), whatever the key
    full, _ = np_contrastive(o["LQ"], o["PR"], [[j for j in range(B) if j != i] for i in range(B)])
    if n == B - 1 and not close(v, full):
        errs.append(dict(kind="value:all-other-rows", oracle=True, expected=full, observed=v, broken="theorems C17_contrastive_indices + C17_contrastive_spec",
                         what=f"n_contrastive = batch - 1, so every other row must be used: ContrastiveLoss = {v!r} but the cross-entropy against all other rows = {full!r}"))
    elif not (v <= full + VTOL * max(1.0, abs(full))):
        errs.append(dict(kind="value:above-all-rows", oracle=True, expected=f"<= {full!r}", observed=v, broken="theorem C17_contrastive_spec",
                         what=f"ContrastiveLoss = {v!r} exceeds the cross-entropy against all other rows {full!r} (impossible for a subset of distinct other rows)"))
    if not close(v, ov):
        errs.append(dict(kind="value", oracle=True, expected=ov, observed=v, broken="correspondence contrastive-loss / theorem C17_contrastive_spec",
                         what=f"ContrastiveLoss = {v!r} but the mean softmax cross-entropy over the rows _get_contrastive_idxs gives at this key = {ov!r}"))
    elif not close(v, mr):
        errs.append(dict(kind="value:model-rows", oracle=False, expected=mr, observed=v, broken="correspondence contrastive-loss", what=f"ContrastiveLoss = {v!r}, model on the same index rows {mr!r}"))
    elif not ierrs and not close(v, mf):
        errs.append(dict(kind="value:model-full", oracle=False, expected=mf, observed=v, broken="correspondence contrastive-loss (index model inside the loss)",
                         what=f"ContrastiveLoss = {v!r}, full model (index model with replayed jr.choice, then the row formula) {mf!r}"))
    return errs


def unit_logsumexp(ctx):
    s = _jx()
    from jax.scipy.special import logsumexp
    r = ctx.rng
    u = ctx.unit("logsumexp", "jax.scipy.special.logsumexp on 1-d arrays vs Model.logsumexp (max-shifted, isfinite guard) incl. +-inf entries and magnitudes where the "
                              "unshifted formula overflows; non-trivial = the plain formula over/underflows or an entry is infinite")
    xs = [[0.0], [1.0, 2.0], [-np.inf, 0.5], [-np.inf, -np.inf], [np.inf, 1.0], [800.0, 801.0, 799.5], [-800.0, -801.0], [1e4, -1e4], [710.0, 0.0], [-745.2, -745.3]]
    for _ in range(20 if ctx.quick else 400):
        k = int(r.integers(1, 9))
        xs.append((r.standard_normal(k) * float(r.choice([1.0, 30.0, 400.0]))).tolist())
    out = ctx.model(["c17.lse " + hexlist(x) for x in xs])
    for x, m in zip(xs, out):
        got = float(logsumexp(s["jnp"].asarray(x)))
        ms, mp = [fparse(t) for t in m.split()]
        with np.errstate(all="ignore"):
            plain = float(np.log(np.sum(np.exp(np.asarray(x)))))
        hard = not np.isfinite(plain) or any(np.isinf(x))
        u.count(dict(x=x), nontrivial=hard, tag="hard" if hard else "plain")
        ok_def = close(got, plain, 1e-9) if np.isfinite(plain) and not any(np.isinf(x)) else True
        if not close(got, ms, 1e-12) or not ok_def:
            u.disagreements += 1
            ctx.violation(sig="logsumexp", what=f"logsumexp({x}) = {got!r}, model {ms!r}, ln sum exp = {plain!r}", case=dict(unit="logsumexp", x=[fhex(t) for t in x]),
                          found_input=not ok_def, unit=u.name, expected=ms, observed=got, broken="correspondence logsumexp / theorem C17_logsumexp_shift")


def unit_ml_multiaxis(ctx):
    """MaximumLikelihoodLoss on inputs with SEVERAL leading batch axes and conditions that broadcast against them (log_prob's documented
    batching): the loss is minus the mean over ALL log-probabilities.  Oracle only.  (Seeded change C17e divided the sum by x.shape[0].)"""
    import equinox as eqx
    import jax.numpy as jnp
    from flowjax.bijections import AdditiveCondition
    from flowjax.distributions import Normal, Transformed
    from flowjax.train.losses import MaximumLikelihoodLoss

    u = ctx.unit("ml-loss-multiaxis", "MaximumLikelihoodLoss with x of shape (G, M, d) / (G, M, K, d) and conditions (G, 1, c) / (M, c) / (c,) / none vs "
                                      "-mean(log_prob) over all elements (NumPy); non-trivial = more than one leading axis")
    rng = ctx.rng
    d, c = 2, 3
    cond_dist = Transformed(Normal(jnp.zeros(d), jnp.asarray([0.7, 1.4])), AdditiveCondition(lambda cc: jnp.tanh(cc[:2]) + cc[2], (d,), (c,)))
    unc_dist = Normal(jnp.asarray([0.3, -0.2]), jnp.asarray([0.8, 1.7]))
    for rep in range(6 if ctx.quick else 40):
        G, M, K = int(rng.integers(2, 5)), int(rng.integers(2, 6)), int(rng.integers(2, 4))
        xb = [(G, M), (G, M, K), (M,)][rep % 3]
        x = rng.normal(0, 1.5, xb + (d,))
        for cshape in ([None, (G, 1, c), (M, c), (c,)] if len(xb) == 2 else [None, (c,), xb[-1:] + (c,)]):
            dist = unc_dist if cshape is None else cond_dist
            cond = None if cshape is None else rng.normal(0, 1, cshape)
            params, static = eqx.partition(dist, eqx.is_inexact_array)
            got = float(MaximumLikelihoodLoss()(params, static, jnp.asarray(x), None if cond is None else jnp.asarray(cond)))
            lps = np.asarray(dist.log_prob(jnp.asarray(x)) if cond is None else dist.log_prob(jnp.asarray(x), jnp.asarray(cond)), dtype=float)
            ref = float(-np.mean(lps))
            u.count((rep, xb, cshape), nontrivial=len(xb) > 1, tag=f"x{xb}")
            if not abs(got - ref) <= 1e-10 * max(1.0, abs(ref)):
                ctx.violation(sig="ml-loss:multiaxis", what=f"MaximumLikelihoodLoss = {got!r} but -(mean of the {lps.size} log-probabilities) = {ref!r} for x of shape {xb + (d,)} "
                              f"and condition of shape {cshape}", case=dict(unit="ml-loss-multiaxis", x=x.tolist(), condition=None if cond is None else cond.tolist()),
                              found_input=True, unit=u.name, expected=ref, observed=got, broken="ml-loss-multiaxis / C17_ml_loss_spec")


def unit_contrastive_bounded_support(ctx):
    """A conditional model whose SUPPORT depends on the condition (q(x|c) = c + Exponential): contrastive rows outside the support have
    logit -inf and contribute exp(-inf) = 0 to the softmax normaliser, so the defining cross-entropy is finite and >= 0.  Oracle
    only, n_contrastive = batch - 1 (every row uses all the other rows: independent of the index draw).  (Seeded change C17d.)"""
    import equinox as eqx
    import jax.numpy as jnp
    import jax.random as jr
    from scipy.special import logsumexp as np_lse
    from flowjax.bijections import AdditiveCondition
    from flowjax.distributions import Exponential, Normal, Transformed
    from flowjax.train.losses import ContrastiveLoss

    u = ctx.unit("contrastive-bounded-support", "ContrastiveLoss on q(x|c) = c + Exponential(rate) with an N(0,1) prior: contrastive logits of -inf; the loss vs the "
                                                "NumPy softmax cross-entropy over all other rows; non-trivial = at least one -inf contrastive logit")
    rng = ctx.rng
    for rep in range(4 if ctx.quick else 40):
        dim, batch = int(rng.integers(1, 4)), int(rng.integers(4, 12))
        rate = np.exp(rng.normal(0.8, 0.4, dim))
        dist = Transformed(Exponential(jnp.asarray(rate)), AdditiveCondition(lambda c: c, shape=(dim,), cond_shape=(dim,)))
        prior = Normal(jnp.zeros(dim), jnp.ones(dim))
        key = jr.PRNGKey(int(rng.integers(0, 2**31)))
        x = rng.normal(0, 1, (batch, dim))
        cond = x - rng.exponential(1.0, (batch, dim)) / 4.0
        params, static = eqx.partition(dist, eqx.is_inexact_array)
        got = float(ContrastiveLoss(prior, n_contrastive=batch - 1)(params, static, jnp.asarray(x), jnp.asarray(cond), key))
        rows, n_out = [], 0
        for i in range(batch):
            logits = np.asarray(dist.log_prob(jnp.asarray(x), jnp.asarray(cond[i])), dtype=float) - np.asarray(prior.log_prob(jnp.asarray(x)), dtype=float)
            n_out += int(np.isneginf(np.delete(logits, i)).sum())
            rows.append(-(logits[i] - np_lse(logits)))
        ref = float(np.mean(rows))
        u.count((rep, dim, batch, x.tolist()), nontrivial=n_out > 0, tag=f"dim{dim}")
        if not (np.isfinite(got) and abs(got - ref) <= 1e-9 * max(1.0, abs(ref))):
            ctx.violation(sig="contrastive:bounded-support", what=f"ContrastiveLoss = {got!r} but the mean softmax cross-entropy over all other rows is {ref!r} "
                          f"(q(x|c) = c + Exponential, batch {batch}, dim {dim}, {n_out} contrastive logits are -inf)",
                          case=dict(unit="contrastive-bounded-support", dim=dim, batch=batch, rate=rate.tolist(), x=x.tolist(), condition=cond.tolist(), key=np.asarray(key).tolist()),
                          found_input=True, unit=u.name, expected=ref, observed=got, broken="contrastive-bounded-support / C17_contrastive_spec")


def run(ctx):
    import os
    import time
    _jx()
    only = os.environ.get("VERIF_C17_UNITS")   # development aid: run a subset of the units (default: all)
    for f in (unit_logsumexp, unit_idxs, unit_idxs_large, unit_ml, unit_contrastive, unit_contrastive_bounded_support, unit_ml_multiaxis, unit_elbo):
        if only and f.__name__[5:] not in only.split(","):
            continue
        t0 = time.time()
        f(ctx)
        _free_compiled()
        ctx.notes.append(f"{f.__name__}: {time.time() - t0:.1f}s")
    ctx.notes.append(f"largest scaled difference on accepted comparisons: values {_MAXD['value']:.2e} (tolerance {VTOL:g}), gradients {_MAXD['grad']:.2e} (tolerance {GTOL:g})")
    ctx.assumptions += [
        "the distributions themselves are not modelled: their public log_prob / sample / sample_and_log_prob are the model's function arguments (C03, C05 own them)",
        "jr.split(k, n) returns n keys; jr.choice(k, a, (n,), replace=False) == a[jr.choice(k, len(a), (n,), replace=False)] returns n distinct entries (checked on every replayed draw)",
        "gradients: JAX autodiff is trusted as the observation device for the implementation's gradients; the reference path/score gradients use vjp/grad of PUBLIC methods only",
        "exact over R; float rounding not modelled; values compared at 1e-10 relative, gradients at 1e-7 relative",
    ]


# ------------------------------------------------------------------------------------------------
def replay(ctx, rep):
    c = rep["case"]
    unit = c.get("unit")
    _jx()
    if unit == "contrastive-idxs-large":
        s_ = _jx()
        idx = np.asarray(s_["L"]._get_contrastive_idxs(s_["jr"].PRNGKey(c["key"]), c["batch_size"], c["n_contrastive"]))
        errs = idx_clauses(idx, c["batch_size"], c["n_contrastive"])
        print("index clauses:", errs[:3] or "hold")
        return not errs
    if unit == "ml-loss":
        x, cond = np.asarray(c["x"], float), (None if c["condition"] is None else np.asarray(c["condition"], float))
        v, v2, lps = _ml_obs(c["dist"], c["seed"], c["sd"], x, cond)
        m = fparse(ctx.model(["c17.ml " + hexlist(lps)])[0])
        print("loss", v, "numpy -(mean log_prob)", np_ml(lps), "model", m)
        return close(v, np_ml(lps)) and close(v2, np_ml(lps)) and close(v, m)
    if unit == "elbo":
        n = c["num_samples"]
        ref, obs, v = _elbo_obs(c["dist"], c["seed"], c["sd"], c["target"], n, c["key"], c["vseed"])
        a = {k: np.asarray(ref[k], float) for k in ("lq_s", "t_s", "lq_slp", "t_slp", "lq", "sc", "pathq", "t", "patht")}
        reqs = []
        for stl in (0, 1):
            reqs.append(f"c17.elbo {stl} {n} {hexlist(a['lq_s'])} {hexlist(a['t_s'])} {hexlist(a['lq_slp'])} {hexlist(a['t_slp'])}")
            reqs.append(f"c17.elbod {stl} {n} {hexlist(a['lq'])} {hexlist(a['sc'])} {hexlist(a['pathq'])} {hexlist(a['t'])} {hexlist(a['patht'])}")
        out = ctx.model(reqs)
        errs = _elbo_judge(ref, obs, v, {0: fparse(out[0]), 1: fparse(out[2])}, {0: [fparse(t) for t in out[1].split()], 1: [fparse(t) for t in out[3].split()]})
        print("values", {k: obs[k][0] for k in obs}, "numpy", np_elbo(ref["lq_slp"], ref["t_slp"]), "failures", [e["what"] for e in errs])
        return not errs
    if unit == "contrastive-idxs":
        s = _jx()
        B, n = c["batch_size"], c["n_contrastive"]
        key = s["jr"].PRNGKey(c["key"])
        idx, pos = (np.asarray(a) for a in _idx_fns()(key, B, n))
        m = ctx.model([f"c17.idx {B} {n} {_rows(pos)}"])[0]
        errs = idx_clauses(idx, B, n)
        print("idxs", idx.tolist(), "model", m, "clauses", errs)
        return not errs and _rows(idx) == m
    if unit == "contrastive-loss":
        B, n = c["batch_size"], c["n_contrastive"]
        x, cond = np.asarray(c["x"], float), (None if c["condition"] is None else np.asarray(c["condition"], float))
        o = _contr_obs(c["dist"], c["seed"], c["sd"], B, n, c["key"], x, cond, c["prior_scale"])
        if B <= n:
            print("raised", o["raised"])
            return o["raised"]
        out = ctx.model([f"c17.contr {n} {B} {hexlist(o['LQ'].ravel())} {hexlist(o['PR'])} {_rows(o['pos'])}",
                         f"c17.rows {B} {hexlist(o['LQ'].ravel())} {hexlist(o['PR'])} {_rows(o['idx'])}"])
        errs = _contr_judge(c, o, out[0], out[1])
        print("loss", o["v"], "numpy", np_contrastive(o["LQ"], o["PR"], o["idx"])[0], "model", out[0], "failures", [e["what"] for e in errs])
        return not errs
    if unit == "logsumexp":
        from jax.scipy.special import logsumexp
        x = [fparse(t) for t in c["x"]]
        got = float(logsumexp(_jx()["jnp"].asarray(x)))
        ms = fparse(ctx.model(["c17.lse " + hexlist(x)])[0].split()[0])
        print("logsumexp", got, "model", ms)
        return close(got, ms, 1e-12)
    print("obligation replay: rebuild and re-check", json.dumps(c)[:300])
    return False
