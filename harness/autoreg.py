"""Layer-level tie of the REAL MaskedAutoregressive / Coupling bijections (conditioner MLP included) with the extracted
Coq model coq/Model/AutoregNet.v (driver ocaml/bin/autoreg), used by the C01 and C02 checks:

    from harness import autoreg
    autoreg.run_units(ctx)          # ctx.prop decides the search oracle: C01 round trip, C02 autodiff log-det (else both)

The build must include the extraction group "autoreg" (GROUPS = [..., "autoreg"]).  The theorems live in
coq/Props/X01_autoreg.v: list it in the calling check's EXTRA_PROPS (harness/main.py then builds it and registers one obligation
per theorem); if it was not registered that way `run_units` builds it (./build.sh X01_autoreg autoreg) and registers it itself
(theorems=None, the default; theorems=False never does).

What is serialised from the real object (nothing is taken from the model side): dim, cond_dim, nn_width, nn_depth, activation,
the RAW weight matrices (Where.if_true), the biases, the transformer the layer was constructed with (kind, min_scale /
knots, interval, softmax_adjust, min_derivative, its ravelled initial parameters read field by field), the inputs.
Compared, real object vs model at IEEE doubles:
  autoreg-weights     unwrap(layer).masked_autoregressive_mlp weights == model unwrap_weights(model masks, raw weights), exact;
                      Where.cond == model maf_masks, exact; constructor(0) reproduces the transformer it was built from (1e-12)
  autoreg-conditioner conditioner output, from raw weights + model masks AND from the unwrapped weights (plain MLP), 1e-12
  autoreg-tparams     unwrapped transformer parameters per coordinate (loc, scale / x_pos, y_pos, derivatives), 1e-9
  autoreg-layer-tie   transform, inverse, transform_and_log_det, inverse_and_log_det: values and log-dets, 1e-9 relative
                      (+ 64 x the one-sided change of the implementation's own output when the input moves by 8 ulps, which is
                      ~1e-15 except in ill-conditioned spline bins)
on random inputs and boundary-directed ones (per transformed coordinate: spline interval ends, their float neighbours, every
knot of that coordinate's own spline, far outside; affine: 0, +-1, +-1e4, the preimage of 0).
Search oracles (implementation alone): round trips both ways (C01); log_det vs slogdet(jax.jacobian(transform)) and the
inverse law (C02).  A model/implementation disagreement is confirmed on the un-jitted, un-batched real method before it is
reported.
"""

import math
import os
import sys
import time

import numpy as np

import subprocess

from harness.common import VERIF, fhex, fparse, hexlist, sha

GROUP = "autoreg"
THEOREMS_FILE = "Props/X01_autoreg.v"
# text the calling checks (C01 / C02) may append to their MANIFEST entries
MANIFEST_ADDENDUM = {
    "text": "The real MaskedAutoregressive and Coupling LAYERS are inside the model (coq/Model/AutoregNet.v): eqx.nn.MLP conditioner with the Where "
            "masks applied at evaluation, reshape into one parameter block per coordinate, get_ravelled_pytree_constructor (p + init), unwrap of the "
            "transformer's wrappers (Affine with softplus(+min_scale) scale; RationalQuadraticSpline knots by softmax/cumsum, derivatives by softplus + "
            "min_derivative), Vmap = elementwise with summed log-det, the lax.scan inverse. Props/X01_autoreg.v proves, for ALL weights/biases/activations, "
            "dims, widths, depths, with and without condition: the masked conditioner satisfies the autoregressive hypothesis of C01_maf_inv_fwd (from "
            "C09's masked_mlp_dependence); every raw parameter block yields a valid transformer (scale > 0, rqs_valid; from C11's lemmas); hence "
            "inverse(transform x) = x and transform(inverse y) = y for the concrete layers (Coupling: arbitrary MLP); the reported log-det is the sum of the "
            "transformers' own ln|dy_i/dx_i| at blocks depending on x_<i only and equals ln|det J| for every J whose upper triangle holds the partial "
            "derivatives (_partial: lower-triangle partials not proved to exist (relu), spline interval ends excluded). Tied on every run to real layer "
            "objects (weights and transformer perturbed, boundary-directed inputs) by harness/autoreg.py: weights/masks exact, conditioner 1e-12, "
            "transformer parameters and all four methods 1e-9.",
    "note": "Exact over R; float rounding not modelled. The serialiser reads the transformer handed to the layer field by field (its leaves are the "
            "model's init vector) and the raw weights from Where.if_true; jit/vmap are used to evaluate the real methods in batches and every reported "
            "disagreement is first confirmed on the un-jitted, un-batched method.",
}
_L = {}


def lib():
    if _L:
        return _L
    import equinox as eqx
    import jax
    import jax.numpy as jnp
    import jax.random as jr
    from flowjax import bijections as B
    from flowjax import flows as F
    from flowjax import wrappers as W

    _L.update(eqx=eqx, jax=jax, jnp=jnp, jr=jr, B=B, F=F, W=W, unwrap=W.unwrap)
    return _L


# ------------------------------------------------------------------------------------------------ wire helpers
def fvec(v):
    v = np.asarray(v, dtype=float).ravel()
    return hexlist(v) if v.size else "-"


def fmat(m):
    m = np.asarray(m, dtype=float)
    if m.shape[0] == 0:
        return "-"
    return ";".join((",".join(fhex(v) for v in row) if len(row) else "e") for row in m)


def fmats(ms):
    return "/".join(fmat(m) for m in ms) if len(ms) else "-"


def fvecs(vs):
    return "/".join((fvec(v) if np.size(v) else "e") for v in vs) if len(vs) else "-"


def parse_vec(s):
    return [] if s in ("-", "e") else [fparse(v) for v in s.split(",")]


def parse_mat(s):
    return [] if s == "-" else [parse_vec(r) for r in s.split(";")]


def parse_mats(s):
    return [] if s == "-" else [parse_mat(m) for m in s.split("/")]


def parse_yl(line):
    if line.startswith("ERR"):
        return "ERR", line
    ys, ld = line.split(" ")
    return parse_vec(ys), (None if ld == "-" else fparse(ld))


def parse_bmats(tokens):
    it = iter(tokens)
    n = int(next(it))
    out = []
    for _ in range(n):
        r, c, bits = int(next(it)), int(next(it)), next(it)
        bits = "" if bits == "-" else bits
        out.append(np.array([b == "1" for b in bits], dtype=bool).reshape(r, c))
    return out


def close(a, b, rel):
    if a is None or b is None:
        return a is None and b is None
    if math.isnan(a) or math.isnan(b):
        return math.isnan(a) and math.isnan(b)
    if math.isinf(a) or math.isinf(b):
        return a == b
    return abs(a - b) <= rel * max(1.0, abs(a), abs(b))


def vclose(a, b, rel, slack=0.0):
    a, b = np.ravel(np.asarray(a, dtype=float)), np.ravel(np.asarray(b, dtype=float))
    return a.shape == b.shape and all(close(float(p), float(q), rel) or abs(float(p) - float(q)) <= slack for p, q in zip(a, b))


def _fin(d):
    d = np.asarray(d, dtype=float)
    return float(np.max(np.where(np.isfinite(d), d, 0.0))) if d.size else 0.0


# ------------------------------------------------------------------------------------------------ real objects
def perturb(obj, rng, scale):
    from harness import flowcases

    return flowcases.perturb(obj, rng, scale)


def make_transformer(tcfg, raw=None):
    """The transformer handed to the layer.  raw (optional): its ravelled inexact leaves, field order."""
    L = lib()
    B, F, jnp, eqx, jax, W = L["B"], L["F"], L["jnp"], L["eqx"], L["jax"], L["W"]
    k = tcfg["kind"]
    if k == "affms":
        t = F._affine_with_min_scale(tcfg["min_scale"])
    elif k == "aff":
        t = B.Affine()
    else:
        iv = tcfg["interval"]
        t = B.RationalQuadraticSpline(knots=tcfg["knots"], interval=tuple(iv) if isinstance(iv, (list, tuple)) else iv,
                                      min_derivative=tcfg["min_derivative"], softmax_adjust=tcfg["softmax_adjust"])
    if raw is not None:
        raw = np.asarray(raw, dtype=float)
        if k in ("affms", "aff"):
            t = eqx.tree_at(lambda a: (a.loc, a.scale.arr), t, (jnp.asarray(raw[0]), jnp.asarray(raw[1])))
        else:
            K = tcfg["knots"]
            t = eqx.tree_at(lambda r: (r.x_pos.args[0], r.y_pos.args[0], r.derivatives.args[0]), t,
                            (jnp.asarray(raw[:K]), jnp.asarray(raw[K:2 * K]), jnp.asarray(raw[2 * K:])))
    return t


def transformer_raw(tcfg, t):
    """The transformer's trainable leaves read FIELD BY FIELD (this is the [init] of the model's tspec)."""
    if tcfg["kind"] in ("affms", "aff"):
        return np.array([float(t.loc), float(t.scale.arr)])
    return np.concatenate([np.asarray(t.x_pos.args[0], dtype=float), np.asarray(t.y_pos.args[0], dtype=float),
                           np.asarray(t.derivatives.args[0], dtype=float)])


def tspec_token(tcfg, init):
    k = tcfg["kind"]
    if k == "aff":
        return f"aff:none:{fvec(init)}"
    if k == "affms":
        return f"aff:{fhex(tcfg['min_scale'])}:{fvec(init)}"
    lo, hi = interval_of(tcfg)
    return f"rqs:{tcfg['knots']}:{fhex(lo)}:{fhex(hi)}:{fhex(tcfg['softmax_adjust'])}:{fhex(tcfg['min_derivative'])}:{fvec(init)}"


def interval_of(tcfg):
    iv = tcfg["interval"]
    return (float(iv[0]), float(iv[1])) if isinstance(iv, (list, tuple)) else (-float(iv), float(iv))


def npar_of(tcfg):
    return 2 if tcfg["kind"] in ("aff", "affms") else 3 * tcfg["knots"] + 2


ACTS = {}


def act_fn(name):
    L = lib()
    if not ACTS:
        import jax.nn as jnn

        ACTS.update(relu=jnn.relu, tanh=L["jnp"].tanh)
    return ACTS[name]


def build_layer(cfg, t, key=0):
    L = lib()
    B, jr = L["B"], L["jr"]
    if cfg["kind"] == "maf":
        return B.MaskedAutoregressive(jr.PRNGKey(key), transformer=t, dim=cfg["dim"], cond_dim=cfg["cond"], nn_width=cfg["width"],
                                      nn_depth=cfg["depth"], nn_activation=act_fn(cfg["act"]))
    return B.Coupling(jr.PRNGKey(key), transformer=t, untransformed_dim=cfg["ud"], dim=cfg["dim"], cond_dim=cfg["cond"],
                      nn_width=cfg["width"], nn_depth=cfg["depth"], nn_activation=act_fn(cfg["act"]))


def layer_mlp(cfg, obj):
    return obj.masked_autoregressive_mlp if cfg["kind"] == "maf" else obj.conditioner


def read_weights(cfg, obj):
    """RAW weights, biases (and masks for MAF) of the real layer, and the weights after unwrap."""
    L = lib()
    mlp = layer_mlp(cfg, obj)
    umlp = layer_mlp(cfg, L["unwrap"](obj))
    raws, biases, masks, unwrapped = [], [], [], []
    for lay, ulay in zip(mlp.layers, umlp.layers):
        w = lay.weight
        if cfg["kind"] == "maf":
            assert type(w).__name__ == "Where", type(w)
            raws.append(np.asarray(w.if_true, dtype=float))
            masks.append(np.asarray(w.cond, dtype=bool))
            assert float(np.asarray(w.if_false)) == 0.0
        else:
            raws.append(np.asarray(w, dtype=float))
        biases.append(np.asarray(lay.bias, dtype=float))
        unwrapped.append(np.asarray(ulay.weight, dtype=float))
    return raws, biases, masks, unwrapped


def set_weights(cfg, obj, raws, biases):
    """Replace raw weights / biases of a freshly built layer (used by replay)."""
    L = lib()
    eqx, jnp = L["eqx"], L["jnp"]
    n = len(raws)
    if cfg["kind"] == "maf":
        get = lambda o: tuple(o.masked_autoregressive_mlp.layers[i].weight.if_true for i in range(n)) + tuple(o.masked_autoregressive_mlp.layers[i].bias for i in range(n))
    else:
        get = lambda o: tuple(o.conditioner.layers[i].weight for i in range(n)) + tuple(o.conditioner.layers[i].bias for i in range(n))
    return eqx.tree_at(get, obj, tuple(jnp.asarray(w) for w in raws) + tuple(jnp.asarray(b) for b in biases))


def nn_input(cfg, x, c):
    x = np.asarray(x, dtype=float)
    head = x if cfg["kind"] == "maf" else x[: cfg["ud"]]
    return head if c is None else np.concatenate([head, np.asarray(c, dtype=float)])


def tparams_of(cfg, u, cn):
    """Unwrapped per-coordinate transformer parameters (rows) from the unwrapped layer u and conditioner output cn."""
    L = lib()
    jnp = L["jnp"]
    tr = L["unwrap"](u._flat_params_to_transformer(cn)).bijection
    n = cfg["dim"] - (0 if cfg["kind"] == "maf" else cfg["ud"])
    # a shared (un-vmapped) leaf counts for every coordinate
    if cfg["t"]["kind"] in ("aff", "affms"):
        return jnp.stack((jnp.broadcast_to(tr.loc, (n,)), jnp.broadcast_to(tr.scale, (n,))), 1)
    K2 = cfg["t"]["knots"] + 2
    return jnp.concatenate(tuple(jnp.broadcast_to(a, (n, K2)) for a in (tr.x_pos, tr.y_pos, tr.derivatives)), 1)


def make_eval(cfg, obj, want_jac):
    """One jitted, batched function per object: everything the units compare, for a batch of x (forward) and y (inverse)."""
    L = lib()
    eqx, jax, jnp, unwrap = L["eqx"], L["jax"], L["jnp"], L["unwrap"]
    params, static = eqx.partition(obj, eqx.is_array)
    has_c = cfg["cond"] is not None

    def one(params, x, y, c):
        o = eqx.combine(params, static)
        u = unwrap(o)
        f = o.transform(x, c)
        f2, fl = o.transform_and_log_det(x, c)
        i = o.inverse(y, c)
        i2, il = o.inverse_and_log_det(y, c)
        head = x if cfg["kind"] == "maf" else x[: cfg["ud"]]
        inp = head if c is None else jnp.hstack((head, c))
        cn = layer_mlp(cfg, u)(inp)
        out = dict(f=f, f2=f2, fl=fl, i=i, i2=i2, il=il, cn=cn, tp=tparams_of(cfg, u, cn), rt=o.inverse(f, c), rt2=o.transform(i, c),
                   rtl=o.transform_and_log_det(i2, c)[1])
        # sensitivity of each compared method to one ulp of its input (an ill-conditioned spline bin -- softmax_adjust 0 and a wide
        # raw spread give bins of width 1e-8 -- amplifies the last-bit differences between libm and XLA in the knots)
        # (8 ulps each way, not 1: at the ulp scale the maps are step functions and a 1-ulp probe can sit on a plateau)
        up8 = lambda v, sgn: v + sgn * 8 * jnp.maximum(jnp.abs(v) * 2.0 ** -52, 1e-300)
        fp, flp = o.transform_and_log_det(up8(x, 1), c)
        fm, flm = o.transform_and_log_det(up8(x, -1), c)
        ip, ilp = o.inverse_and_log_det(up8(y, 1), c)
        im, ilm = o.inverse_and_log_det(up8(y, -1), c)
        # both one-sided changes: the larger one is the sensitivity (at a knot the two bins differ a lot); at a kink (an interval
        # end of a spline, where the log-det jumps) only the smaller one is, the other side being the jump itself
        mn = lambda p, m, v: jnp.stack((jnp.minimum(jnp.abs(p - v), jnp.abs(v - m)), jnp.maximum(jnp.abs(p - v), jnp.abs(v - m))))
        out.update(fd=mn(fp, fm, f2), fld=mn(flp, flm, fl), idd=mn(ip, im, i2), ild=mn(ilp, ilm, il))
        # conditioning of the returning map, measured on the two float neighbours of the intermediate point
        out["rtd"] = jnp.abs(o.inverse(up8(f, 1), c) - o.inverse(up8(f, -1), c))
        out["rt2d"] = jnp.abs(o.transform(up8(i, 1), c) - o.transform(up8(i, -1), c))
        if want_jac:
            out["J"] = jax.jacobian(lambda v: o.transform(v, c))(x)
        return out

    if has_c:
        F = jax.jit(jax.vmap(one, in_axes=(None, 0, 0, 0)))
        return lambda X, Y, C: {k: np.asarray(v) for k, v in F(params, jnp.asarray(X), jnp.asarray(Y), jnp.asarray(C)).items()}
    F = jax.jit(jax.vmap(lambda p, x, y: one(p, x, y, None), in_axes=(None, 0, 0)))
    return lambda X, Y, C: {k: np.asarray(v) for k, v in F(params, jnp.asarray(X), jnp.asarray(Y)).items()}


def eager(obj, method, x, c):
    """The real method, un-jitted and un-batched."""
    jnp = lib()["jnp"]
    x = jnp.asarray(np.asarray(x, dtype=float))
    c = None if c is None else jnp.asarray(np.asarray(c, dtype=float))
    if method == "fwd":
        return np.asarray(obj.transform(x, c), dtype=float), None
    if method == "inv":
        return np.asarray(obj.inverse(x, c), dtype=float), None
    y, ld = obj.transform_and_log_det(x, c) if method == "fwdld" else obj.inverse_and_log_det(x, c)
    return np.asarray(y, dtype=float), (float(ld) if np.ndim(ld) == 0 else float("nan"))


# ------------------------------------------------------------------------------------------------ configurations
INTERVALS = [(-2.0, 3.0), 3.0, (-1.0, 0.5), (0.5, 2.0), 1.0, 4.0]


def gen_configs(rng, quick, n_maf, n_coup):
    """dims 1-4, cond_dim None/2, nn_width 3-8, nn_depth 0-2, transformers affine-with-min-scale (factory), plain Affine(),
    RationalQuadraticSpline(knots 3-5); every transformer kind, both condition settings and every depth appear."""
    cfgs = []
    tkinds = ["affms", "rqs", "rqs", "aff"]
    for kind, n in (("maf", n_maf), ("coup", n_coup)):
        for i in range(n):
            dim = int(rng.integers(1, 5)) if kind == "maf" else int(rng.integers(2, 5))
            if i < 4:
                dim = [3, 1, 4, 2][i] if kind == "maf" else [3, 2, 4, 4][i]
            tk = tkinds[i % len(tkinds)]
            if tk == "affms":
                t = dict(kind="affms", min_scale=[1e-2, 0.1, 0.5][int(rng.integers(0, 3))])
            elif tk == "aff":
                t = dict(kind="aff")
            else:
                iv = INTERVALS[int(rng.integers(0, len(INTERVALS)))]
                t = dict(kind="rqs", knots=int(rng.integers(3, 6)), interval=list(iv) if isinstance(iv, tuple) else iv,
                         min_derivative=[1e-3, 1e-2][int(rng.integers(0, 2))], softmax_adjust=[1e-2, 1e-3, 1.0][int(rng.integers(0, 3))])  # not 0.0: with conditioner-sized logits the float knots then COINCIDE (bin height 0, 0/0 = NaN at the interval end; sweep seed 2) - parameters outside the statement (knots strictly increasing), DESIGN section 2 observations
            cfg = dict(kind=kind, dim=dim, cond=[None, 2][(i + (kind == "coup")) % 2], width=int(rng.integers(3, 9)), depth=i % 3,
                       act="tanh" if i % 5 == 3 else "relu", t=t)
            if kind == "coup":
                cfg["ud"] = int(rng.integers(1, dim)) if i % 2 else dim // 2
            cfgs.append(cfg)
    return cfgs


def specials_fwd(cfg, tp_row, direction, feeds_net=False):
    """Boundary values for ONE transformed coordinate, from its own unwrapped transformer parameters tp_row.
    feeds_net: the coordinate is an input of the conditioner of later coordinates (MAF, all but the last): large magnitudes
    would only saturate softplus(raw scale) to 0 in floats (outside the model), so they are kept moderate there."""
    t = cfg["t"]
    if t["kind"] in ("aff", "affms"):
        loc, sc = float(tp_row[0]), float(tp_row[1])
        pre0 = (-loc / sc) if direction == "fwd" else loc
        big = [4.0, -4.0, 7.5] if feeds_net else [1e4, -1e4, 37.0]
        return [0.0, 1.0, -1.0, 1e-8, pre0] + big
    lo, hi = interval_of(t)
    K = t["knots"]
    pos = np.asarray(tp_row[: K + 2] if direction == "fwd" else tp_row[K + 2: 2 * K + 4], dtype=float)
    out = [lo, hi, np.nextafter(lo, -np.inf), np.nextafter(lo, np.inf), np.nextafter(hi, -np.inf), np.nextafter(hi, np.inf),
           lo - 1.0, hi + 2.5, 0.5 * (pos[0] + pos[1]), 0.5 * (pos[-2] + pos[-1])]
    for kn in pos[1:-1]:
        out += [float(kn), float(np.nextafter(kn, -np.inf)), float(np.nextafter(kn, np.inf))]
    return out


def input_scale(cfg):
    if cfg["t"]["kind"] == "rqs":
        lo, hi = interval_of(cfg["t"])
        return 0.5 * (lo + hi), 0.75 * (hi - lo)
    return 0.0, 1.5


# ------------------------------------------------------------------------------------------------ the units
def _requests(cfg, ts, raws, biases, unwrapped, x, c, direction):
    """Model requests for one input: forward -> fwd, fwdld, conditioner (raw+masks), conditioner (unwrapped), tparams;
    inverse -> inv, invld."""
    ctok = "none" if c is None else fvec(c)
    if cfg["kind"] == "maf":
        head = f"{cfg['dim']} {-1 if cfg['cond'] is None else cfg['cond']} {cfg['width']} {cfg['depth']} {cfg['act']} {ts} {fmats(raws)} {fvecs(biases)}"
        if direction == "fwd":
            inp = fvec(nn_input(cfg, x, c))
            return [f"maf fwd {head} {fvec(x)} {ctok}", f"maf fwdld {head} {fvec(x)} {ctok}", f"mafcond {head} {inp}",
                    f"mlp {cfg['act']} {fmats(unwrapped)} {fvecs(biases)} {inp}", f"maftp {head} {inp}"]
        return [f"maf inv {head} {fvec(x)} {ctok}", f"maf invld {head} {fvec(x)} {ctok}"]
    head = f"{cfg['ud']} {cfg['dim']} {cfg['act']} {ts} {fmats(raws)} {fvecs(biases)}"
    if direction == "fwd":
        inp = fvec(nn_input(cfg, x, c))
        return [f"coup fwd {head} {fvec(x)} {ctok}", f"coup fwdld {head} {fvec(x)} {ctok}", f"mlp {cfg['act']} {fmats(raws)} {fvecs(biases)} {inp}",
                f"mlp {cfg['act']} {fmats(unwrapped)} {fvecs(biases)} {inp}", f"couptp {head} {inp}"]
    return [f"coup inv {head} {fvec(x)} {ctok}", f"coup invld {head} {fvec(x)} {ctok}"]


def _case(cfg, init, raws, biases, method, x, c):
    return dict(layer=cfg, transformer_init=[fhex(v) for v in init], weights=[[fhex(v) for v in w.ravel()] for w in raws],
                weight_shapes=[list(w.shape) for w in raws], biases=[[fhex(v) for v in b] for b in biases], method=method,
                x=[fhex(v) for v in np.ravel(x)], condition=None if c is None else [fhex(v) for v in np.ravel(c)])


def layer_from_case(case):
    cfg = case["layer"]
    init = np.array([fparse(v) for v in case["transformer_init"]])
    t = make_transformer(cfg["t"], init)
    obj = build_layer(cfg, t)
    raws = [np.array([fparse(v) for v in w]).reshape(s) for w, s in zip(case["weights"], case["weight_shapes"])]
    biases = [np.array([fparse(v) for v in b]) for b in case["biases"]]
    return cfg, init, set_weights(cfg, obj, raws, biases), raws, biases


def roundtrip_errors(obj, direction, x, c, tol=1e-6):
    """C01's own statement on the implementation alone."""
    jnp = lib()["jnp"]
    xa = np.asarray(x, dtype=float)
    cj = None if c is None else jnp.asarray(np.asarray(c, dtype=float))
    a, b = (obj.transform, obj.inverse) if direction == "fwd" else (obj.inverse, obj.transform)
    ald = obj.transform_and_log_det if direction == "fwd" else obj.inverse_and_log_det
    mid = np.asarray(a(jnp.asarray(xa), cj), dtype=float)
    mid2 = np.asarray(ald(jnp.asarray(xa), cj)[0], dtype=float)
    errs = []
    nm = "transform" if direction == "fwd" else "inverse"
    if not np.allclose(mid, mid2, rtol=1e-12, atol=1e-300, equal_nan=True):
        errs.append(f"{nm}_and_log_det returns the point {mid2.tolist()} but {nm} returns {mid.tolist()}")
    if not np.all(np.isfinite(mid)):
        if np.all(np.isfinite(xa)) and np.max(np.abs(xa)) < 1e3:
            errs.append(f"{nm}({xa.tolist()}) = {mid.tolist()} is not finite")
        return errs
    back = np.asarray(b(jnp.asarray(mid), cj), dtype=float)
    d = np.abs(np.asarray(b(jnp.asarray(np.nextafter(mid, np.inf)), cj), dtype=float) - np.asarray(b(jnp.asarray(np.nextafter(mid, -np.inf)), cj), dtype=float))
    d = float(np.max(np.where(np.isfinite(d), d, 0.0)))   # conditioning of the returning map at the intermediate point
    err = float(np.max(np.abs(back - xa))) if back.shape == xa.shape else float("inf")
    if not err <= tol * (1.0 + float(np.max(np.abs(xa)))) + 16 * d:
        errs.append(f"{'inverse(transform(x))' if direction == 'fwd' else 'transform(inverse(y))'} = {back.tolist()} for input {xa.tolist()}"
                    f"{'' if c is None else ' condition ' + str(np.ravel(c).tolist())} (error {err:.3g})")
    return errs


def _near_end(cfg, x):
    """some coordinate sits on (or one ulp next to) an end of the spline interval: the map has a kink there"""
    if cfg["t"]["kind"] != "rqs":
        return False
    lo, hi = interval_of(cfg["t"])
    x = np.ravel(np.asarray(x, dtype=float))
    return bool(np.any(np.abs(x - lo) <= 32 * np.spacing(abs(lo))) or np.any(np.abs(x - hi) <= 32 * np.spacing(abs(hi))))


def _slacks(cfg, r, k, direction, x):
    """Absolute slack for values / log-det of case k of the evaluated batch r: 64 x the change of the implementation's own output
    when its input moves by 8 ulps (the larger of the two sides; next to a kink -- an interval end -- the smaller one)."""
    if direction == "fwd":
        side = 0 if _near_end(cfg, x) else 1
        return 64 * _fin(r["fd"][k][side]), 64 * _fin(r["fld"][k][side])
    side = 0 if _near_end(cfg, x) or _near_end(cfg, r["i"][k]) else 1
    return 64 * _fin(r["idd"][k][side]), 64 * _fin(r["ild"][k][side])


def _at_clip_tie(cfg, x, y):
    """jnp.clip ties at the spline's interval ends: autodiff halves the derivative there (an artefact of the oracle)."""
    if cfg["t"]["kind"] != "rqs":
        return False
    lo, hi = interval_of(cfg["t"])
    pts = [lo, hi, np.nextafter(lo, -np.inf), np.nextafter(hi, np.inf)]
    return bool(np.any(np.isin(np.ravel(x), pts)) or np.any(np.isin(np.ravel(y), [lo, hi])))


def autodiff_errors(cfg, obj, x, c, J=None, tol=1e-6):
    """C02's own statement on the implementation alone: log_det vs slogdet(jacobian(transform)); inverse law; scalar."""
    L = lib()
    jnp, jax = L["jnp"], L["jax"]
    xa = np.asarray(x, dtype=float)
    cj = None if c is None else jnp.asarray(np.asarray(c, dtype=float))
    y, ld = obj.transform_and_log_det(jnp.asarray(xa), cj)
    if np.ndim(ld) != 0:
        return [f"log_det has shape {np.shape(ld)} (must be a scalar)"]
    y, ld = np.asarray(y, dtype=float), float(ld)
    if not (np.all(np.isfinite(y)) and np.isfinite(ld)) or _at_clip_tie(cfg, xa, y):
        return []
    if J is None:
        J = np.asarray(jax.jacobian(lambda v: obj.transform(v, cj))(jnp.asarray(xa)), dtype=float)
    sign, ref = np.linalg.slogdet(J)
    errs = []
    # conditioning: |x| far outside the fitted range feeds huge conditioner outputs -> spline bins of width ~e^-50; the autodiff
    # Jacobian (a product of reciprocals of such widths) and the closed-form log-derivative then differ in the 5th digit
    # (second-pass seed 7919: 2e-5 relative at log_det = -56.4).  Extreme log-dets get 1e-4.
    tol_eff = tol if abs(ref) <= 20.0 else max(tol, 1e-4)
    slack = 0.0
    if sign != 0 and np.isfinite(ref) and not abs(ld - ref) <= tol_eff * max(1.0, abs(ref)):
        # measured conditioning of the REPORTED value: with softmax_adjust = 0 and far-out conditioner inputs a bin can be ~1e-14 wide, an
        # input a few ulps from its knot then has a relative position theta with 1-2 significant bits (thorough run, x[3] 27 ulp inside the
        # interval end: reported 2.5923 vs autodiff 2.5912).  Slack = 16 x the change of the reported log-det over +-2 ulp of the input.
        for sgn in (-1.0, 1.0):
            xn = xa.copy()
            for _ in range(2):
                xn = np.nextafter(xn, sgn * np.inf)
            ldn = float(obj.transform_and_log_det(jnp.asarray(xn), cj)[1])
            if np.isfinite(ldn):
                slack = max(slack, 16.0 * abs(ldn - ld))
    if sign != 0 and np.isfinite(ref) and not abs(ld - ref) <= tol_eff * max(1.0, abs(ref)) + slack:
        errs.append(f"transform_and_log_det log_det = {ld!r} but ln|det jacobian(transform)| = {float(ref)!r} at x = {xa.tolist()}"
                    f"{'' if c is None else ' condition ' + str(np.ravel(c).tolist())}")
    x2, ldi = obj.inverse_and_log_det(jnp.asarray(y), cj)
    if np.ndim(ldi) != 0:
        errs.append(f"inverse log_det has shape {np.shape(ldi)}")
    elif np.all(np.isfinite(np.asarray(x2))) and np.isfinite(float(ldi)):
        y2, ld2 = obj.transform_and_log_det(x2, cj)
        if np.isfinite(float(ld2)) and np.allclose(np.asarray(y2), y, rtol=1e-6, atol=1e-6) and not _at_clip_tie(cfg, np.asarray(x2), y) \
                and not abs(float(ldi) + float(ld2)) <= 1e-6 * max(1.0, abs(float(ld2))):
            errs.append(f"inverse_and_log_det log_det = {float(ldi)!r} is not minus the forward log_det {float(ld2)!r} at the corresponding point "
                        f"{np.ravel(np.asarray(x2)).tolist()}")
    return errs


_REPORTED = {}


def _already(ctx, unit, cfg, method):
    """One confirmed report per (unit, class, transformer kind, method): further disagreements of the same kind are only counted
    (every confirmation runs un-jitted real methods, and XLA's CPU JIT gives up after a few hundred compilations per process)."""
    key = (id(ctx), unit.name, cfg["kind"], cfg["t"]["kind"], method)
    sig = _REPORTED.get(key)
    if sig is None:
        return False
    unit.disagreements += 1
    for v in ctx.violations:
        if v["sig"] == sig:
            v["count"] += 1
    return True


def _report(ctx, unit, cfg, init, raws, biases, obj, method, x, c, what, expected, observed, oracle):
    """Confirmed disagreement: run the property's own oracle at (and, for round trips, around) the case, then report."""
    cls = "MaskedAutoregressive" if cfg["kind"] == "maf" else "Coupling"
    errs = []
    try:
        direction = "inv" if method in ("inv", "invld") else "fwd"
        if oracle in ("C01", "both"):
            errs += roundtrip_errors(obj, direction, x, c)
            if not errs:
                errs += roundtrip_errors(obj, "inv" if direction == "fwd" else "fwd", x, c)
        if oracle in ("C02", "both") and not errs:
            xs = x if direction == "fwd" else eager(obj, "inv", x, c)[0]
            errs += autodiff_errors(cfg, obj, xs, c)
    except Exception as e:  # pragma: no cover
        errs.append(f"oracle raised {type(e).__name__}: {str(e)[:100]}")
    unit.disagreements += 1
    _REPORTED[(id(ctx), unit.name, cfg["kind"], cfg["t"]["kind"], method)] = f"{cls}[{cfg['t']['kind']}].{method}:{'oracle' if errs else 'model-mismatch'}:{unit.name}"
    ctx.violation(sig=f"{cls}[{cfg['t']['kind']}].{method}:{'oracle' if errs else 'model-mismatch'}:{unit.name}",
                  what=(f"{cls} ({cfg['t']['kind']} transformer): " + "; ".join(errs)) if errs else f"{cls}.{method} ({unit.name}): {what}",
                  case=_case(cfg, init, raws, biases, method, x, c), found_input=bool(errs), unit=unit.name,
                  expected=str(expected)[:400], observed=str(observed)[:400],
                  broken=f"correspondence {unit.name} (coq/Model/AutoregNet.v) / theorems of Props/X01_autoreg.v about this layer",
                  reproducer="cd /verif && /venv/bin/python -m harness.autoreg --replay <this file>")


def _bump(ctx, sig):
    """True (and the count incremented) if a violation with this signature was already reported in this run."""
    for v in ctx.violations:
        if v["sig"] == sig:
            v["count"] += 1
            return True
    return False


def run_units(ctx, theorems=None, n_maf=None, n_coup=None, batch=None):
    """Entry point for harness/c01.py and harness/c02.py.  Requires ctx.build([... , 'autoreg'])."""
    t_start = time.time()
    L = lib()
    jnp, unwrap = L["jnp"], L["unwrap"]
    oracle = ctx.prop if ctx.prop in ("C01", "C02") else "both"
    registered = any(o["name"] == "theorem X01_maf_net_inv_fwd" for o in ctx.obligations)
    if theorems or (theorems is None and not registered):
        # not wired through EXTRA_PROPS = [..., "Props/X01_autoreg.v"]: build and register the theorems here
        r = subprocess.run([os.path.join(VERIF, "build.sh"), "X01_autoreg", GROUP], capture_output=True, text=True, timeout=3400)
        ctx.obligation("coq-build Props/X01_autoreg.v", "BUILD-OK" in r.stdout, (r.stdout + r.stderr)[-1500:] if "BUILD-OK" not in r.stdout else "")
        ctx.theorems(THEOREMS_FILE)
    rng = ctx.rng
    n_maf = n_maf if n_maf is not None else (6 if ctx.quick else 40)
    n_coup = n_coup if n_coup is not None else (5 if ctx.quick else 28)
    N = batch if batch is not None else (20 if ctx.quick else 48)
    uw = ctx.unit("autoreg-weights", "real layer: unwrapped MLP weights == model unwrap_weights(model maf_masks, raw weights) and Where.cond == model "
                                     "masks (exact); constructor(0) reproduces the transformer the layer was built from, model initial parameters of the "
                                     "factory transformers (1e-12); non-trivial = raw weights non-zero under a false mask entry")
    uc = ctx.unit("autoreg-conditioner", "conditioner output of the real layer vs model masked_mlp(raw weights, model masks) and vs model mlp(unwrapped "
                                         "weights), 1e-12 relative to max(1,|v|); non-trivial = perturbed weights, non-zero output")
    up = ctx.unit("autoreg-tparams", "unwrapped per-coordinate transformer parameters (constructor(p) = unravel(p + init), then unwrap) of the real layer "
                                     "vs model, 1e-9; non-trivial = parameters differ from the initial ones")
    ut = ctx.unit("autoreg-layer-tie", "transform / inverse / transform_and_log_det / inverse_and_log_det of real MaskedAutoregressive and Coupling "
                                       "(conditioner included, weights and transformer perturbed away from initialisation, with/without condition) vs extracted "
                                       "Model/AutoregNet.v, values and log-dets 1e-9 relative; random + boundary-directed inputs per coordinate; non-trivial = "
                                       "|log_det| > 1e-3 or the input is a boundary point")
    uo = ctx.unit("autoreg-oracle", ("round trips both ways and and-log-det point = plain point" if oracle == "C01" else
                                     "log_det vs slogdet(jax.jacobian(transform)), inverse law, scalar-ness" if oracle == "C02" else
                                     "round trips and autodiff log-det") + " on the real layers alone (same objects and inputs); non-trivial = finite, not at a clip tie")
    want_jac = oracle in ("C02", "both")
    cfgs = gen_configs(rng, ctx.quick, n_maf, n_coup)
    # model initial parameters of the factory transformers vs the real default-constructed ones
    for tc in (dict(kind="affms", min_scale=1e-2), dict(kind="affms", min_scale=0.3),
               dict(kind="rqs", knots=4, interval=3.0, min_derivative=1e-3, softmax_adjust=1e-2),
               dict(kind="rqs", knots=3, interval=[-1.0, 2.0], min_derivative=1e-2, softmax_adjust=0.0)):
        real = transformer_raw(tc, make_transformer(tc))
        req = f"tinit aff:{fhex(tc['min_scale'])}" if tc["kind"] == "affms" else f"tinit rqs:{tc['knots']}:{fhex(tc['min_derivative'])}"
        mod = parse_vec(ctx.model([req], GROUP)[0])
        uw.count(("tinit", str(tc)), nontrivial=True, tag="initial-parameters")
        if not vclose(mod, real, 1e-12):
            uw.disagreements += 1
            ctx.violation(sig=f"transformer-init:{tc['kind']}", what=f"initial ravelled parameters of {tc}: model {mod} != real {real.tolist()}",
                          case=dict(transformer=tc), found_input=False, unit=uw.name, expected=str(mod), observed=str(real.tolist()),
                          broken="model affine_min_scale_init / rqs_init (coq/Model/AutoregNet.v)")
    def _layer(ci, cfg):
        tcfg = cfg["t"]
        t = perturb(make_transformer(tcfg), rng, 0.7)
        init = transformer_raw(tcfg, t)
        obj = perturb(build_layer(cfg, t, key=int(rng.integers(0, 2**31))), rng, 0.5)
        raws, biases, masks, unwrapped = read_weights(cfg, obj)
        ts = tspec_token(tcfg, init)
        cls = "MaskedAutoregressive" if cfg["kind"] == "maf" else "Coupling"
        tag0 = f"{cfg['kind']}:{tcfg['kind']}:{'cond' if cfg['cond'] else 'nocond'}"
        # ---- weights / masks / constructor at zero
        np_ = npar_of(tcfg)
        if cfg["kind"] == "maf":
            cdt = -1 if cfg["cond"] is None else cfg["cond"]
            o1, o2 = ctx.model([f"unwrapw {cfg['dim']} {cdt} {cfg['width']} {cfg['depth']} {np_} {fmats(raws)}",
                                f"mafmasks {cfg['dim']} {cdt} {cfg['width']} {cfg['depth']} {np_}"], GROUP)
            mw = [np.array(m, dtype=float).reshape(w.shape) if w.size else np.zeros(w.shape) for m, w in zip(parse_mats(o1), unwrapped)] if not o1.startswith("ERR") else None
            mm = parse_bmats(o2.split(" ")) if not o2.startswith("ERR") else None
            hidden = any(np.any((~m) & (r != 0)) for m, r in zip(masks, raws))
            uw.count(("weights", ci, sha([w.tolist() for w in raws])), nontrivial=hidden, tag=tag0)
            okw = mw is not None and len(mw) == len(unwrapped) and all(np.array_equal(a, b) for a, b in zip(mw, unwrapped))
            okm = mm is not None and len(mm) == len(masks) and all(a.shape == b.shape and np.array_equal(a, b) for a, b in zip(mm, masks))
            if not (okw and okm):
                x0 = rng.normal(0, 1, cfg["dim"])
                c0 = None if cfg["cond"] is None else rng.normal(0, 1, cfg["cond"])
                _report(ctx, uw, cfg, init, raws, biases, obj, "fwd", x0, c0,
                        "unwrapped weights differ from where(model mask, raw weight, 0)" if okm else "Where.cond differs from the model's maf_masks",
                        o1[:200] if okm else o2[:200], str([w.tolist() for w in (unwrapped if okm else masks)])[:300], oracle)
        z = obj.transformer_constructor(jnp.zeros(np_))
        zr = transformer_raw(tcfg, z)
        uw.count(("ctor0", ci, ts), nontrivial=True, tag="constructor-at-zero")
        if not vclose(zr, init, 1e-12):
            x0 = rng.normal(0, 1, cfg["dim"])
            c0 = None if cfg["cond"] is None else rng.normal(0, 1, cfg["cond"])
            _report(ctx, uw, cfg, init, raws, biases, obj, "fwd", x0, c0, "transformer_constructor(zeros) does not reproduce the transformer the layer was built from",
                    init.tolist(), zr.tolist(), oracle)
        # ---- inputs: batch 1 random, batch 2 boundary-directed from the per-coordinate parameters at the batch-1 points
        ev = make_eval(cfg, obj, want_jac)
        d, cd = cfg["dim"], cfg["cond"]
        mu, sd = input_scale(cfg)
        X0 = mu + sd * rng.normal(0, 1, (N, d))
        Y0 = mu + sd * rng.normal(0, 1, (N, d))
        C0 = rng.normal(0, 1, (N, cd)) if cd else None
        r0 = ev(X0, Y0, C0)
        first = 0 if cfg["kind"] == "maf" else cfg["ud"]
        X1, Y1 = X0.copy(), r0["f"].copy()
        bflag = np.zeros(N, dtype=bool)
        for k in range(N):
            # one boundary value per case, cycling over the transformed coordinates and over that coordinate's own boundary list
            j = first + (k + ci) % (d - first)
            feeds = cfg["kind"] == "maf" and j < d - 1
            sf = specials_fwd(cfg, r0["tp"][k][j - first], "fwd", feeds)
            si = specials_fwd(cfg, r0["tp"][k][j - first], "inv", feeds)
            sidx = int(rng.integers(0, len(sf)))
            X1[k, j] = sf[sidx]
            Y1[k, j] = si[sidx % len(si)]
            bflag[k] = True
        Y1 = np.where(np.isfinite(Y1), Y1, 0.0)
        r1 = ev(X1, Y1, C0)
        # ---- model requests
        jobs, reqs = [], []
        for (X, Y, r, bnd) in ((X0, Y0, r0, np.zeros(N, dtype=bool)), (X1, Y1, r1, bflag)):
            for k in range(N):
                c = None if C0 is None else C0[k]
                q = _requests(cfg, ts, raws, biases, unwrapped, X[k], c, "fwd")
                jobs.append(("fwd", X[k], c, r, k, bool(bnd[k]), len(reqs)))
                reqs += q
                q = _requests(cfg, ts, raws, biases, unwrapped, Y[k], c, "inv")
                jobs.append(("inv", Y[k], c, r, k, bool(bnd[k]), len(reqs)))
                reqs += q
        outs = ctx.model(reqs, GROUP)
        for direction, x, c, r, k, bnd, at in jobs:
            key = (ci, direction, [fhex(v) for v in x], None if c is None else [fhex(v) for v in c], sha([w.tolist() for w in raws]))
            if direction == "fwd":
                m_f, m_fl, m_cn, m_cnu, m_tp = outs[at: at + 5]
                # conditioner
                cn = r["cn"][k]
                uc.count(key, nontrivial=bool(np.any(cn != 0)), tag=tag0)
                for nm, line in (("raw weights + model masks", m_cn), ("unwrapped weights", m_cnu)):
                    if (line.startswith("ERR") or not vclose(parse_vec(line), cn, 1e-12)) and not _already(ctx, uc, cfg, "fwd"):
                        ecn = np.asarray(layer_mlp(cfg, unwrap(obj))(jnp.asarray(nn_input(cfg, x, c))), dtype=float)
                        if line.startswith("ERR") or not vclose(parse_vec(line), ecn, 1e-12):
                            _report(ctx, uc, cfg, init, raws, biases, obj, "fwd", x, c, f"conditioner output ({nm}): model {line[:150]} != implementation {ecn.tolist()}",
                                    line, ecn.tolist(), oracle)
                # transformer parameters
                tp = r["tp"][k]
                up.count(key, nontrivial=True, tag=tag0)
                if (m_tp.startswith("ERR") or not vclose(np.array([v for row in parse_mat(m_tp) for v in row]), tp, 1e-9)) and not _already(ctx, up, cfg, "fwd"):
                    _report(ctx, up, cfg, init, raws, biases, obj, "fwd", x, c, f"unwrapped transformer parameters: model {m_tp[:200]} != implementation {np.ravel(tp).tolist()}",
                            m_tp, np.ravel(tp).tolist(), oracle)
                checks = (("fwd", m_f, r["f"][k], None), ("fwdld", m_fl, r["f2"][k], float(r["fl"][k])))
            else:
                m_i, m_il = outs[at: at + 2]
                checks = (("inv", m_i, r["i"][k], None), ("invld", m_il, r["i2"][k], float(r["il"][k])))
            sv, sl = _slacks(cfg, r, k, direction, x)
            for method, line, iy, ild in checks:
                nontriv = bnd or (ild is not None and np.isfinite(ild) and abs(ild) > 1e-3) or (ild is None)
                ut.count(key + (method,), nontrivial=bool(nontriv), tag=f"{tag0}:{method}:{'boundary' if bnd else 'random'}")
                if len(ut.hashes) % 900 == 1:
                    ctx.sample(dict(layer=cfg, method=method, x=np.ravel(x).tolist(), condition=None if c is None else np.ravel(c).tolist(),
                                    model=line[:160], implementation=[np.ravel(iy).tolist(), ild]))
                my, ml = parse_yl(line)
                # spline layers: the log-derivative varies over orders of magnitude inside tiny bins, so the log-det amplifies the last-bit
                # differences of the point (libm vs XLA) far beyond 1e-9 (sweep seed 41: 6e-7 with points equal to 2e-13): 5e-6 there
                lrel = 5e-6 if tcfg["kind"] == "rqs" else 1e-9
                lclose = lambda a, b: close(a, b, lrel) or (a is not None and b is not None and abs(a - b) <= sl)
                ok = my != "ERR" and vclose(my, iy, 1e-9, sv) and lclose(ml, ild)
                if not ok and not _already(ctx, ut, cfg, method):
                    ey, el = eager(obj, method, x, c)   # confirm on the un-jitted, un-batched real method
                    if my == "ERR" or not (vclose(my, ey, 1e-9, sv) and lclose(ml, el)):
                        _report(ctx, ut, cfg, init, raws, biases, obj, method, x, c, f"model {line[:160]} != implementation {(ey.tolist(), el)}", line, (ey.tolist(), el), oracle)
            # ---- the property's own oracle on the implementation (from the same jitted evaluation)
            # float conditioning guard of the oracles: an affine scale below 1e-3 / above 1e3 (softplus of a large raw value) makes
            # the float round trip lose more digits than the tolerance allows; the model comparison above is unaffected
            tpk = r["tp"][k]
            well = bool(np.max(np.abs(x)) <= 1e3) and (tcfg["kind"] == "rqs" or bool(np.all((np.abs(tpk[:, 1]) > 1e-3) & (np.abs(tpk[:, 1]) < 1e3))))
            if not well:
                continue
            if direction == "fwd":
                xs = np.asarray(x, dtype=float)
                f = r["f"][k]
                if oracle in ("C01", "both") and np.all(np.isfinite(f)):
                    uo.count(key + ("rt",), nontrivial=True, tag=tag0 + ":roundtrip-fwd")
                    err = float(np.max(np.abs(r["rt"][k] - xs)))
                    same_pt = np.allclose(f, r["f2"][k], rtol=1e-12, atol=1e-300)
                    dd = float(np.max(np.where(np.isfinite(r["rtd"][k]), r["rtd"][k], 0.0)))
                    if not (err <= 1e-6 * (1 + np.max(np.abs(xs))) + 16 * dd and same_pt) and not _bump(ctx, f"{cls}[{tcfg['kind']}]:roundtrip-fwd"):
                        errs = roundtrip_errors(obj, "fwd", xs, c)
                        if errs:
                            ctx.violation(sig=f"{cls}[{tcfg['kind']}]:roundtrip-fwd", what=f"{cls} ({tcfg['kind']} transformer): " + "; ".join(errs),
                                          case=_case(cfg, init, raws, biases, "fwd", xs, c), found_input=True, unit=uo.name, expected="x", observed=r["rt"][k].tolist(),
                                          broken="round-trip oracle on the real layer / X01_maf_net_inv_fwd, X01_coupling_net_inv_fwd")
                if want_jac and np.all(np.isfinite(f)) and np.isfinite(r["fl"][k]) and not _at_clip_tie(cfg, xs, f):
                    sign, ref = np.linalg.slogdet(r["J"][k])
                    uo.count(key + ("ad",), nontrivial=bool(abs(r["fl"][k]) > 1e-3), tag=tag0 + ":autodiff")
                    if sign != 0 and np.isfinite(ref) and not abs(float(r["fl"][k]) - ref) <= 1e-6 * max(1.0, abs(ref)) and not _bump(ctx, f"{cls}[{tcfg['kind']}]:logdet"):
                        errs = autodiff_errors(cfg, obj, xs, c)
                        if errs:
                            ctx.violation(sig=f"{cls}[{tcfg['kind']}]:logdet", what=f"{cls} ({tcfg['kind']} transformer): " + "; ".join(errs),
                                          case=_case(cfg, init, raws, biases, "fwdld", xs, c), found_input=True, unit=uo.name, expected=float(ref), observed=float(r["fl"][k]),
                                          broken="autodiff oracle on the real layer / X01_maf_net_ldj, X01_coupling_net_ldj")
            else:
                ys = np.asarray(x, dtype=float)
                i = r["i"][k]
                if oracle in ("C01", "both") and np.all(np.isfinite(i)):
                    uo.count(key + ("rt",), nontrivial=True, tag=tag0 + ":roundtrip-inv")
                    err = float(np.max(np.abs(r["rt2"][k] - ys)))
                    same_pt = np.allclose(i, r["i2"][k], rtol=1e-12, atol=1e-300)
                    dd = float(np.max(np.where(np.isfinite(r["rt2d"][k]), r["rt2d"][k], 0.0)))
                    if not (err <= 1e-6 * (1 + np.max(np.abs(ys))) + 16 * dd and same_pt) and not _bump(ctx, f"{cls}[{tcfg['kind']}]:roundtrip-inv"):
                        errs = roundtrip_errors(obj, "inv", ys, c)
                        if errs:
                            ctx.violation(sig=f"{cls}[{tcfg['kind']}]:roundtrip-inv", what=f"{cls} ({tcfg['kind']} transformer): " + "; ".join(errs),
                                          case=_case(cfg, init, raws, biases, "inv", ys, c), found_input=True, unit=uo.name, expected="y", observed=r["rt2"][k].tolist(),
                                          broken="round-trip oracle on the real layer / X01_maf_net_fwd_inv, X01_coupling_net_fwd_inv")
                if want_jac and np.all(np.isfinite(i)) and np.isfinite(r["il"][k]) and np.isfinite(r["rtl"][k]) and not _at_clip_tie(cfg, i, ys):
                    uo.count(key + ("il",), nontrivial=bool(abs(r["il"][k]) > 1e-3), tag=tag0 + ":inverse-law")
                    if not abs(float(r["il"][k]) + float(r["rtl"][k])) <= 1e-6 * max(1.0, abs(float(r["rtl"][k]))):
                        ctx.violation(sig=f"{cls}[{tcfg['kind']}]:inverse-law",
                                      what=f"{cls} ({tcfg['kind']} transformer): inverse_and_log_det log_det {float(r['il'][k])!r} is not minus the forward log_det "
                                           f"{float(r['rtl'][k])!r} at the returned point, y = {ys.tolist()}",
                                      case=_case(cfg, init, raws, biases, "invld", ys, c), found_input=True, unit=uo.name, expected=-float(r["rtl"][k]), observed=float(r["il"][k]),
                                      broken="inverse-law oracle on the real layer")

    for ci, cfg in enumerate(cfgs):
        try:
            _layer(ci, cfg)
        except Exception as e:  # the real layer could not be built / evaluated / serialised the way the model says
            import traceback

            cls = 'MaskedAutoregressive' if cfg['kind'] == 'maf' else 'Coupling'
            ctx.violation(sig=f"{cls}[{cfg['t']['kind']}]:harness-exception:{type(e).__name__}",
                          what=f"{cls} {cfg}: evaluating / serialising the real layer raised {type(e).__name__}: {str(e)[:200]}",
                          case=dict(layer=cfg, traceback=traceback.format_exc()[-1500:]), found_input=False, unit=ut.name,
                          broken='correspondence autoreg-layer-tie (the real object no longer has the structure the model serialises)')
        if ci % 8 == 7:
            L["jax"].clear_caches()
    ctx.assumptions += ["autoreg units: inputs finite; MAF/Coupling dims 1-4, cond_dim None/2, nn_width 3-8, nn_depth 0-2, activations relu/tanh, "
                        "transformers _affine_with_min_scale / Affine() / RationalQuadraticSpline(knots 3-5); float rounding outside the model"]
    ctx.notes.append(f"autoreg units: {len(cfgs)} layers, batch {N}, {time.time() - t_start:.1f}s")


# ------------------------------------------------------------------------------------------------ replay / self test
def replay_case(ctx, rep):
    """Re-run one stored case: model vs implementation on the stored method + both oracles.  True iff all hold."""
    case = rep["case"] if "case" in rep else rep
    if "layer" not in case:
        return False
    cfg, init, obj, raws, biases = layer_from_case(case)
    x = np.array([fparse(v) for v in case["x"]])
    c = None if case["condition"] is None else np.array([fparse(v) for v in case["condition"]])
    method = case["method"]
    direction = "inv" if method in ("inv", "invld") else "fwd"
    _, _, _, unwrapped = read_weights(cfg, obj)
    reqs = _requests(cfg, tspec_token(cfg["t"], init), raws, biases, unwrapped, x, c, direction)
    outs = ctx.model(reqs, GROUP)
    idx = {"fwd": 0, "fwdld": 1, "inv": 0, "invld": 1}[method]
    my, ml = parse_yl(outs[idx])
    ey, el = eager(obj, method, x, c)
    r = make_eval(cfg, obj, False)(x[None, :], x[None, :], None if c is None else c[None, :])
    sv, sl = _slacks(cfg, r, 0, direction, x)
    agree = my != "ERR" and vclose(my, ey, 1e-9, sv) and (close(ml, el, 1e-9) or (ml is not None and el is not None and abs(ml - el) <= sl))
    e1 = roundtrip_errors(obj, direction, x, c)
    xs = x if direction == "fwd" else eager(obj, "inv", x, c)[0]
    e2 = autodiff_errors(cfg, obj, xs, c)
    print("model", outs[idx][:300], "\nimplementation", ey.tolist(), el, "\nround-trip oracle", e1, "\nautodiff oracle", e2)
    return agree and not e1 and not e2


def main():
    import argparse
    import json

    from harness import common

    ap = argparse.ArgumentParser()
    ap.add_argument("--tier", default="quick", choices=["quick", "thorough"])
    ap.add_argument("--seed", type=int, default=int(os.environ.get("VERIF_SEED", "0")))
    ap.add_argument("--prop", default="X01", help="C01 / C02 select one oracle; anything else runs both")
    ap.add_argument("--replay", default=None)
    ap.add_argument("--no-build", action="store_true")
    ap.add_argument("--no-theorems", action="store_true")
    a = ap.parse_args()
    ctx = common.Ctx(a.prop, a.tier, a.seed)
    ctx.groups = [GROUP]
    if not a.no_build:
        r = __import__("subprocess").run([os.path.join(common.VERIF, "build.sh"), "X01_autoreg", GROUP], capture_output=True, text=True)
        print(r.stdout[-600:], r.stderr[-300:])
        if "BUILD-OK" not in r.stdout:
            sys.exit(2)
    common.init_jax()
    if a.replay:
        ok = replay_case(ctx, json.load(open(a.replay)))
        print("REPLAY", "property holds on this case" if ok else "property FAILS on this case")
        sys.exit(0 if ok else 1)
    run_units(ctx, theorems=False if a.no_theorems else None)
    for o in ctx.obligations:
        if not o["discharged"]:
            print("OBLIGATION NOT DISCHARGED:", o["name"], o["detail"][:300])
    for u in ctx.units.values():
        print(f"unit {u.name}: cases {u.cases} distinct {len(u.hashes)} nontrivial {len(u.nontrivial)} disagreements {u.disagreements}")
        for k2 in sorted(u.hist):
            print(f"    {k2}: {u.hist[k2]}")
    for v in ctx.violations:
        print(f"VIOLATION property={ctx.prop} replay={v['path']}{'' if v['found_input'] else ' no-failing-input-found'}\n  ({v['what'][:400]}; {v['count']} case(s))")
    bad = [o for o in ctx.obligations if not o["discharged"]]
    print(f"[autoreg self-test] tier={a.tier} seed={a.seed} oracle={a.prop} obligations {len(ctx.obligations) - len(bad)}/{len(ctx.obligations)} "
          f"violations {len(ctx.violations)} wall {time.time() - ctx.t0:.1f}s")
    sys.exit(1 if (ctx.violations or bad) else 0)


if __name__ == "__main__":
    main()
