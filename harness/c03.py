"""C03 -- Transformed densities obey change of variables on both evaluation paths.

Tie (model = extracted coq/Model/Dist.v run at IEEE doubles, ocaml/bin/dist):
  U1 log_prob(x) of real Transformed / Normal / Gumbel / nested Transformed over random bijection expressions (leaves with
     perturbed parameters and negative scales, Chain, Invert, Vmap(spline), TriangularAffine, Permute, Flip) vs model logp on the
     serialised term, at boundary-directed x.
  U2 sample(key) / sample_and_log_prob(key) vs model sample / sample_lp fed with the draw the real innermost base produces on
     the same key path (split(key, 1)[0], handed down unchanged).
  U3 merge_transforms(): real merged object vs model merge_transforms (structure, log_prob, sample_and_log_prob) and vs the
     original object.
  U4 triangular_spline_flow (the factory the expression language covers end to end), dims 1-3, both `invert`, with/without
     condition: term built from the flow's layers and the DOCUMENTED orientation (Invert(Chain layers) iff invert=True).
Search oracle (the property's own three identities, on the implementation alone): every flow factory x dims 1-3 x both invert x
conditional / unconditional, perturbed parameters, plus conditional-base / unconditional-bijection combinations.
"""

import math
import time

import numpy as np

from harness import distser as ds
from harness import leaves as lv
from harness.common import fhex, fparse, hexlist

PROPERTY = "C03"
GROUPS = ["dist"]
MANIFEST = {
    "design_ref": "DESIGN.md 4.3",
    "technique": "Coq proofs over R (induction over bijection expressions and over nested Transformed) about an executable Gallina model of "
                 "AbstractTransformed/Chain/Invert/merge_transforms + executed correspondence of the extracted model with the real distributions",
    "text": "Theorems over the reals about coq/Model/Dist.v (shaped like distributions.py::AbstractTransformed, chain.py, utils.py::Invert): "
            "log_prob unfolds to base log-density at the inverse image plus the inverse log-det; the log-probability returned with a sample "
            "equals log_prob at that sample and the returned point is sample(key) -- for every base sampler, every expression over the leaf "
            "bijections / TriangularAffine / Permute / Flip / Chain / Invert of any depth and any nesting of Transformed, under explicit "
            "validity guards taken from C01/C02 (and for ANY layer satisfying the C01+C02 laws, which covers conditional layers at a fixed "
            "condition); merge_chains and merge_transforms leave log_prob, sample and sample_and_log_prob unchanged; invert=True builds "
            "Transformed(base, Invert(Chain layers)) whose log_prob applies the layers' forward maps in order with log-dets added. The same "
            "definitions, extracted and run at IEEE doubles, are compared on every run with real flowjax objects (1e-9 relative plus measured "
            "conditioning), key path included. Conditional routing, masked-autoregressive / coupling / planar / BNAF flows are covered by the "
            "property's own identities evaluated on the implementation (search level), not by the model. Exact over R; float rounding not modelled.",
    "note": "Trusted: Coq kernel, axioms of Reals as printed by Print Assumptions, extraction (ExtrOcamlBasic), OCaml float primitives, "
            "harness serialiser. jr.split / jr.normal are taken as given (the base draw is read from the real base distribution on the same key path).",
}


# ------------------------------------------------------------------ helpers
def _to_minf(v):
    """AbstractDistribution.log_prob: jnp.where(jnp.isnan(lps), -inf, lps)  (modelled in C05's Dens.v; applied here)."""
    return -math.inf if (isinstance(v, float) and math.isnan(v)) else v


def _close(a, b, tol):
    if math.isnan(a) or math.isnan(b):
        return math.isnan(a) and math.isnan(b)
    if math.isinf(a) or math.isinf(b):
        return a == b
    return abs(a - b) <= tol


def _vec_close(a, b, tol):
    a, b = np.ravel(a), np.ravel(b)
    tol = np.broadcast_to(np.asarray(tol, dtype=float), a.shape)
    return len(a) == len(b) and all(_close(float(p), float(q), float(t)) for p, q, t in zip(a, b, tol))


def _nbr_stack(x):
    """x and its 2*size float neighbours (one coordinate moved by one ulp), stacked on a new leading axis."""
    x = np.asarray(x, dtype=float)
    flat = x.ravel()
    out = [flat.copy()]
    for i in range(flat.size):
        for s in (-np.inf, np.inf):
            v = flat.copy()
            v[i] = np.nextafter(v[i], s)
            out.append(v)
    return np.stack(out).reshape((len(out),) + x.shape)


def logp_with_sensitivity(d, x, cond=None):
    """(log_prob(x), max change of log_prob over the one-ulp neighbours of x) from one batched call."""
    v, s = logps_with_sensitivity(d, [x], cond)
    return v[0], s[0]


def logps_with_sensitivity(d, xs, cond=None):
    """For each x of xs: log_prob(x) and the max change of log_prob over the one-ulp neighbours of x; ONE batched call."""
    jnp = lv.lib()["jnp"]
    stacks = [_nbr_stack(x) for x in xs]
    allx = np.concatenate(stacks)
    rows = PAD * len(stacks[0]) if len(xs) <= PAD else len(allx)   # fixed batch shape: XLA's per-op cache hits across cases
    if len(allx) < rows:
        allx = np.concatenate([allx, np.repeat(allx[:1], rows - len(allx), axis=0)])
    lps = np.asarray(d.log_prob(jnp.asarray(allx), cond), dtype=float)
    vals, sens, pos = [], [], 0
    for st in stacks:
        blk = lps[pos:pos + len(st)]
        pos += len(st)
        with np.errstate(invalid="ignore"):
            diffs = np.abs(blk[1:] - blk[0])
        diffs = diffs[np.isfinite(diffs)]
        vals.append(float(blk[0]))
        sens.append(float(np.max(diffs)) if diffs.size else 0.0)
    return vals, sens


def oracle_logps(d, xs, cond=None):
    """rhs of the first identity for each x: base_dist.log_prob(bijection.inverse(x)) + inverse log-det through the public
    methods (vmapped over the points); also returns the inverse log-dets."""
    L = lv.lib()
    jnp, jax = L["jnp"], L["jax"]
    X = _pad_rows(np.stack([np.asarray(x, dtype=float) for x in xs]))
    X = jnp.asarray(X)
    bc = cond if d.bijection.cond_shape is not None else None
    dc = cond if d.base_dist.cond_shape is not None else None
    Z, LD = jax.vmap(lambda x: d.bijection.inverse_and_log_det(x, bc))(X)
    rhs = np.asarray(d.base_dist.log_prob(Z, dc), dtype=float) + np.asarray(LD, dtype=float)
    return [_to_minf(float(v)) for v in rhs[:len(xs)]], [float(v) for v in np.asarray(LD, dtype=float)[:len(xs)]]


PAD = 12


def _pad_rows(X):
    if len(X) < PAD:
        X = np.concatenate([X, np.repeat(X[:1], PAD - len(X), axis=0)])
    return X


def _tol(v, sens, rel=1e-9):
    return rel * max(1.0, abs(v) if math.isfinite(v) else 1.0) + 64.0 * sens


def _xs_for(d, rng, quick):
    """Evaluation points: forward images of random base-space points, boundary points of every elementary step of the outer
    bijection, and a few arbitrary reals (possibly outside the support)."""
    L = lv.lib()
    jnp = L["jnp"]
    shape = tuple(d.shape)
    n = int(np.prod(shape)) if shape else 1
    xs = []
    for _ in range(3 if quick else 8):
        z = jnp.asarray(rng.normal(0, 1.2, shape))
        x = np.asarray(L["unwrap"](d.bijection).transform(z), dtype=float)
        if np.all(np.isfinite(x)):
            xs.append(("image", x))
    for x in ds.boundary_points(d.bijection, rng, per_step=2 if quick else 6):
        xs.append(("boundary", x))
    for s in ([0.0, -1.0] if quick else [0.0, 1.0, -1.0, 37.0, -1e4]):
        v = rng.normal(0, 1.5, n)
        v[int(rng.integers(0, n))] = s
        xs.append(("free", v.reshape(shape)))
    return xs


def oracle_logp(d, x, cond=None):
    """The first identity of the property on the implementation: log_prob(x) = base.log_prob(inverse(x)) + inverse log-det,
    recomputed through the public methods.  Returns (lhs, rhs)."""
    jnp = lv.lib()["jnp"]
    xj = jnp.asarray(x)
    bc = cond if d.bijection.cond_shape is not None else None
    dc = cond if d.base_dist.cond_shape is not None else None
    z, ld = d.bijection.inverse_and_log_det(xj, bc)
    rhs = float(d.base_dist.log_prob(z, dc)) + float(ld)
    return float(d.log_prob(xj, cond)), _to_minf(rhs)


def _case(spec, **kw):
    c = dict(dist=spec)
    c.update(kw)
    return c


# ------------------------------------------------------------------ U1..U3 on generated distributions
def _viol(ctx, unit, what, spec, errs, msg, expected, observed, broken, **case):
    unit.disagreements += (0 if errs else 1)
    ctx.violation(sig=f"{what}:{'oracle' if errs else 'model-mismatch'}", what="; ".join(errs) if errs else msg,
                  case=_case(spec, unit=what, **case), found_input=bool(errs), unit=unit.name, expected=expected, observed=observed,
                  broken=broken, reproducer="cd /verif && ./check C03 --replay <this file>")


def unit_tie(ctx, n_dists=None):
    L = lv.lib()
    jnp, jr = L["jnp"], L["jr"]
    rng = ctx.rng
    u1 = ctx.unit("logp-tie", "real dist.log_prob(x) vs extracted Model/Dist.v logp on the serialised term; random expressions (depth<=3, "
                              "shapes (), (1,), (2,), (3,)), bases StandardNormal / Normal(neg. scales) / Gumbel, nesting 1-3; x = forward "
                              "images, boundary points of every elementary step pushed forward, free reals; non-trivial = finite log_prob "
                              "and |log-det part| > 1e-3")
    u2 = ctx.unit("sample-tie", "real sample(key), sample_and_log_prob(key) vs model sample / sample_lp fed with the innermost base's "
                                "draw on the same key path; non-trivial = finite outputs")
    u3 = ctx.unit("merge-tie", "d.merge_transforms(): structure + log_prob + sample_and_log_prob of the real merged object vs model "
                               "merge_transforms, and merged vs original object; non-trivial = nesting >= 2")
    uo = ctx.unit("identities-oracle", "the three identities of the statement recomputed through public methods on the generated "
                                       "distributions (implementation only)")
    n_dists = n_dists if n_dists is not None else (10 if ctx.quick else 150)
    shapes = [(), (1,), (2,), (3,)]
    work, reqs = [], []
    for i in range(n_dists):
        shape = shapes[i % len(shapes)]
        spec = ds.gen_dist_spec(rng, shape, depth=int(rng.integers(1, 4)), nest=int(rng.integers(1, 4)))
        try:
            d = ds.make_dist(spec)
            term = ds.ser_dist(d)
        except ds.Unsupported as e:
            ctx.notes.append(f"generated spec outside the serialiser: {e}")
            continue
        t = " ".join(term)
        xs = _xs_for(d, rng, ctx.quick)
        if ctx.quick and len(xs) > PAD:   # keep every kind represented
            xs = [xs[int(j)] for j in sorted(rng.choice(len(xs), size=PAD, replace=False))]
        keys = [int(rng.integers(0, 2**31)) for _ in range(3 if ctx.quick else 5)]
        zs = [ds.base_draw(d, jr.PRNGKey(k)) for k in keys]
        first = len(reqs)
        for _, x in xs:
            reqs.append(f"logp {hexlist(np.ravel(x))} {t}")
            reqs.append(f"mlogp {hexlist(np.ravel(x))} {t}")
        for z in zs:
            reqs.append(f"samplelp {hexlist(np.ravel(z))} {t}")
            reqs.append(f"msamplelp {hexlist(np.ravel(z))} {t}")
        reqs.append(f"mstruct {t}")
        work.append((spec, d, t, xs, keys, zs, first))
    outs = ctx.model(reqs, "dist")
    for wi, (spec, d, t, xs, keys, zs, first) in enumerate(work):
        if wi % 8 == 7:
            L["jax"].clear_caches()   # one compiled executable per distinct structure: keep the process small
        nest = len(spec["layers"]) + (1 if spec["base"] in ("normal", "gumbel") else 0)
        shp = ds.shape_of_term(t.split(" "))
        dm = d.merge_transforms()
        pts = [x for _, x in xs]
        pos = first
        bad_driver = [o for o in outs[first:first + 2 * len(xs) + 2 * len(zs) + 1] if o.startswith("ERR")]
        if bad_driver:
            ctx.violation(sig="driver", what=f"model driver error {bad_driver[0]} on {shp}", case=_case(spec), found_input=False, unit=u1.name)
            continue
        # ---- one jitted evaluation per object (original and merged)
        X = _pad_rows(np.stack(pts))
        lpN, rhs_, LD, S, LPS, S2, P, LPSN = eval_dist(d, X, None, keys)
        lpNm, _, _, Sm, LPSm, S2m, Pm, LPSNm = (lpN, None, None, S, LPS, S2, P, LPSN) if dm is d else eval_dist(dm, X, None, keys)
        for i, (kind, x) in enumerate(xs):
            v, se, r, ld, vm = float(lpN[i, 0]), _sens(lpN[i]), _to_minf(float(rhs_[i])), float(LD[i]), float(lpNm[i, 0])
            mv, mvm = _to_minf(fparse(outs[pos])), _to_minf(fparse(outs[pos + 1]))
            pos += 2
            xh = [fhex(q) for q in np.ravel(x)]
            key = (str(spec), xh)
            u1.count(("logp",) + key, nontrivial=math.isfinite(v) and abs(ld) > 1e-3, tag=f"{kind}:nest{nest}")
            u3.count(("mlogp",) + key, nontrivial=nest >= 2, tag=f"logp:{kind}:nest{nest}")
            uo.count(("id1",) + key, nontrivial=math.isfinite(v), tag="logp=base(inverse)+ld")
            uo.count(("merge",) + key, nontrivial=nest >= 2, tag="merge_transforms=original")
            if len(u1.hashes) % 60 == 1:
                ctx.sample(dict(unit=u1.name, term=shp, x=np.ravel(x).tolist(), model=mv, implementation=v))
            tol = _tol(v, se)
            errs = []
            if not _close(v, r, tol):
                errs.append(f"log_prob(x) = {v!r} but base_dist.log_prob(bijection.inverse(x)) + inverse log-det = {r!r} at x = {np.ravel(x).tolist()}")
            if not _close(mv, v, tol) or errs:
                _viol(ctx, u1, "logp", spec, errs, f"log_prob: model {mv!r} != implementation {v!r} on {shp} at x={np.ravel(x).tolist()}", mv, v,
                      "correspondence with Model/Dist.v logp / theorem C03_logp_transformed", x=xh)
            errs = []
            if not _close(vm, v, tol):
                errs.append(f"merge_transforms().log_prob(x) = {vm!r} but the original log_prob(x) = {v!r} at x = {np.ravel(x).tolist()}")
            if not _close(mvm, vm, tol) or errs:
                _viol(ctx, u3, "mlogp", spec, errs, f"merge_transforms().log_prob: model {mvm!r} != implementation {vm!r} on {shp}", mvm, vm,
                      "correspondence with Model/Dist.v merge_transforms / theorem C03_merge_transforms_same", x=xh)
        # ---- sampling paths
        for j, (kint, z) in enumerate(zip(keys, zs)):
            for what, unit, (xi, lpi, xsamp, pushed, lpsn) in (("samplelp", u2, (S[j], float(LPS[j]), S2[j], P[j], LPSN[j])),
                                                                ("msamplelp", u3, (Sm[j], float(LPSm[j]), S2m[j], Pm[j], LPSNm[j]))):
                line = outs[pos]
                pos += 1
                xs_m, lp_m = line.split(" ")
                xm = np.array([fparse(v) for v in xs_m.split(",")], dtype=float)
                lpm = fparse(lp_m)
                xi, xsamp, pushed = np.ravel(xi), np.ravel(xsamp), np.ravel(pushed)
                ckey = (what, str(spec), kint)
                fin = bool(np.all(np.isfinite(xi)) and math.isfinite(lpi))
                unit.count(ckey, nontrivial=fin if what == "samplelp" else nest >= 2, tag=f"sample:nest{nest}")
                tolx = 1e-9 * np.maximum(1.0, np.abs(xi))
                ok = _vec_close(xm, xi, tolx) and _close(lpm, lpi, _tol(lpi, 0.0)) and _vec_close(xsamp, xi, tolx)
                errs = []
                if fin:
                    lpx, se = float(lpsn[0]), _sens(lpsn)
                    saturated = math.isnan(lpx)   # forward pass saturated in floats (pre-image of the sample not finite): skipped
                    uo.count(("id3",) + ckey, nontrivial=not saturated, tag="lp(sample)=log_prob(sample)" + (":saturated-skipped" if saturated else ""))
                    if not saturated and not _close(lpi, lpx, _tol(lpx, se, 1e-7)):
                        errs.append(f"sample_and_log_prob(key) returned log-prob {lpi!r} but log_prob(sample) = {lpx!r}")
                    if not _vec_close(xsamp, xi, 1e-12 * np.maximum(1.0, np.abs(xi))):
                        errs.append(f"sample(key) = {xsamp.tolist()} differs from the point of sample_and_log_prob(key) = {xi.tolist()}")
                    uo.count(("id2",) + ckey, nontrivial=True, tag="sample=transform(base.sample)")
                    if not _vec_close(xsamp, pushed, tolx):
                        errs.append(f"sample(key) = {xsamp.tolist()} is not bijection.transform(base_dist.sample(key)) = {pushed.tolist()}")
                if not ok or errs:
                    _viol(ctx, unit, what, spec, errs, f"{what}: model ({xm.tolist()}, {lpm!r}) != implementation sample_and_log_prob ({xi.tolist()}, {lpi!r}), "
                          f"sample {xsamp.tolist()} on {shp} key {kint}", [xm.tolist(), lpm], [xi.tolist(), lpi],
                          "correspondence with Model/Dist.v sample_lp / theorem C03_sample_lp_consistent", key=kint)
        # ---- structure of the merged object
        line = outs[pos]
        try:
            real = ds.shape_of_term(ds.ser_dist(dm))
        except ds.Unsupported as e:
            real = f"unsupported:{e}"
        u3.count(("mstruct", str(spec)), nontrivial=nest >= 2, tag=f"struct:nest{nest}")
        if real != line:
            u3.disagreements += 1
            ctx.violation(sig="merge_transforms:structure", what=f"merge_transforms(): model term {line} != real merged object {real}",
                          case=_case(spec, unit="mstruct"), found_input=False, unit=u3.name, expected=line, observed=real,
                          broken="correspondence with Model/Dist.v merge_transforms")


# ------------------------------------------------------------------ flows: one jitted evaluation per flow
def _strip_invert(b):
    B = lv.lib()["B"]
    u = lv.lib()["unwrap"](b)
    return (u.bijection, True) if type(u) is B.Invert else (u, False)


_EVAL = {}


def _flow_eval():
    """eqx.filter_jit'ed evaluation of everything the identities need (one compilation per flow)."""
    if "f" in _EVAL:
        return _EVAL["f"]
    L = lv.lib()
    eqx, jnp, jax = L["eqx"], L["jnp"], L["jax"]

    def nbrs(x):  # x and its one-ulp neighbours, stacked on a new leading axis (any shape)
        shp = x.shape
        x = x.reshape(-1)
        n = x.shape[0]
        eye = jnp.eye(n, dtype=bool)
        up = jnp.where(eye, jnp.nextafter(x, jnp.inf)[None, :], x[None, :])
        dn = jnp.where(eye, jnp.nextafter(x, -jnp.inf)[None, :], x[None, :])
        return jnp.concatenate([x[None, :], up, dn]).reshape((2 * n + 1,) + shp)

    @eqx.filter_jit
    def f(flow, X, c, keys):
        bc = c if flow.bijection.cond_shape is not None else None
        dc = c if flow.base_dist.cond_shape is not None else None
        lpN = jax.vmap(lambda x: flow.log_prob(nbrs(x), c))(X)                      # (m, 2d+1)
        Z, LD = jax.vmap(lambda x: flow.bijection.inverse_and_log_det(x, bc))(X)
        rhs = flow.base_dist.log_prob(Z, dc) + LD

        def per_key(key):
            s, lps = flow.sample_and_log_prob(key, (), c)
            s2 = flow.sample(key, (), c)
            pushed = flow.bijection.transform(flow.base_dist.sample(key, (), dc), bc)
            back = flow.bijection.inverse(s, bc)
            # float saturation of the forward pass (tanh -> +-1.0, exp -> 0.0 ...): the pre-image is not finite any more;
            # the property is about the reals, such samples are skipped (DESIGN 7 / BUILDERS pitfalls)
            lpn = flow.log_prob(nbrs(s), c)
            lpn = jnp.where(jnp.all(jnp.isfinite(back)), lpn, jnp.nan)
            return s, lps, s2, pushed, lpn
        S, LPS, S2, P, LPSN = jax.vmap(per_key)(keys)
        return lpN, rhs, LD, S, LPS, S2, P, LPSN

    _EVAL["f"] = f
    return f


def _sens(row):
    with np.errstate(invalid="ignore"):
        d = np.abs(row[1:] - row[0])
    d = d[np.isfinite(d)]
    return float(np.max(d)) if d.size else 0.0


def eval_dist(d, X, c, kints):
    L = lv.lib()
    jnp, jr = L["jnp"], L["jr"]
    keys = jnp.stack([jr.PRNGKey(k) for k in kints])
    return [np.asarray(a, dtype=float) for a in _flow_eval()(d, jnp.asarray(X), c, keys)]


def flow_identities(flow, X, c, kints, tol):
    """The property's statement on one flow, implementation only: list of (error string, input dict)."""
    lpN, rhs, LD, S, LPS, S2, P, LPSN = eval_dist(flow, X, c, kints)
    errs = []
    for i in range(len(X)):
        lp, r = float(lpN[i, 0]), _to_minf(float(rhs[i]))
        if not _close(lp, r, _tol(lp, _sens(lpN[i]), tol)):
            errs.append((f"log_prob(x) = {lp!r} but base_dist.log_prob(bijection.inverse(x)) + inverse log-det = {r!r} at x = {np.ravel(X[i]).tolist()}",
                         dict(x=[fhex(v) for v in np.ravel(X[i])])))
    for j, k in enumerate(kints):
        s, lps = S[j], float(LPS[j])
        tolx = max(tol, 1e-9) * np.maximum(1.0, np.abs(s))
        if np.all(np.isfinite(s)) and math.isfinite(lps) and not math.isnan(float(LPSN[j, 0])):
            lp2 = float(LPSN[j, 0])
            if not _close(lps, lp2, _tol(lp2, _sens(LPSN[j]), tol)):
                errs.append((f"sample_and_log_prob(key) returned log-prob {lps!r} but log_prob(sample) = {lp2!r} (sample {s.tolist()}, key {k})", dict(key=k)))
        if not _vec_close(S2[j], s, tolx):
            errs.append((f"sample(key) = {S2[j].tolist()} but sample_and_log_prob(key) returned the point {s.tolist()} (key {k})", dict(key=k)))
        if not _vec_close(S2[j], P[j], tolx):
            errs.append((f"sample(key) = {S2[j].tolist()} is not bijection.transform(base_dist.sample(key)) = {P[j].tolist()} (key {k})", dict(key=k)))
    return errs, dict(lp=lpN[:, 0], ld=LD, S=S, LPS=LPS, sens=[_sens(r) for r in lpN])


def _flow_case(ctx, uf, name, dim, cond, inv, flow, tol, kint, rng, nx, nk, u4=None, jobs=None, reqs=None):
    """identities on one flow (+ for the covered factory: queue the model requests of the factory tie)."""
    L = lv.lib()
    jnp, B = L["jnp"], L["B"]
    X = rng.normal(0, 1.5, (nx, dim))
    c = None if cond is None else jnp.asarray(rng.normal(0, 1, cond))
    kints = [int(rng.integers(0, 2**31)) for _ in range(nk)]
    meta = dict(flow=name, dim=dim, cond=None if c is None else [fhex(v) for v in np.ravel(c)], invert=inv, factory_key=kint)
    res = None
    try:
        errs, res = flow_identities(flow, X, c, kints, tol)
        if (type(L["unwrap"](flow.bijection)) is B.Invert) != inv:
            errs.append((f"invert={inv} but flow.bijection is {type(flow.bijection).__name__}: the orientation does not follow the `invert` argument", {}))
    except Exception as e:
        errs = [(f"raised {type(e).__name__}: {str(e)[:200]}", dict(x=[fhex(v) for v in X[0]], key=kints[0]))]
    for i in range(nx):
        uf.count(str((meta, X[i].tolist())), nontrivial=res is not None and math.isfinite(float(res["lp"][i])) and abs(float(res["ld"][i])) > 1e-3,
                 tag=f"{name}:inv{inv}:cond{cond is not None}:logp")
    for k in kints:
        uf.count(str((meta, k)), nontrivial=res is not None, tag=f"{name}:inv{inv}:cond{cond is not None}:sample")
    for msg, inp in errs[:1]:
        case = dict(meta, x=[fhex(v) for v in X[0]], key=kints[0])
        case.update(inp)
        ctx.violation(sig=f"flow:{name}:invert={inv}:cond={cond is not None}:{msg.split(' ')[0]}", what=f"{name} dim {dim} invert={inv} cond={cond}: " + "; ".join(m for m, _ in errs[:3]),
                      case=case, found_input=True, unit=uf.name, expected="identities of the statement", observed=[m for m, _ in errs[:5]],
                      broken="change-of-variables identities on the implementation", reproducer="cd /verif && ./check C03 --replay <this file>")
    if u4 is not None and name == "triangular-spline" and res is not None:
        inner, has_inv = _strip_invert(flow.bijection)
        try:
            layers = ds.ser_bij(inner, c)
        except ds.Unsupported as e:
            ctx.notes.append(f"factory-tie: {name} not serialisable: {e}")
            return
        t = " ".join(["T", "N"] + (["I"] if inv else []) + layers)  # orientation from the ARGUMENT, not from the object
        for i in range(nx):
            jobs.append(("logp", meta, X[i], float(res["lp"][i]), res["sens"][i]))
            reqs.append(f"logp {hexlist(X[i])} {t}")
        for j, k in enumerate(kints):
            z = ds.base_draw(flow, L["jr"].PRNGKey(k))
            jobs.append(("samplelp", meta, (k, z), (res["S"][j], float(res["LPS"][j])), 0.0))
            reqs.append(f"samplelp {hexlist(z)} {t}")


def unit_flows(ctx, configs=None, bnaf_cfg=None, extras=True):
    L = lv.lib()
    rng = ctx.rng
    uf = ctx.unit("flows-oracle", "flow factories (quick: stratified subset rotating with the seed; thorough: every factory x dims 1-3 x invert "
                                  "True/False x conditional/unconditional), parameters perturbed N(0,0.4^2): log_prob = base.log_prob(inverse) + ld; "
                                  "log-prob returned with a sample = log_prob(sample); sample(key) = transform(base.sample(key)); bijection is an "
                                  "Invert iff invert=True; 1e-7 relative + measured conditioning (bisection-inverted BNAF 2e-4); non-trivial = "
                                  "finite log_prob with |log-det| > 1e-3")
    u4 = ctx.unit("factory-tie", "triangular_spline_flow (the factory the expression language covers end to end): log_prob / sample_and_log_prob "
                                 "vs the model term Transformed(N, Invert(Chain layers)) resp. Transformed(N, Chain layers) built from the flow's "
                                 "layers and the orientation the documentation of `invert` prescribes; non-trivial = finite value")
    names = [n for n in ds.FACTORIES if n != "bnaf"]
    if configs is None:
        configs = ds.quick_configs(ctx.seed, names) + [("triangular-spline", 1 + (ctx.seed + 2) % 3, None if ctx.seed % 2 else 2, ctx.seed % 2 == 1)]
        bnaf_cfg = ds.quick_configs(ctx.seed, ds.FACTORIES)[-2:]
    guard = None
    payload = dict(seed=int(rng.integers(0, 2**31)), quick=ctx.quick, configs=bnaf_cfg or [])
    # BNAF needs a numerically inverted direction on one of the two paths (never returns for a bounded layer): separate
    # process under a wall-clock guard, started first so that it runs beside the other factories
    if bnaf_cfg:
        guard = ds.start_guarded("c03", "bnaf_worker", payload)
    jobs, reqs = [], []
    for fi, (name, dim, cond, inv, flow, tol, kint) in enumerate(ds.flows(ctx, configs)):
        if fi % 6 == 5:
            L["jax"].clear_caches()
        _flow_case(ctx, uf, name, dim, cond, inv, flow, tol, kint, rng, 3 if ctx.quick else 6, 2 if ctx.quick else 4, u4, jobs, reqs)
    outs = ctx.model(reqs, "dist")
    for (what, meta, a, impl, sens), line in zip(jobs, outs):
        tag = f"dim{meta['dim']}:inv{meta['invert']}:cond{meta['cond'] is not None}"
        if what == "logp":
            mv = _to_minf(fparse(line)) if not line.startswith("ERR") else float("nan")
            u4.count((what, str(meta), [fhex(v) for v in a]), nontrivial=math.isfinite(impl), tag=tag)
            ok, exp, obs = _close(mv, impl, _tol(impl, sens)), mv, impl
        else:
            k, z = a
            xi, lpi = impl
            u4.count((what, str(meta), k), nontrivial=math.isfinite(lpi), tag=tag)
            if line.startswith("ERR"):
                ok, exp = False, line
            else:
                xm = np.array([fparse(v) for v in line.split(" ")[0].split(",")], dtype=float)
                ok = _vec_close(xm, xi, 1e-8 * np.maximum(1.0, np.abs(xi))) and _close(fparse(line.split(" ")[1]), lpi, 1e-8 * max(1.0, abs(lpi)))
                exp = [xm.tolist(), fparse(line.split(" ")[1])]
            obs = [np.asarray(xi).tolist(), lpi]
        if not ok:
            u4.disagreements += 1
            ctx.violation(sig=f"factory:{meta['flow']}:invert={meta['invert']}:{what}",
                          what=f"{meta['flow']} dim {meta['dim']} invert={meta['invert']}: {what} model {exp} != implementation {obs}",
                          case=dict(meta, unit=what, arg=[fhex(v) for v in np.ravel(a if what == 'logp' else a[1])]), found_input=False, unit=u4.name,
                          expected=exp, observed=obs, broken="theorem C03_factory_orientation_invert/_plain on the serialised term")
    if extras:
        unit_orientation_oracle(ctx)
        unit_cond_routing(ctx)
    if guard is None:
        return
    res = ds.finish_guarded(guard, timeout=(170 if ctx.quick else 900))
    if res.get("timeout"):
        ctx.violation(sig="flows-oracle:bnaf:timeout", what="the BNAF identities did not return within the wall-clock guard (numerical inversion of a "
                      "bounded layer never returns)", case=payload, found_input=False, unit=uf.name, broken="flows-oracle (BNAF)")
    elif "error" in res:
        ctx.violation(sig="flows-oracle:bnaf:crash", what="BNAF oracle worker crashed: " + res["error"][-400:], case=payload, found_input=False, unit=uf.name)
    else:
        for k, nt, tag in res["counts"]:
            uf.count(k, nontrivial=nt, tag=tag)
        for v in res["violations"]:
            ctx.violation(unit=uf.name, found_input=True, **v)
        ctx.notes += res.get("notes", [])


def bnaf_worker(payload):
    """Runs in a separate process (wall-clock guarded): BNAF identities."""
    class C:
        pass

    class U:
        def __init__(self):
            self.counts = []
            self.name = "flows-oracle"

        def count(self, k, nontrivial=True, tag=None):
            self.counts.append([k, bool(nontrivial), tag])

    ctx = C()
    ctx.rng = np.random.default_rng(np.random.PCG64(payload["seed"]))
    ctx.quick = payload["quick"]
    ctx.notes = []
    viol = []
    ctx.violation = lambda **kw: viol.append({k: v for k, v in kw.items() if k not in ("unit", "found_input")})
    uf = U()
    for name, dim, cond, inv, flow, tol, kint in ds.flows(ctx, [tuple(c) for c in payload["configs"]]):
        _flow_case(ctx, uf, name, dim, cond, inv, flow, tol, kint, ctx.rng, 2 if ctx.quick else 4, 1 if ctx.quick else 3)
    return dict(counts=uf.counts, violations=viol, notes=ctx.notes)


def unit_orientation_oracle(ctx, todo=None):
    """invert=True and invert=False built from the SAME key have the same layers; with invert=True log_prob must go through the
    layers' forward maps, log-dets added: log_prob_T(x) = base.log_prob(y) + ld with (y, ld) = layers.transform_and_log_det(x),
    where `layers` is the bijection of the invert=False flow."""
    L = lv.lib()
    jnp, jr, B = L["jnp"], L["jr"], L["B"]
    from flowjax.distributions import StandardNormal

    rng = ctx.rng
    uo = ctx.unit("orientation-oracle", "factory(key, invert=True).log_prob(x) == base.log_prob(y) + ld, (y, ld) = factory(key, invert=False)"
                                        ".bijection.transform_and_log_det(x); quick: two factories rotating with the seed; thorough: all x dims 1-3")
    names = [n for n in ds.FACTORIES if n != "bnaf"]
    if todo is None:
        todo = [(names[(ctx.seed + i) % len(names)], 1 + (ctx.seed + i) % 3) for i in (0, 2)]
    for name, dim in todo:
        if name == "coupling" and dim == 1:
            dim = 2
        base = StandardNormal((dim,))
        kint = int(rng.integers(0, 2**31))
        ft, ff = ds.build_flow(name, dim, None, True, kint), ds.build_flow(name, dim, None, False, kint)
        x = rng.normal(0, 1.0, (dim,))
        y, ld = ff.bijection.transform_and_log_det(jnp.asarray(x))
        rhs = float(base.log_prob(y)) + float(ld)
        lhs = float(ft.log_prob(jnp.asarray(x)))
        meta = dict(flow=name, dim=dim, factory_key=kint, x=[fhex(v) for v in x], orientation_pair=True)
        uo.count(str(meta), nontrivial=abs(float(ld)) > 1e-6, tag=name)
        errs = []
        if not _close(lhs, rhs, 1e-8 * max(1.0, abs(rhs))):
            errs.append(f"invert=True log_prob(x) = {lhs!r}, layers' forward map + log-det gives {rhs!r}")
        if type(L["unwrap"](ft.bijection)) is not B.Invert or type(L["unwrap"](ff.bijection)) is B.Invert:
            errs.append("isinstance(flow.bijection, Invert) does not follow the `invert` argument")
        if errs:
            ctx.violation(sig=f"orientation:{name}", what=f"{name} dim {dim}: " + "; ".join(errs), case=meta, found_input=True, unit=uo.name,
                          expected=rhs, observed=lhs, broken="theorem C03_factory_orientation_invert (documented orientation of invert=True)")


def unit_cond_routing(ctx, reps=1):
    """Conditional base under an unconditional bijection, unconditional base under a conditional bijection, and both."""
    L = lv.lib()
    jnp, jr, B, eqx = L["jnp"], L["jr"], L["B"], L["eqx"]
    import flowjax.flows as F
    from flowjax.distributions import StandardNormal, Transformed
    from harness import flowcases as fc

    rng = ctx.rng
    uc = ctx.unit("cond-routing-oracle", "Transformed(conditional base, unconditional bijection) / (unconditional base, conditional bijection) / "
                                         "(both): cond_shape merged, identities hold with the condition given to whichever part is conditional, "
                                         "the base's conditional density is what enters, and the density really depends on the condition")
    for rep in range(reps):
        dim = 1 + (ctx.seed + rep) % 3
        k1, k2 = jr.split(jr.PRNGKey(int(rng.integers(0, 2**31))))
        cbase = fc.perturb(F.masked_autoregressive_flow(k1, base_dist=StandardNormal((dim,)), cond_dim=2, flow_layers=1, nn_width=6), rng, 0.5)
        ubij = eqx.tree_at(lambda a: a.scale, B.Affine(jnp.asarray(rng.normal(0, 1, dim)), jnp.ones(dim)),
                           jnp.asarray(np.exp(rng.normal(0, 0.5, dim)) * rng.choice([-1.0, 1.0], dim)))
        cbij = fc.perturb(B.MaskedAutoregressive(k2, transformer=B.Affine(), dim=dim, cond_dim=2, nn_width=6, nn_depth=1), rng, 0.5)
        combos = [("cond-base/uncond-bijection", Transformed(cbase, ubij)),
                  ("uncond-base/cond-bijection", Transformed(StandardNormal((dim,)), cbij)),
                  ("cond-base/cond-bijection", Transformed(cbase, cbij))]
        for name, d in combos:
            x = rng.normal(0, 1.2, (dim,))
            c = jnp.asarray(rng.normal(0, 1, 2))
            k = int(rng.integers(0, 2**31))
            meta = dict(combo=name, dim=dim, x=[fhex(v) for v in x], cond=[fhex(v) for v in np.ravel(c)], key=k)
            errs = []
            insensitive = False
            try:
                if d.cond_shape != (2,):
                    errs.append(f"cond_shape {d.cond_shape} != (2,)")
                errs += [m for m, _ in flow_identities(d, x[None, :], c, [k], 1e-7)[0]]
                a, b = float(d.log_prob(jnp.asarray(x), c)), float(d.log_prob(jnp.asarray(x), c + 1.0))
                insensitive = a == b   # possible with dead relu units; the identities above already use the condition explicitly
                if name.startswith("cond-base"):
                    z, ld = d.bijection.inverse_and_log_det(jnp.asarray(x), c if d.bijection.cond_shape is not None else None)
                    if not _close(a, float(cbase.log_prob(z, c)) + float(ld), 1e-8 * max(1.0, abs(a))):
                        errs.append("log_prob(x, c) != base_dist.log_prob(z, c) + log-det with the base evaluated at the same condition")
            except Exception as e:
                errs.append(f"raised {type(e).__name__}: {str(e)[:200]}")
            uc.count(str(meta), nontrivial=not errs and not insensitive, tag=name)
            if errs:
                ctx.violation(sig=f"cond-routing:{name}:{errs[0].split(' ')[0]}", what=f"{name} dim {dim}: " + "; ".join(errs[:3]), case=meta, found_input=True,
                              unit=uc.name, expected="condition routed to base and bijection", observed=errs[:5], broken="cond routing (search oracle)")


def chunk_worker(payload):
    """One chunk of the thorough tier in its own process (bounded number of XLA executables per process)."""
    from harness import common

    ctx = common.Ctx("C03", payload["tier"], payload["seed"])
    ctx.groups = ["dist"]
    ctx.quick = payload.get("quick", False)
    what = payload["what"]
    if what == "tie":
        unit_tie(ctx, n_dists=payload["n"])
    elif what == "flows":
        unit_flows(ctx, configs=[tuple(c) for c in payload["configs"]], bnaf_cfg=[tuple(c) for c in payload.get("bnaf", [])], extras=False)
    elif what == "orientation":
        unit_orientation_oracle(ctx, [tuple(t) for t in payload["todo"]])
    elif what == "cond":
        unit_cond_routing(ctx, reps=payload["reps"])
    units = {u.name: dict(what=u.what, cases=u.cases, hashes=sorted(u.hashes), nontrivial=sorted(u.nontrivial), hist=u.hist, disagreements=u.disagreements)
             for u in ctx.units.values()}
    return dict(units=units, violations=ctx.violations, samples=ctx.samples, notes=ctx.notes, known=ctx.known_hits)


def _merge(ctx, res):
    for name, r in res["units"].items():
        u = ctx.unit(name, r["what"])
        u.cases += r["cases"]
        u.hashes |= set(r["hashes"])
        u.nontrivial |= set(r["nontrivial"])
        u.disagreements += r["disagreements"]
        for k, v in r["hist"].items():
            u.hist[k] = u.hist.get(k, 0) + v
    for v in res["violations"]:
        old = [w for w in ctx.violations if w["sig"] == v["sig"]]
        if old:
            old[0]["count"] += v["count"]
        else:
            ctx.violations.append(v)
    for smp in res["samples"]:
        ctx.sample(smp)
    ctx.notes += res["notes"]
    for m in res["known"]:
        if m not in ctx.known_hits:
            ctx.known_hits.append(m)


def run_thorough(ctx):
    rng = ctx.rng
    names = [n for n in ds.FACTORIES if n != "bnaf"]
    payloads = []
    for i in range(10):
        payloads.append(dict(what="tie", n=15))
    cfgs = ds.all_configs(names)
    bn = ds.all_configs(("bnaf",))
    k = 8
    chunks = [cfgs[i:i + k] for i in range(0, len(cfgs), k)]
    for i, ch in enumerate(chunks):
        payloads.append(dict(what="flows", configs=ch, bnaf=bn[2 * i:2 * i + 2]))
    todo = [(n, d) for n in ds.FACTORIES for d in (1, 2, 3)]
    for i in range(0, len(todo), 6):
        payloads.append(dict(what="orientation", todo=todo[i:i + 6]))
    payloads.append(dict(what="cond", reps=4))
    payloads.append(dict(what="cond", reps=4))
    for p in payloads:
        p.update(tier=ctx.tier, seed=int(rng.integers(0, 2**31)), quick=False)
    pending = [(p, 0) for p in payloads]
    running = []
    deadline = time.time() + 2100
    while pending or running:
        while pending and len(running) < 3:
            p, tries = pending.pop(0)
            running.append((ds.start_guarded("c03", "chunk_worker", p), p, tries, time.time()))
        time.sleep(1.0)
        still = []
        for proc, p, tries, t0 in running:
            if proc.poll() is None and time.time() - t0 < 700 and time.time() < deadline:
                still.append((proc, p, tries, t0))
                continue
            res = ds.finish_guarded(proc, timeout=(5 if proc.poll() is None else 60))
            label = {k2: v for k2, v in p.items() if k2 in ("what", "seed", "n")}
            if "units" in res:
                _merge(ctx, res)
            elif tries == 0 and not res.get("timeout"):
                ctx.notes.append(f"chunk {label} crashed once ({str(res.get('error'))[-120:]}); retried")
                pending.append((p, 1))
            else:
                ctx.violation(sig=f"chunk:{p['what']}:{'timeout' if res.get('timeout') else 'crash'}", what=f"chunk {label} of the thorough tier "
                              f"{'did not return within its wall-clock guard' if res.get('timeout') else 'crashed twice: ' + str(res.get('error'))[-300:]}",
                              case=p, found_input=False, unit="chunks", broken="harness (chunk worker)")
        running = still


def unit_far_out(ctx):
    """The two evaluation paths far from the origin: bases with large locations / scales under SoftPlus, Exp, LeakyTanh, Affine layers, samples
    (y up to ~1e3, where exp / expm1 of the VALUE overflow but the stable formulas do not): the log-prob returned with a sample equals
    log_prob at that sample, and both equal base log-density at the inverse image + inverse log-det (NumPy reference written with the stable
    formulas).  (Seeded change C03g wrote SoftPlus.inverse_and_log_det as log(expm1(y)): -inf beyond y = 709.)"""
    L = lv.lib()
    jnp, jr = L["jnp"], L["jr"]
    import flowjax.bijections as B
    import flowjax.distributions as D
    from scipy import stats as st

    u = ctx.unit("far-out-paths", "Transformed(Normal(large loc / scale), SoftPlus | Chain[Affine, SoftPlus] | Exp on small scale | LeakyTanh): sample_and_log_prob(key) vs "
                                  "log_prob(sample) vs a NumPy reference (base log-density at the inverse image + inverse log-det), 1e-9")
    r = ctx.rng
    loc = np.array([2.0, 750.0, 1000.0]) + r.normal(0, 1, 3)
    sc = np.array([1.0, 10.0, 25.0])

    def sp_inv(y):   # stable softplus inverse and its log-derivative
        return y + np.log(-np.expm1(-y)), -np.log(-np.expm1(-y))

    cases = [
        ("Transformed(Normal(loc up to 1000), SoftPlus)", D.Transformed(D.Normal(jnp.asarray(loc), jnp.asarray(sc)), B.SoftPlus((3,))),
         lambda y: (lambda xi, ld: st.norm.logpdf(xi, loc, sc).sum() + ld.sum())(*sp_inv(y))),
        ("Transformed(Normal(loc up to 1000), Chain[SoftPlus, Affine(1, 2)])", D.Transformed(D.Normal(jnp.asarray(loc), jnp.asarray(sc)), B.Chain([B.SoftPlus((3,)), B.Affine(jnp.ones(3), jnp.full(3, 2.0))])),
         lambda y: (lambda xi, ld: st.norm.logpdf(xi, loc, sc).sum() + ld.sum() - 3 * np.log(2.0))(*sp_inv((y - 1.0) / 2.0))),
        ("Transformed(Normal(loc up to 1000), LeakyTanh(3))", D.Transformed(D.Normal(jnp.asarray(loc), jnp.asarray(sc)), B.LeakyTanh(3.0, (3,))), None),
        ("Transformed(Normal(loc up to 600, scale 5), Exp)", D.Transformed(D.Normal(jnp.asarray(loc * 0.6), jnp.asarray(sc / 5.0)), B.Exp((3,))),
         lambda y: st.norm.logpdf(np.log(y), loc * 0.6, sc / 5.0).sum() - np.log(y).sum()),
    ]
    for name, d, ref in cases:
        for rep in range(4 if ctx.quick else 20):
            key = jr.PRNGKey(int(r.integers(0, 2**31 - 1)))
            y, lp_s = d.sample_and_log_prob(key)
            lp = d.log_prob(y)
            y, lp_s, lp = np.asarray(y, dtype=float), float(lp_s), float(lp)
            u.count((name, rep, y.tolist()), nontrivial=bool(np.max(np.abs(y)) > 100), tag=name.split("(")[0] + name.split(",")[-1])
            errs = []
            tol = 1e-9 * max(1.0, abs(lp_s))
            if not (abs(lp - lp_s) <= tol):
                errs.append(f"log_prob(sample) = {lp!r} but sample_and_log_prob returned {lp_s!r}")
            if ref is not None and np.all(np.isfinite(y)):
                with np.errstate(all="ignore"):
                    rv = float(ref(y))
                if math.isfinite(rv) and not (abs(lp - rv) <= 1e-9 * max(1.0, abs(rv))):
                    errs.append(f"log_prob(sample) = {lp!r}, base log-density at the inverse image + inverse log-det = {rv!r}")
            if errs:
                ctx.violation(sig=f"far-out:{name.split('(')[0]}:{'paths' if 'sample_and_log_prob' in errs[0] else 'reference'}", what=f"{name} at sample {y.tolist()}: " + "; ".join(errs),
                              case=dict(unit="far-out", dist=name, key=np.asarray(key).tolist(), y=y.tolist()), found_input=True, unit=u.name, expected=lp_s, observed=lp,
                              broken="identities of the statement (both paths agree; change of variables) far from the origin")


def run(ctx):
    unit_far_out(ctx)
    if ctx.quick:
        unit_tie(ctx)
        unit_flows(ctx)
    else:
        run_thorough(ctx)
    ctx.assumptions += [
        "jr.split / jr.normal / jr.gumbel are taken as given: the base draw fed to the model is read from the real innermost base on the same key path",
        "NaN -> -inf of AbstractDistribution.log_prob is applied to the model value on the harness side (modelled in C05)",
        "theorems are over R; float rounding is outside the model; comparison tolerance = 1e-9 relative + 64 x the measured change of the "
        "implementation's value over the one-ulp neighbours of the input (conditioning)",
        "conditional layers, coupling / masked-autoregressive / planar / BNAF flows: the property's identities on the implementation only",
    ]
    from harness import flowcases
    flowcases.int_dtype_unit(ctx, "C03", bijections=False, distributions=True)
    flowcases.base_variety_unit(ctx)


def replay(ctx, rep):
    L = lv.lib()
    jnp, jr = L["jnp"], L["jr"]
    c = rep["case"]
    if c.get("unit") == "far-out":
        ctx.rng = np.random.default_rng(np.random.PCG64(int(rep.get("seed", 0))))
        n0 = len(ctx.violations)
        unit_far_out(ctx)
        hits = [v for v in ctx.violations[n0:] if v["sig"] == rep.get("sig")]
        for v in hits:
            print("still failing:", v["what"][:300])
        return not hits
    if "dist" in c:
        d = ds.make_dist(c["dist"])
        t = " ".join(ds.ser_dist(d))
        unit = c.get("unit")
        if unit in ("logp", "mlogp"):
            x = np.array([fparse(v) for v in c["x"]], dtype=float).reshape(d.shape)
            obj = d if unit == "logp" else d.merge_transforms()
            mv = _to_minf(fparse(ctx.model([f"{unit} {hexlist(np.ravel(x))} {t}"], "dist")[0]))
            iv, sens = logp_with_sensitivity(obj, x)
            lhs, rhs = oracle_logp(d, x)
            print("model", mv, "implementation", iv, "oracle", lhs, rhs)
            return _close(mv, iv, _tol(iv, sens)) and _close(lhs, rhs, _tol(lhs, sens)) and _close(iv, float(d.log_prob(jnp.asarray(x))), _tol(iv, sens))
        if unit in ("samplelp", "msamplelp"):
            key = jr.PRNGKey(c["key"])
            obj = d if unit == "samplelp" else d.merge_transforms()
            z = ds.base_draw(d, key)
            line = ctx.model([f"{unit} {hexlist(np.ravel(z))} {t}"], "dist")[0]
            xi, lpi = obj.sample_and_log_prob(key)
            xi, lpi = np.asarray(xi, dtype=float), float(lpi)
            xm = np.array([fparse(v) for v in line.split(" ")[0].split(",")], dtype=float)
            lpx, sens = logp_with_sensitivity(obj, xi)
            print("model", line, "implementation", xi, lpi, "log_prob(sample)", lpx)
            if not np.all(np.isfinite(np.asarray(obj.bijection.inverse(jnp.asarray(xi))))):
                print("the forward pass saturated in floats (pre-image of the sample not finite): identity not applicable")
                lpx = lpi
            return _vec_close(xm, xi, 1e-9 * np.maximum(1.0, np.abs(xi))) and _close(fparse(line.split(" ")[1]), lpi, _tol(lpi, 0.0)) and \
                _close(lpi, lpx, _tol(lpx, sens, 1e-7)) and _vec_close(np.asarray(obj.sample(key), dtype=float), xi, 1e-12 * np.maximum(1.0, np.abs(xi)))
        print("structure replay: re-run ./check C03")
        return False
    if "flow" in c and "key" in c and "factory_key" in c:
        errs = _replay_flow(c)
        print("oracle", errs)
        return not errs
    print("replay of this case kind: re-run ./check C03 (seeded)", c)
    return False


def _replay_flow(c):
    """Rebuilding a perturbed flow needs the run's rng stream; the factory is rebuilt UNPERTURBED from its key and the identities
    are evaluated at the stored x / key / condition (a defect of the evaluation paths does not depend on the perturbation)."""
    L = lv.lib()
    jnp = L["jnp"]
    cond = None if c.get("cond") is None else len(c["cond"])
    flow = ds.build_flow(c["flow"], c["dim"], cond, c["invert"], c["factory_key"])
    x = np.array([fparse(v) for v in c["x"]], dtype=float)
    cc = None if cond is None else jnp.asarray([fparse(v) for v in c["cond"]])
    errs = [m for m, _ in flow_identities(flow, x[None, :], cc, [c["key"]], ds.TOL.get(c["flow"], 1e-7))[0]]
    if (type(L["unwrap"](flow.bijection)) is L["B"].Invert) != c["invert"]:
        errs.append("orientation does not follow `invert`")
    return errs
